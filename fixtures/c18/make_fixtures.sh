#!/bin/bash
# Run ONCE (2026-09-26) to create the committed C18 fixtures; the check never calls openssl.
# Same command line as /repo/examples/security_configuration_files/sign-test-configurations.sh.
set -e
cd "$(dirname "$0")"
EX=/repo/examples/security_configuration_files
cp $EX/permissions_ca.cert.pem $EX/governance.p7s $EX/permissions.p7s .
cp $EX/cert.pem identity_cert.pem
cp $EX/governance_unsigned.xml shipped_governance_unsigned.xml
cp $EX/permissions_unsigned.xml shipped_permissions_unsigned.xml
sign() { # in out [extra flags]
  local in=$1 out=$2; shift 2
  openssl smime -sign -in "$in" -out "$out" -signer $EX/permissions_ca.cert.pem \
    -inkey $EX/permissions_ca_private_key.pem -passin file:$EX/password "$@"
}
# extra documents signed by the shipped Permissions CA
sign gov2_unsigned.xml  gov2.p7s  -text
sign perm2_unsigned.xml perm2.p7s -text
sign perm3_unsigned.xml perm3.p7s -text
# the same permissions text signed without the text/plain header
sign perm2_unsigned.xml perm2_notext.p7s
# a foreign CA with the SAME subject name as the shipped Permissions CA
openssl ecparam -name prime256v1 -out /tmp/c18_ecparam.pem
openssl req -x509 -newkey param:/tmp/c18_ecparam.pem -keyout /tmp/c18_foreign_key.pem -nodes \
  -out foreign_ca.cert.pem -days 999999 -subj "/O=Example Organization/CN=permissions_ca_common_name"
openssl smime -sign -in $EX/permissions_unsigned.xml -text -out perm_foreign.p7s \
  -signer foreign_ca.cert.pem -inkey /tmp/c18_foreign_key.pem
openssl smime -sign -in $EX/governance_unsigned.xml -text -out gov_foreign.p7s \
  -signer foreign_ca.cert.pem -inkey /tmp/c18_foreign_key.pem
rm -f /tmp/c18_ecparam.pem /tmp/c18_foreign_key.pem
# self-check with openssl (not part of the check)
for f in governance permissions gov2 perm2 perm3 perm2_notext; do
  openssl smime -verify -in $f.p7s -CAfile permissions_ca.cert.pem -out /dev/null
done
for f in perm_foreign gov_foreign; do
  openssl smime -verify -in $f.p7s -CAfile foreign_ca.cert.pem -out /dev/null
  if openssl smime -verify -in $f.p7s -CAfile permissions_ca.cert.pem -out /dev/null 2>/dev/null; then echo "foreign accepted?!"; exit 1; fi
done
