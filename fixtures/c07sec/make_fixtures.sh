#!/bin/bash
# Run ONCE (2026-09-26) to create the committed fixtures of the secure end-to-end leg of C07; the check never
# calls openssl. Signing command line as in /repo/examples/security_configuration_files/sign-test-configurations.sh.
# Identities: the ones of fixtures/c19 (p1 = the shipped cert/key, p2 and p3 issued by the shipped Identity CA).
set -e
cd "$(dirname "$0")"
EX=/repo/examples/security_configuration_files
cp $EX/permissions_ca.cert.pem .
# identities 1-3 are the ones of fixtures/c19; a fourth one for scenarios with four participants
cp ../c19/ca.cert.pem identity_ca.cert.pem
for n in 1 2 3; do cp ../c19/p${n}_cert.pem ../c19/p${n}_key.pem .; done
openssl req -newkey param:$EX/ec_parameters.pem -keyout p4_key.pem -nodes -out /tmp/c07sec.csr -subj "/O=Example Organization/CN=participant4_common_name"
openssl x509 -req -days 999999 -in /tmp/c07sec.csr -CA $EX/identity_ca.cert.pem -CAkey $EX/identity_ca_private_key.pem -passin file:$EX/password -out p4_cert.pem -set_serial 4
rm -f /tmp/c07sec.csr; chmod 644 *.pem
gov() { # name rtps discovery liveliness metadata data disc_prot(topic) access_control
cat > gov_$1_unsigned.xml <<X
<?xml version="1.0" encoding="UTF-8"?>
<dds xmlns:xsi="http://www.w3.org/2001/XMLSchema-instance"
xsi:noNamespaceSchemaLocation="http://www.omg.org/spec/DDS-SECURITY/20170901/omg_shared_ca_governance.xsd">
    <domain_access_rules>
        <domain_rule>
            <domains>
                <id_range>
                    <min>0</min>
                    <max>232</max>
                </id_range>
            </domains>
            <allow_unauthenticated_participants>false</allow_unauthenticated_participants>
            <enable_join_access_control>$8</enable_join_access_control>
            <discovery_protection_kind>$3</discovery_protection_kind>
            <liveliness_protection_kind>$4</liveliness_protection_kind>
            <rtps_protection_kind>$2</rtps_protection_kind>
            <topic_access_rules>
                <topic_rule>
                    <topic_expression>*</topic_expression>
                    <enable_discovery_protection>$7</enable_discovery_protection>
                    <enable_liveliness_protection>$7</enable_liveliness_protection>
                    <enable_read_access_control>$8</enable_read_access_control>
                    <enable_write_access_control>$8</enable_write_access_control>
                    <metadata_protection_kind>$5</metadata_protection_kind>
                    <data_protection_kind>$6</data_protection_kind>
                </topic_rule>
            </topic_access_rules>
        </domain_rule>
    </domain_access_rules>
</dds>
X
}
#   name      rtps    discovery liveliness metadata data    topic-discovery-protection access-control
gov none      NONE    NONE      NONE       NONE     NONE    false true
gov sign      SIGN    SIGN      SIGN       SIGN     SIGN    true  true
gov encrypt   ENCRYPT ENCRYPT   ENCRYPT    ENCRYPT  ENCRYPT true  true
gov origin    ENCRYPT_WITH_ORIGIN_AUTHENTICATION ENCRYPT_WITH_ORIGIN_AUTHENTICATION ENCRYPT_WITH_ORIGIN_AUTHENTICATION ENCRYPT_WITH_ORIGIN_AUTHENTICATION ENCRYPT true true
gov signorigin SIGN_WITH_ORIGIN_AUTHENTICATION SIGN_WITH_ORIGIN_AUTHENTICATION SIGN_WITH_ORIGIN_AUTHENTICATION SIGN_WITH_ORIGIN_AUTHENTICATION SIGN true true
gov payload   NONE    NONE      NONE       NONE     ENCRYPT false false
gov submsg    NONE    ENCRYPT   ENCRYPT    ENCRYPT  NONE    true  true
gov rtpsonly  ENCRYPT NONE      NONE       NONE     NONE    false false
cat > permissions_unsigned.xml <<X
<?xml version="1.0" encoding="UTF-8"?>
<dds xmlns:xsi="http://www.w3.org/2001/XMLSchema-instance"
    xsi:noNamespaceSchemaLocation="http://www.omg.org/spec/DDS-Security/20170901/omg_shared_ca_permissions.xsd">
    <permissions>
X
for n in 1 2 3 4; do cat >> permissions_unsigned.xml <<X
        <grant name="Participant${n}All">
            <subject_name>CN=participant${n}_common_name,O=Example Organization</subject_name>
            <validity>
                <not_before>2023-01-01T00:00:00</not_before>
                <not_after>9999-01-01T00:00:00</not_after>
            </validity>
            <allow_rule>
                <domains>
                    <id_range>
                        <min>0</min>
                        <max>232</max>
                    </id_range>
                </domains>
                <publish>
                    <topics>
                        <topic>*</topic>
                    </topics>
                </publish>
                <subscribe>
                    <topics>
                        <topic>*</topic>
                    </topics>
                </subscribe>
            </allow_rule>
            <default>DENY</default>
        </grant>
X
done
cat >> permissions_unsigned.xml <<X
    </permissions>
</dds>
X
sign() { openssl smime -sign -in "$1" -text -out "$2" -signer $EX/permissions_ca.cert.pem -inkey $EX/permissions_ca_private_key.pem -passin file:$EX/password; }
for g in none sign encrypt origin signorigin payload submsg rtpsonly; do sign gov_${g}_unsigned.xml gov_$g.p7s; done
sign permissions_unsigned.xml permissions.p7s
for f in gov_*.p7s permissions.p7s; do openssl smime -verify -in $f -CAfile permissions_ca.cert.pem -out /dev/null; done
