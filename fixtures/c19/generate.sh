#!/bin/bash
# How the committed C19 fixtures were made (run ONCE, by hand; ./check C19 never calls openssl).
# Same commands as /repo/examples/security_configuration_files/generate-test-certificates-and-signatures.sh
set -e
S=/repo/examples/security_configuration_files
EC=$S/ec_parameters.pem
cp $S/identity_ca.cert.pem ca.cert.pem; cp $S/cert.pem p1_cert.pem; cp $S/key.pem p1_key.pem
issue() { # name subject serial [extra x509 args]
  n=$1; subj=$2; ser=$3; shift 3
  openssl req -newkey param:$EC -keyout ${n}_key.pem -nodes -out /tmp/c19.csr -subj "$subj"
  openssl x509 -req -days 999999 -in /tmp/c19.csr -CA $S/identity_ca.cert.pem -CAkey $S/identity_ca_private_key.pem -passin file:$S/password -out ${n}_cert.pem -set_serial $ser "$@"
}
issue p2 "/O=Example Organization/CN=participant2_common_name" 2
issue p3 "/O=Example Organization/CN=participant3_common_name" 3
issue expired "/O=Example Organization/CN=participant_expired" 4 -not_before 20200101000000Z -not_after 20200201000000Z
# a foreign CA carrying the SAME subject name as the shipped Identity CA, and identities issued by it
openssl req -x509 -newkey param:$EC -keyout foreign_ca_key.pem -nodes -out foreign_ca.cert.pem -days 999999 -subj "/O=Example Organization/CN=identity_ca_common_name"
fissue() { n=$1; subj=$2; ser=$3
  openssl req -newkey param:$EC -keyout ${n}_key.pem -nodes -out /tmp/c19.csr -subj "$subj"
  openssl x509 -req -days 999999 -in /tmp/c19.csr -CA foreign_ca.cert.pem -CAkey foreign_ca_key.pem -out ${n}_cert.pem -set_serial $ser
}
fissue foreign_p "/O=Foreign Organization/CN=foreign_participant" 1
fissue foreign_p2 "/O=Example Organization/CN=participant2_common_name" 2   # subject of the genuine p2
openssl req -x509 -newkey param:$EC -keyout selfsigned_p2_key.pem -nodes -out selfsigned_p2_cert.pem -days 999999 -subj "/O=Example Organization/CN=participant2_common_name"
chmod 644 *.pem; rm -f /tmp/c19.csr
