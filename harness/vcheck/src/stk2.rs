//! E-STACK with REAL participants only (C07): two or three DomainParticipants in one
//! process and one domain, public API only. A scenario is
//!   A  creation of participants / topics / publishers+subscribers / endpoints in a random
//!      (dependency-respecting) order with random pauses; participants are created on
//!      helper threads so that their start-up overlaps with what the others do; writers
//!      may already write ("early" items) before anybody can have matched,
//!   B  wait until every compatible reader/writer pair has reported the match on both sides,
//!   C  traffic under datagram loss: values of many sizes and (keyed topics) disposals,
//!   D  a late-joining reader (TransientLocal or Volatile), possibly on a brand-new participant,
//!   E  deletion of a reader, a writer or a whole participant, then some more traffic.
//! Everything the oracle uses is what the public API returned: status events and take().
use std::{
  collections::{BTreeMap, BTreeSet},
  time::{Duration as StdDuration, Instant},
};

use rustdds::{
  no_key, policy::*, verif::net, with_key, DataReaderStatus, DataWriterStatus, DomainParticipant, Keyed, Publisher, QosPolicies, QosPolicyBuilder,
  RTPSEntity, ReadCondition, StatusEvented, Subscriber, Topic, TopicKind,
};
use serde::{Deserialize, Serialize};
use serde_json::{json, Value};

use crate::{
  ctx::Acc,
  prng::{fnv64, Rng},
};

#[derive(Serialize, Deserialize, Clone, Debug, PartialEq)]
pub struct BMsg {
  pub key: u32,
  pub w: u32,
  pub n: u32,
  pub blob: Vec<u8>,
}
impl Keyed for BMsg {
  type K = u32;
  fn key(&self) -> u32 {
    self.key
  }
}

fn blob(w: u32, n: u32, len: u32) -> Vec<u8> {
  let mut x = (w as u64) << 40 | (n as u64) << 8 | 0x5b;
  (0..len)
    .map(|_| {
      x = x.wrapping_mul(6364136223846793005).wrapping_add(1442695040888963407);
      (x >> 33) as u8
    })
    .collect()
}

#[derive(Clone, Debug, Serialize, Deserialize, PartialEq)]
pub enum Item {
  Val { key: u32, n: u32, len: u32 },
  Disp { key: u32 },
}

#[derive(Clone, Debug, Serialize, Deserialize)]
pub struct EpSpec {
  pub part: usize,
  pub is_writer: bool,
  pub reliable: bool,
  pub tl: bool,
  /// explicit Durability policy (false = leave the QoS field unset; only for non-tl)
  pub explicit_durability: bool,
  /// writer history: None = KeepAll
  pub depth: Option<i32>,
}

#[derive(Clone, Debug, Serialize, Deserialize)]
pub enum Act {
  Part(usize),
  Topic(usize),
  PubSub(usize),
  Ep(usize),
  Early(usize, Vec<Item>),
  Sleep(u64),
  /// Somebody else on the host already uses the well-known user-traffic unicast port of participant id `id` in this
  /// domain (RTPS 9.6.2.3: PB + DG * domain + d3 + PG * id) when the next participant is created: that participant
  /// then listens for user traffic at some other port. The socket is held until the scenario ends.
  OccupyUserPort(u16),
}

#[derive(Clone, Debug, Serialize, Deserialize)]
pub enum Del {
  Endpoint(usize),
  /// participant; true = drop the participant handle before its endpoints
  Part(usize, bool),
}

#[derive(Clone, Debug, Serialize, Deserialize)]
pub struct Sc7 {
  pub with_key: bool,
  pub nparts: usize,
  pub eps: Vec<EpSpec>,
  pub acts: Vec<Act>,
  pub loss_disc_ppm: u32,
  pub loss_ppm: u32,
  pub main: Vec<(usize, Item)>,
  /// the late joiner is eps[late]; it is not part of `acts`
  pub late: usize,
  pub late_new_part: bool,
  pub post: Vec<(usize, Item)>,
  pub del: Del,
  pub after: Vec<(usize, Item)>,
  /// an endpoint (index into eps, not part of `acts`) created on a surviving participant after the deletion
  #[serde(default)]
  pub newcomer: Option<usize>,
  #[serde(default)]
  pub newcomer_items: Vec<(usize, Item)>,
  /// seconds of total silence between all participants (longer than the 10 s participant lease), after the main
  /// traffic; afterwards everybody must find everybody again and traffic must flow; 0 = no partition
  #[serde(default)]
  pub partition_s: u64,
  /// None = everybody is cut off from everybody; Some(p) = only participant p stops hearing the others
  #[serde(default)]
  pub partition_only: Option<usize>,
  #[serde(default)]
  pub healed_items: Vec<(usize, Item)>,
}

pub fn compatible(w: &EpSpec, r: &EpSpec) -> bool {
  w.is_writer && !r.is_writer && (w.reliable || !r.reliable) && (w.tl || !r.tl)
}

const LENS: [u32; 30] =
  [0, 1, 2, 3, 4, 5, 6, 7, 100, 501, 986, 987, 988, 989, 990, 1003, 1004, 1005, 1006, 1007, 1008, 1009, 1010, 1011, 1012, 2047, 2048, 2049, 3075, 5002];

struct ItemGen {
  next_n: Vec<u32>,
  live_keys: Vec<Vec<u32>>,
  next_key: Vec<u32>,
}
impl ItemGen {
  fn item(&mut self, rng: &mut Rng, ep: usize, with_key: bool, big_ok: bool) -> Item {
    // keys are writer-specific: ep*1000 + k ; every key is disposed at most once
    if with_key && !self.live_keys[ep].is_empty() && rng.chance(1, 7) {
      let i = rng.below(self.live_keys[ep].len() as u64) as usize;
      let key = self.live_keys[ep].remove(i);
      return Item::Disp { key };
    }
    let key = if self.live_keys[ep].is_empty() || rng.chance(1, 3) {
      let k = ep as u32 * 1000 + self.next_key[ep];
      self.next_key[ep] += 1;
      self.live_keys[ep].push(k);
      k
    } else {
      *rng.pick(&self.live_keys[ep])
    };
    let n = self.next_n[ep];
    self.next_n[ep] += 1;
    let len = if big_ok { *rng.pick(&LENS) } else { *rng.pick(&LENS[0..12]) };
    Item::Val { key, n, len }
  }
}

pub fn gen_scenario(rng: &mut Rng) -> Sc7 {
  let with_key = rng.chance(2, 3);
  let nparts = if rng.chance(1, 3) { 3 } else { 2 };
  // writers are Reliable; one scenario-level choice makes most pairs compatible
  let writers_tl = rng.chance(1, 2);
  let mut eps: Vec<EpSpec> = vec![];
  let mk_writer = |rng: &mut Rng, part: usize| EpSpec {
    part,
    is_writer: true,
    reliable: true,
    tl: if rng.chance(1, 6) { !writers_tl } else { writers_tl },
    explicit_durability: rng.chance(3, 4),
    depth: if rng.chance(2, 3) { None } else { Some(*rng.pick(&[1, 2, 5])) },
  };
  let mk_reader = |rng: &mut Rng, part: usize| EpSpec {
    part,
    is_writer: false,
    reliable: !rng.chance(1, 5),
    tl: writers_tl && rng.chance(1, 2),
    explicit_durability: rng.chance(3, 4),
    depth: None,
  };
  // at least one writer on participant 0 and one reader on participant 1, then extras anywhere
  eps.push(mk_writer(rng, 0));
  eps.push(mk_reader(rng, 1));
  let extra = rng.below(4);
  for _ in 0..extra {
    let part = rng.below(nparts as u64) as usize;
    if rng.chance(1, 2) && eps.iter().filter(|e| e.is_writer).count() < 3 {
      eps.push(mk_writer(rng, part));
    } else if eps.iter().filter(|e| !e.is_writer).count() < 3 {
      eps.push(mk_reader(rng, part));
    }
  }
  for e in eps.iter_mut() {
    if e.tl {
      e.explicit_durability = true;
      if !e.is_writer {
        e.reliable = true;
      }
    }
  }
  let n_initial = eps.len();
  // late joiner
  let late_new_part = rng.chance(1, 3);
  let late_part = if late_new_part { nparts } else { rng.below(nparts as u64) as usize };
  eps.push(EpSpec { part: late_part, is_writer: false, reliable: true, tl: writers_tl && rng.chance(2, 3), explicit_durability: rng.chance(3, 4) || writers_tl, depth: None });
  let late = eps.len() - 1;
  if eps[late].tl {
    eps[late].explicit_durability = true;
  }

  let mut ig = ItemGen { next_n: vec![0; eps.len()], live_keys: vec![vec![]; eps.len()], next_key: vec![0; eps.len()] };

  // creation order: random topological order
  let mut pending: Vec<Act> = vec![];
  for p in 0..nparts {
    pending.push(Act::Part(p));
    pending.push(Act::Topic(p));
    pending.push(Act::PubSub(p));
  }
  for i in 0..n_initial {
    pending.push(Act::Ep(i));
    if eps[i].is_writer && rng.chance(1, 2) {
      let k = 1 + rng.below(6);
      let items = (0..k).map(|_| ig.item(rng, i, with_key, false)).collect();
      pending.push(Act::Early(i, items));
    }
  }
  let mut done_part = vec![false; nparts];
  let mut done_topic = vec![false; nparts];
  let mut done_ps = vec![false; nparts];
  let mut done_ep = vec![false; n_initial];
  let mut acts = vec![];
  while !pending.is_empty() {
    let ready: Vec<usize> = (0..pending.len())
      .filter(|i| match &pending[*i] {
        Act::Part(_) => true,
        Act::Topic(p) | Act::PubSub(p) => done_part[*p],
        Act::Ep(e) => done_topic[eps[*e].part] && done_ps[eps[*e].part],
        Act::Early(e, _) => done_ep[*e],
        Act::Sleep(_) | Act::OccupyUserPort(_) => true,
      })
      .collect();
    let pick = ready[rng.below(ready.len() as u64) as usize];
    let a = pending.remove(pick);
    match &a {
      Act::Part(p) => done_part[*p] = true,
      Act::Topic(p) => done_topic[*p] = true,
      Act::PubSub(p) => done_ps[*p] = true,
      Act::Ep(e) => done_ep[*e] = true,
      _ => {}
    }
    acts.push(a);
    if rng.chance(1, 3) {
      acts.push(Act::Sleep(*rng.pick(&[1u64, 5, 30, 120, 400, 1500, 3500])));
    }
  }

  let writers: Vec<usize> = (0..n_initial).filter(|i| eps[*i].is_writer).collect();
  let mut stream = |rng: &mut Rng, ig: &mut ItemGen, n: u64, big: bool| -> Vec<(usize, Item)> {
    (0..n)
      .map(|_| {
        let w = *rng.pick(&writers);
        (w, ig.item(rng, w, with_key, big))
      })
      .collect()
  };
  let nmain = 8 + rng.below(30);
  let main = stream(rng, &mut ig, nmain, true);
  let npost = 3 + rng.below(6);
  let post = stream(rng, &mut ig, npost, true);
  let nafter = 3 + rng.below(5);
  let after = stream(rng, &mut ig, nafter, true);
  let del = match rng.below(3) {
    0 => Del::Part(rng.below(nparts as u64) as usize, rng.chance(1, 2)),
    _ => Del::Endpoint(rng.below(n_initial as u64) as usize),
  };
  // newcomer after the deletion: of the kind that would match what was deleted, on a participant that survives
  let deleted_part = match &del {
    Del::Part(p, _) => Some(*p),
    _ => None,
  };
  let survivors: Vec<usize> = (0..nparts).filter(|p| Some(*p) != deleted_part).collect();
  let mut newcomer = None;
  let mut newcomer_items = vec![];
  if !survivors.is_empty() && rng.chance(3, 4) {
    let part = *rng.pick(&survivors);
    let want_writer = match &del {
      Del::Endpoint(i) => !eps[*i].is_writer,
      Del::Part(..) => rng.chance(1, 2),
    };
    let spec = if want_writer {
      EpSpec { part, is_writer: true, reliable: true, tl: writers_tl, explicit_durability: true, depth: None }
    } else {
      EpSpec { part, is_writer: false, reliable: true, tl: false, explicit_durability: true, depth: None }
    };
    eps.push(spec);
    let idx = eps.len() - 1;
    ig.next_n.push(0);
    ig.live_keys.push(vec![]);
    ig.next_key.push(0);
    newcomer = Some(idx);
    let k = 2 + rng.below(4);
    for _ in 0..k {
      let wi = if want_writer { idx } else { *rng.pick(&writers) };
      newcomer_items.push((wi, ig.item(rng, wi, with_key, true)));
    }
  }
  // one scenario in six: an outage longer than the 10 s lease (+2 s cleanup period), total or one-sided
  let (partition_s, partition_only, healed_items) = if rng.chance(1, 6) {
    let only = if rng.chance(1, 2) { Some(rng.below(nparts as u64) as usize) } else { None };
    let k = 2 + rng.below(4);
    let items = (0..k).map(|_| { let wi = *rng.pick(&writers); (wi, ig.item(rng, wi, with_key, true)) }).collect();
    (*rng.pick(&[13u64, 16]), only, items)
  } else {
    (0, None, vec![])
  };
  let loss_disc_ppm = if rng.chance(1, 4) { *rng.pick(&[20_000u32, 50_000, 100_000]) } else { 0 };
  let loss_ppm = *rng.pick(&[0u32, 10_000, 50_000, 100_000, 200_000]);
  // one scenario in six (drawn last: everything else is what the same seed always gave): the well-known
  // user-traffic port of one participant id is already in use when the participants are created
  let mut acts = acts;
  if rng.chance(1, 6) {
    acts.insert(0, Act::OccupyUserPort(rng.below(nparts as u64 + 1) as u16));
  }
  Sc7 {
    with_key,
    nparts,
    eps,
    acts,
    loss_disc_ppm,
    loss_ppm,
    main,
    late,
    late_new_part,
    post,
    del,
    after,
    newcomer,
    newcomer_items,
    partition_s,
    partition_only,
    healed_items,
  }
}

// ----------------------------------------------------------------------------
// runtime
// ----------------------------------------------------------------------------

enum Wr {
  K(with_key::DataWriter<BMsg>),
  N(no_key::DataWriter<BMsg>),
}
enum Rd {
  K(with_key::DataReader<BMsg>),
  N(no_key::DataReader<BMsg>),
}

#[derive(Clone, Debug, PartialEq)]
enum Got {
  Val(BMsg),
  Disp(u32),
}

struct PartRt {
  dp: Option<DomainParticipant>,
  pending: Option<std::thread::JoinHandle<Result<DomainParticipant, String>>>,
  topic: Option<Topic>,
  publ: Option<Publisher>,
  sub: Option<Subscriber>,
}

struct EpRt {
  guid: [u8; 16],
  w: Option<Wr>,
  r: Option<Rd>,
  create_started: Option<Instant>,
  deleted_at: Option<Instant>,
  /// remote guid -> time the +1 event was taken from the status channel
  matched: BTreeMap<[u8; 16], Instant>,
  unmatched: BTreeMap<[u8; 16], Instant>,
  /// writer guid -> what arrived from it, in arrival order
  recv: BTreeMap<[u8; 16], Vec<(Got, Instant)>>,
  status_events: u64,
}

struct Sent {
  item: Item,
  t_start: Instant,
  t_end: Instant,
}

pub struct Out7 {
  pub completed: bool,
  pub sig: u64,
  pub pairs_expected: u64,
  pub match_events: u64,
  pub unmatch_events: u64,
  pub items_written: u64,
  pub items_received: u64,
  pub disposes_received: u64,
  pub frag_items: u64,
  pub late_history_items: u64,
  pub volatile_withheld: u64,
  pub max_match_s: f64,
  pub max_deliver_s: f64,
  pub dropped: u64,
  pub best_effort_order_anomalies: u64,
  pub newcomers: u64,
  pub ghost_matches: u64,
  pub partitions: u64,
  pub pairs_lost_in_partition: u64,
}

fn gb(g: rustdds::GUID) -> [u8; 16] {
  rustdds::verif::disc::guid_bytes(g)
}

struct World<'a> {
  sc: &'a Sc7,
  topic_name: String,
  parts: Vec<PartRt>,
  eps: Vec<EpRt>,
  sent: Vec<Vec<Sent>>, // per endpoint index (writers)
  domain: u16,
  /// secure leg: (governance fixture name, /verif/fixtures/c07sec); every participant gets the builtin plugins
  sec: Option<(String, std::path::PathBuf)>,
  /// set by the last `wait_until` that ran out of time: fraction of the whole machine's CPU time that was idle
  /// during that wait (from /proc/stat), if it could be measured. A bound that expires on a saturated machine is
  /// no verdict: the library's threads may simply not have been run.
  timed_out_with_idle: Option<f64>,
}

use crate::ctx::{proc_stat, SATURATED_IDLE};

/// The library's public security configuration takes a directory with fixed file names: make one per participant.
#[cfg(feature = "security")]
fn security_dir(gov: &str, fixtures: &std::path::Path, p: usize) -> Result<std::path::PathBuf, String> {
  static N: std::sync::atomic::AtomicU64 = std::sync::atomic::AtomicU64::new(0);
  let d = std::env::temp_dir().join(format!("vcheck-c07sec-{}-{}", std::process::id(), N.fetch_add(1, std::sync::atomic::Ordering::SeqCst)));
  std::fs::create_dir_all(&d).map_err(|e| format!("{e}"))?;
  let id = p % 4 + 1;
  for (from, to) in [
    ("identity_ca.cert.pem".to_string(), "identity_ca.cert.pem"),
    (format!("p{id}_cert.pem"), "cert.pem"),
    (format!("p{id}_key.pem"), "key.pem"),
    ("permissions_ca.cert.pem".to_string(), "permissions_ca.cert.pem"),
    (format!("gov_{gov}.p7s"), "governance.p7s"),
    ("permissions.p7s".to_string(), "permissions.p7s"),
  ] {
    std::fs::copy(fixtures.join(&from), d.join(to)).map_err(|e| format!("fixture {from}: {e}"))?;
  }
  Ok(d)
}

fn qos_of(e: &EpSpec) -> QosPolicies {
  let mut b = QosPolicyBuilder::new();
  b = b.reliability(if e.reliable { Reliability::Reliable { max_blocking_time: rustdds::Duration::from_millis(2000) } } else { Reliability::BestEffort });
  if e.tl {
    b = b.durability(Durability::TransientLocal);
  } else if e.explicit_durability {
    b = b.durability(Durability::Volatile);
  }
  b = b.history(match e.depth {
    None => History::KeepAll,
    Some(d) => History::KeepLast { depth: d },
  });
  b.build()
}

/// elapsed time that does not count periods in which this thread itself was not scheduled
/// (a stalled machine must not turn into a verdict)
struct Unstalled {
  last: Instant,
  acc: f64,
}
impl Unstalled {
  fn new() -> Self {
    Unstalled { last: Instant::now(), acc: 0.0 }
  }
  fn tick(&mut self) -> f64 {
    let now = Instant::now();
    let d = now.duration_since(self.last).as_secs_f64();
    self.last = now;
    self.acc += d.min(0.1);
    self.acc
  }
}

impl<'a> World<'a> {
  fn ensure_part(&mut self, p: usize) -> Result<(), String> {
    if let Some(h) = self.parts[p].pending.take() {
      let dp = h.join().map_err(|_| "participant thread panicked".to_string())??;
      self.parts[p].dp = Some(dp);
    }
    if self.parts[p].dp.is_none() {
      return Err(format!("participant {p} not created"));
    }
    Ok(())
  }

  fn start_part(&mut self, p: usize) {
    let domain = self.domain;
    #[cfg(feature = "security")]
    if let Some((gov, fixtures)) = self.sec.clone() {
      self.parts[p].pending = Some(std::thread::spawn(move || {
        let d = security_dir(&gov, &fixtures, p)?;
        let r = rustdds::DomainParticipantBuilder::new(domain)
          .builtin_security(rustdds::DomainParticipantSecurityConfigFiles::with_ros_default_names(&d, String::new()))
          .build()
          .map_err(|e| format!("{e:?}"));
        let _ = std::fs::remove_dir_all(&d);
        r
      }));
      return;
    }
    self.parts[p].pending = Some(std::thread::spawn(move || DomainParticipant::new(domain).map_err(|e| format!("{e:?}"))));
  }

  fn create_topic(&mut self, p: usize) -> Result<(), String> {
    self.ensure_part(p)?;
    let kind = if self.sc.with_key { TopicKind::WithKey } else { TopicKind::NoKey };
    let t = self.parts[p]
      .dp
      .as_ref()
      .unwrap()
      .create_topic(self.topic_name.clone(), "BMsg".to_string(), &QosPolicyBuilder::new().build(), kind)
      .map_err(|e| format!("{e:?}"))?;
    self.parts[p].topic = Some(t);
    Ok(())
  }

  fn create_pubsub(&mut self, p: usize) -> Result<(), String> {
    self.ensure_part(p)?;
    let q0 = QosPolicyBuilder::new().build();
    let dp = self.parts[p].dp.clone().unwrap();
    self.parts[p].publ = Some(dp.create_publisher(&q0).map_err(|e| format!("{e:?}"))?);
    self.parts[p].sub = Some(dp.create_subscriber(&q0).map_err(|e| format!("{e:?}"))?);
    drop(dp);
    Ok(())
  }

  fn create_ep(&mut self, i: usize) -> Result<(), String> {
    let spec = &self.sc.eps[i];
    let p = spec.part;
    let q = qos_of(spec);
    let topic = self.parts[p].topic.as_ref().ok_or("no topic")?;
    self.eps[i].create_started = Some(Instant::now());
    if spec.is_writer {
      let publ = self.parts[p].publ.as_ref().ok_or("no publisher")?;
      if self.sc.with_key {
        let w = publ.create_datawriter_cdr::<BMsg>(topic, Some(q)).map_err(|e| format!("{e:?}"))?;
        self.eps[i].guid = gb(w.guid());
        self.eps[i].w = Some(Wr::K(w));
      } else {
        let w = publ.create_datawriter_no_key_cdr::<BMsg>(topic, Some(q)).map_err(|e| format!("{e:?}"))?;
        self.eps[i].guid = gb(w.guid());
        self.eps[i].w = Some(Wr::N(w));
      }
    } else {
      let sub = self.parts[p].sub.as_ref().ok_or("no subscriber")?;
      if self.sc.with_key {
        let r = sub.create_datareader_cdr::<BMsg>(topic, Some(q)).map_err(|e| format!("{e:?}"))?;
        self.eps[i].guid = gb(r.guid());
        self.eps[i].r = Some(Rd::K(r));
      } else {
        let r = sub.create_datareader_no_key_cdr::<BMsg>(topic, Some(q)).map_err(|e| format!("{e:?}"))?;
        self.eps[i].guid = gb(r.guid());
        self.eps[i].r = Some(Rd::N(r));
      }
    }
    Ok(())
  }

  /// drains status channels and takes whatever the readers have
  fn pump(&mut self) {
    let now = Instant::now();
    for e in self.eps.iter_mut() {
      if let Some(w) = &e.w {
        loop {
          let s = match w {
            Wr::K(w) => w.try_recv_status(),
            Wr::N(w) => w.try_recv_status(),
          };
          match s {
            Some(DataWriterStatus::PublicationMatched { current, reader, .. }) => {
              e.status_events += 1;
              if current.count_change() > 0 {
                e.matched.insert(gb(reader), now);
                e.unmatched.remove(&gb(reader));
              } else if current.count_change() < 0 {
                e.unmatched.insert(gb(reader), now);
                e.matched.remove(&gb(reader));
              }
            }
            Some(_) => {}
            None => break,
          }
        }
      }
      if let Some(r) = e.r.as_mut() {
        loop {
          let s = match r {
            Rd::K(r) => r.try_recv_status(),
            Rd::N(r) => rustdds::verif::types::nokey_reader_try_recv_status(r),
          };
          match s {
            Some(DataReaderStatus::SubscriptionMatched { current, writer, .. }) => {
              e.status_events += 1;
              if current.count_change() > 0 {
                e.matched.insert(gb(writer), now);
                e.unmatched.remove(&gb(writer));
              } else if current.count_change() < 0 {
                e.unmatched.insert(gb(writer), now);
                e.matched.remove(&gb(writer));
              }
            }
            Some(_) => {}
            None => break,
          }
        }
        match r {
          Rd::K(r) => {
            if let Ok(v) = r.take(usize::MAX, ReadCondition::any()) {
              for s in v {
                let wg = gb(s.sample_info().writer_guid());
                let got = match s.into_value() {
                  with_key::Sample::Value(m) => Got::Val(m),
                  with_key::Sample::Dispose(k) => Got::Disp(k),
                };
                e.recv.entry(wg).or_default().push((got, now));
              }
            }
          }
          Rd::N(r) => {
            if let Ok(v) = r.take(usize::MAX, ReadCondition::any()) {
              for s in v {
                let wg = gb(s.sample_info().writer_guid());
                e.recv.entry(wg).or_default().push((Got::Val(s.into_value()), now));
              }
            }
          }
        }
      }
    }
  }

  fn pump_for(&mut self, ms: u64) {
    let t0 = Instant::now();
    loop {
      self.pump();
      if t0.elapsed() >= StdDuration::from_millis(ms) {
        break;
      }
      std::thread::sleep(StdDuration::from_millis(ms.min(5)));
    }
  }

  /// waits (in unstalled time) until pred holds; returns seconds waited or None on timeout
  fn wait_until(&mut self, limit_s: f64, pred: &dyn Fn(&World) -> bool) -> Option<f64> {
    let mut u = Unstalled::new();
    let t0 = Instant::now();
    let stat0 = proc_stat();
    self.timed_out_with_idle = None;
    let mut iters = 0u64;
    let mut pump_s = 0.0f64;
    loop {
      let tp = Instant::now();
      self.pump();
      pump_s += tp.elapsed().as_secs_f64();
      iters += 1;
      if pred(self) {
        let el = t0.elapsed().as_secs_f64();
        if el > 30.0 && std::env::var("VERIF_DEBUG").is_ok() {
          eprintln!("C07 debug: slow wait {el:.1}s wall, {iters} iterations, {pump_s:.1}s in pump, unstalled {:.1}s, topic {}", u.acc, self.topic_name);
        }
        return Some(el);
      }
      if u.tick() > limit_s {
        self.timed_out_with_idle = crate::ctx::idle_share_since(stat0);
        return None;
      }
      std::thread::sleep(StdDuration::from_millis(10));
    }
  }

  fn write_item(&mut self, ep: usize, item: &Item) -> Result<(), String> {
    let t_start = Instant::now();
    let mut attempts = 0;
    loop {
      let res: Result<(), String> = match (self.eps[ep].w.as_ref().ok_or("writer gone")?, item) {
        (Wr::K(w), Item::Val { key, n, len }) => w.write(BMsg { key: *key, w: ep as u32, n: *n, blob: blob(ep as u32, *n, *len) }, None).map_err(|e| format!("{e:?}").chars().take(80).collect()),
        (Wr::N(w), Item::Val { key, n, len }) => w.write(BMsg { key: *key, w: ep as u32, n: *n, blob: blob(ep as u32, *n, *len) }, None).map_err(|e| format!("{e:?}").chars().take(80).collect()),
        (Wr::K(w), Item::Disp { key }) => w.dispose(key, None).map_err(|e| format!("{e:?}")),
        (Wr::N(_), Item::Disp { .. }) => Ok(()),
      };
      match res {
        Ok(()) => break,
        Err(e) => {
          attempts += 1;
          if attempts > 20 {
            return Err(format!("write failed 20 times: {e}"));
          }
          self.pump_for(50);
        }
      }
    }
    self.sent[ep].push(Sent { item: item.clone(), t_start, t_end: Instant::now() });
    Ok(())
  }

  fn alive(&self, i: usize) -> bool {
    (self.eps[i].w.is_some() || self.eps[i].r.is_some()) && self.eps[i].deleted_at.is_none()
  }

  /// every compatible pair of live endpoints has reported the match on both sides
  fn all_matched(&self, among: &[usize]) -> bool {
    for &a in among {
      for &b in among {
        if compatible(&self.sc.eps[a], &self.sc.eps[b]) && self.alive(a) && self.alive(b) {
          if !self.eps[a].matched.contains_key(&self.eps[b].guid) || !self.eps[b].matched.contains_key(&self.eps[a].guid) {
            return false;
          }
        }
      }
    }
    true
  }

  fn missing_matches(&self, among: &[usize]) -> Vec<Value> {
    let mut v = vec![];
    for &a in among {
      for &b in among {
        if compatible(&self.sc.eps[a], &self.sc.eps[b]) && self.alive(a) && self.alive(b) {
          let w_sees = self.eps[a].matched.contains_key(&self.eps[b].guid);
          let r_sees = self.eps[b].matched.contains_key(&self.eps[a].guid);
          if !w_sees || !r_sees {
            v.push(json!({"writer_ep": a, "reader_ep": b, "writer_part": self.sc.eps[a].part, "reader_part": self.sc.eps[b].part, "writer_reported": w_sees, "reader_reported": r_sees}));
          }
        }
      }
    }
    v
  }
}

fn item_index(sent: &[Sent], g: &Got) -> Option<usize> {
  match g {
    Got::Val(m) => sent.iter().position(|s| matches!(&s.item, Item::Val { n, .. } if *n == m.n)),
    Got::Disp(k) => sent.iter().position(|s| matches!(&s.item, Item::Disp { key } if key == k)),
  }
}

pub const T_MATCH_S: f64 = 40.0;
pub const T_DELIVER_S: f64 = 40.0;
pub const T_UNMATCH_S: f64 = 40.0;

pub fn scenario_json(sc: &Sc7) -> Value {
  serde_json::to_value(sc).unwrap_or(Value::Null)
}

/// Runs one scenario. Violations go to `acc`; the scenario stops at the first one.
pub fn run_scenario(sc: &Sc7, domain: u16, acc: &mut Acc, tag: &Value, uniq: u64) -> Out7 {
  run_scenario_sec(sc, None, domain, acc, tag, uniq)
}

pub fn run_scenario_sec(sc: &Sc7, sec: Option<(String, std::path::PathBuf)>, domain: u16, acc: &mut Acc, tag: &Value, uniq: u64) -> Out7 {
  let mut out = Out7 {
    completed: false,
    sig: fnv64(format!("{sc:?}").as_bytes()),
    pairs_expected: 0,
    match_events: 0,
    unmatch_events: 0,
    items_written: 0,
    items_received: 0,
    disposes_received: 0,
    frag_items: 0,
    late_history_items: 0,
    volatile_withheld: 0,
    max_match_s: 0.0,
    max_deliver_s: 0.0,
    dropped: 0,
    best_effort_order_anomalies: 0,
    newcomers: 0,
    ghost_matches: 0,
    partitions: 0,
    pairs_lost_in_partition: 0,
  };
  let replay = json!({"case": tag, "scenario": scenario_json(sc)});
  let nparts_total = sc.eps.iter().map(|e| e.part + 1).max().unwrap_or(0).max(sc.nparts + usize::from(sc.late_new_part));
  let mut w = World {
    sc,
    topic_name: format!("vt_c07_{}_{}", std::process::id(), uniq),
    parts: (0..nparts_total).map(|_| PartRt { dp: None, pending: None, topic: None, publ: None, sub: None }).collect(),
    eps: (0..sc.eps.len())
      .map(|_| EpRt { guid: [0; 16], w: None, r: None, create_started: None, deleted_at: None, matched: BTreeMap::new(), unmatched: BTreeMap::new(), recv: BTreeMap::new(), status_events: 0 })
      .collect(),
    sent: (0..sc.eps.len()).map(|_| vec![]).collect(),
    domain,
    sec,
    timed_out_with_idle: None,
  };
  let (_, dropped0) = net::counters();
  macro_rules! abort {
    ($why:expr) => {{
      acc.inconclusive.push(format!("C07 scenario {}: {}", tag["index"], $why));
      net::set_policy_pass();
      net::set_rx_isolation(false);
      return out;
    }};
  }
  macro_rules! violate {
    ($sig:expr, $detail:expr) => {{
      #[allow(unused_mut)]
      let mut sig: String = $sig;
      #[allow(unused_mut)]
      let mut detail: Value = $detail;
      // a bound that ran out while the machine had (almost) no idle CPU is no verdict
      if let Some(idle) = w.timed_out_with_idle {
        if idle < SATURATED_IDLE && (sig.contains("within-bound") || sig.contains("not-delivered") || sig.contains("after-partition-healed") || sig.contains("not-observed")) {
          acc.count("e2e_waits_timed_out_on_a_saturated_machine_not_judged", 1);
          acc.inconclusive.push(format!("C07 scenario {}: {} while only {:.0} % of the machine's CPU time was idle during the wait (saturated machine, not judged)", tag["index"], sig, idle * 100.0));
          net::set_policy_pass();
          net::set_rx_isolation(false);
          return out;
        }
      }
      // With security, a participant that was cut off one-sidedly for longer than the lease cannot authenticate its
      // peers again (open finding, known_findings.json). Whatever pair with one of its endpoints fails to match
      // LATER in the same scenario (a late joiner on it, a newcomer after a deletion) is the same history and the
      // same failure, so it is reported under the finding's signature, with what it looked like in the detail.
      if let (true, Some(p), true) = (w.sec.is_some(), sc.partition_only, out.partitions > 0) {
        let involves = detail["missing"].as_array().map_or(false, |m| m.iter().any(|x| x["reader_part"].as_u64() == Some(p as u64) || x["writer_part"].as_u64() == Some(p as u64)));
        if sig.starts_with("C07/match:") && involves {
          detail["manifested_as"] = json!(sig);
          detail["one_sided"] = json!(p);
          sig = "C07/match:pair-not-matched-again-after-partition-healed:one-sided-outage".to_string();
        }
      }
      acc.violate(sig, detail, replay.clone());
      net::set_policy_pass();
      net::set_rx_isolation(false);
      return out;
    }};
  }

  // sockets held for Act::OccupyUserPort
  let mut occupied: Vec<std::net::UdpSocket> = vec![];
  // ---- A: creation
  if sc.loss_disc_ppm > 0 {
    net::set_policy_lossy(fnv64(format!("{tag}").as_bytes()), sc.loss_disc_ppm);
  } else {
    net::set_policy_pass();
  }
  for a in &sc.acts {
    let r = match a {
      Act::Part(p) => {
        w.start_part(*p);
        Ok(())
      }
      Act::Topic(p) => w.create_topic(*p),
      Act::PubSub(p) => w.create_pubsub(*p),
      Act::Ep(i) => w.create_ep(*i),
      Act::Early(i, items) => {
        let mut r = Ok(());
        for it in items {
          r = w.write_item(*i, it);
          if r.is_err() {
            break;
          }
        }
        r
      }
      Act::Sleep(ms) => {
        w.pump_for(*ms);
        Ok(())
      }
      Act::OccupyUserPort(id) => {
        let port = 7400u32 + 250 * domain as u32 + 11 + 2 * *id as u32;
        match std::net::UdpSocket::bind(("0.0.0.0", port as u16)) {
          Ok(s) => {
            occupied.push(s);
            Ok(())
          }
          // already taken by somebody: that is the situation asked for
          Err(_) => Ok(()),
        }
      }
    };
    if let Err(e) = r {
      abort!(format!("creation step {a:?} failed: {e}"));
    }
    w.pump();
  }
  let initial: Vec<usize> = (0..sc.eps.len()).filter(|i| *i != sc.late && Some(*i) != sc.newcomer).collect();
  for &a in &initial {
    for &b in &initial {
      if compatible(&sc.eps[a], &sc.eps[b]) {
        out.pairs_expected += 1;
      }
    }
  }

  // ---- B: everybody matched
  let ini = initial.clone();
  // Between secured participants the way to a match is long (SPDP, three best-effort handshake messages re-sent once
  // a second, participant keys, protected SEDP, endpoint keys, each step repaired by its own timer): with datagram
  // loss injected during discovery the thorough tier has about one scenario in eight between 10 and 40 s, and a few
  // in a thousand beyond. "Bounded" is 120 s there.
  let t_match_first = if w.sec.is_some() && sc.loss_disc_ppm > 0 { 3.0 * T_MATCH_S } else { T_MATCH_S };
  match w.wait_until(t_match_first, &move |w| w.all_matched(&ini)) {
    Some(s) => out.max_match_s = out.max_match_s.max(s),
    None => {
      let missing = w.missing_matches(&initial);
      let cross = missing.iter().any(|m| m["writer_part"] != m["reader_part"]);
      // the pattern of the second open finding (known_findings.json): secured participants, loss injected during
      // discovery, and of the missing pairs across participants NEITHER side has reported anything after 120 s: the
      // participants have not authenticated each other (the stored handshake message is dropped after ten re-sends)
      let never_met = w.sec.is_some() && sc.loss_disc_ppm > 0 && cross && missing.iter().filter(|m| m["writer_part"] != m["reader_part"]).all(|m| m["reader_reported"] == json!(false) && m["writer_reported"] == json!(false));
      violate!(
        format!("C07/match:compatible-pair-not-matched-within-bound:{}{}", if cross { "across-participants" } else { "same-participant" }, if never_met { ":neither-side-reports-anything:secured-participants-under-injected-discovery-loss" } else { "" }),
        json!({"bound_s": t_match_first, "missing": missing, "loss_during_discovery_ppm": sc.loss_disc_ppm})
      );
    }
  }
  let t_all_matched = Instant::now();

  // expectation bookkeeping: for pair (writer ep, reader ep) the number of items of the writer's
  // stream that were written before the pair was matched on both sides
  let mut pre_match: BTreeMap<(usize, usize), usize> = BTreeMap::new();
  for &a in &initial {
    for &b in &initial {
      if compatible(&sc.eps[a], &sc.eps[b]) {
        let tm = w.eps[a].matched[&w.eps[b].guid].max(w.eps[b].matched[&w.eps[a].guid]);
        // items whose write started before both sides had reported the match
        let n = w.sent[a].iter().filter(|s| s.t_start < tm).count();
        pre_match.insert((a, b), n);
      }
    }
  }
  let _ = t_all_matched;

  // ---- C: traffic under loss
  if sc.loss_ppm > 0 {
    net::set_policy_lossy(fnv64(format!("{tag}C").as_bytes()), sc.loss_ppm);
  } else {
    net::set_policy_pass();
  }
  for (i, it) in &sc.main {
    if let Err(e) = w.write_item(*i, it) {
      abort!(format!("main write failed: {e}"));
    }
    w.pump();
  }
  if let Err(v) = sync_point(&mut w, sc, &initial, &pre_match, "main", &mut out) {
    violate!(v.0, v.1);
  }
  net::set_policy_pass();

  // ---- P: partition longer than the lease, then heal
  if sc.partition_s > 0 {
    match sc.partition_only {
      None => net::set_rx_isolation(true),
      Some(p) => match w.parts[p].dp.as_ref() {
        Some(dp) => net::set_rx_isolation_of(&[rustdds::verif::disc::participant_prefix(dp)]),
        None => net::set_rx_isolation(true),
      },
    }
    w.pump_for(sc.partition_s * 1000);
    // every cross-participant pair must have been unmatched by lease expiry (that is C12's business; here it is
    // only recorded), and after the heal everybody must be matched with everybody again
    let lost_pairs = initial.iter().flat_map(|a| initial.iter().map(move |b| (*a, *b))).filter(|(a, b)| compatible(&sc.eps[*a], &sc.eps[*b]) && sc.eps[*a].part != sc.eps[*b].part && !w.eps[*a].matched.contains_key(&w.eps[*b].guid)).count();
    out.pairs_lost_in_partition += lost_pairs as u64;
    net::set_rx_isolation(false);
    let ini = initial.clone();
    match w.wait_until(T_MATCH_S, &move |w| w.all_matched(&ini)) {
      Some(s) => out.max_match_s = out.max_match_s.max(s),
      None => {
        let missing = w.missing_matches(&initial);
        // which kind of outage it was is part of the signature: after a one-sided one only one side has forgotten the other
        violate!(format!("C07/match:pair-not-matched-again-after-partition-healed{}", if sc.partition_only.is_some() { ":one-sided-outage" } else { "" }), json!({"bound_s": T_MATCH_S, "partition_s": sc.partition_s, "one_sided": sc.partition_only, "pairs_unmatched_during_partition": lost_pairs, "missing": missing}));
      }
    }
    // what was written before the re-match is history for the re-matched pairs
    for &a in &initial {
      for &b in &initial {
        if compatible(&sc.eps[a], &sc.eps[b]) && sc.eps[a].part != sc.eps[b].part {
          pre_match.insert((a, b), w.sent[a].len());
        }
      }
    }
    for (i, it) in &sc.healed_items {
      if let Err(e) = w.write_item(*i, it) {
        abort!(format!("write after heal failed: {e}"));
      }
      w.pump();
    }
    if let Err(v) = sync_point(&mut w, sc, &initial, &pre_match, "after-partition-healed", &mut out) {
      violate!(v.0, v.1);
    }
    out.partitions += 1;
  }

  // ---- D: late joiner
  let late = sc.late;
  let lp = sc.eps[late].part;
  let before_late: Vec<usize> = w.sent.iter().map(|s| s.len()).collect();
  if sc.late_new_part {
    w.start_part(lp);
  }
  let r = (|| {
    if w.parts[lp].topic.is_none() {
      w.create_topic(lp)?;
    }
    if w.parts[lp].sub.is_none() {
      w.create_pubsub(lp)?;
    }
    w.create_ep(late)
  })();
  if let Err(e) = r {
    abort!(format!("late joiner creation failed: {e}"));
  }
  let all: Vec<usize> = (0..sc.eps.len()).filter(|i| Some(*i) != sc.newcomer).collect();
  let allc = all.clone();
  match w.wait_until(T_MATCH_S, &move |w| w.all_matched(&allc)) {
    Some(s) => out.max_match_s = out.max_match_s.max(s),
    None => {
      let missing = w.missing_matches(&all);
      violate!("C07/match:late-joiner-not-matched-within-bound".to_string(), json!({"bound_s": T_MATCH_S, "missing": missing, "late_joiner_on_new_participant": sc.late_new_part}));
    }
  }
  for &a in &initial {
    if compatible(&sc.eps[a], &sc.eps[late]) {
      pre_match.insert((a, late), before_late[a]);
    }
  }
  if let Err(v) = sync_point(&mut w, sc, &all, &pre_match, "late-join-history", &mut out) {
    violate!(v.0, v.1);
  }
  for (i, it) in &sc.post {
    if let Err(e) = w.write_item(*i, it) {
      abort!(format!("post write failed: {e}"));
    }
    w.pump();
  }
  if let Err(v) = sync_point(&mut w, sc, &all, &pre_match, "post-join", &mut out) {
    violate!(v.0, v.1);
  }

  // ---- E: deletion
  let t_del = Instant::now();
  let victims: Vec<usize> = match &sc.del {
    Del::Endpoint(i) => vec![*i],
    Del::Part(p, _) => (0..sc.eps.len()).filter(|i| sc.eps[*i].part == *p).collect(),
  };
  match &sc.del {
    Del::Endpoint(i) => {
      w.eps[*i].w = None;
      w.eps[*i].r = None;
      w.eps[*i].deleted_at = Some(t_del);
    }
    Del::Part(p, dp_first) => {
      let drop_eps = |w: &mut World| {
        for &i in &victims {
          w.eps[i].w = None;
          w.eps[i].r = None;
          w.eps[i].deleted_at = Some(t_del);
        }
      };
      if *dp_first {
        w.parts[*p].topic = None;
        w.parts[*p].dp = None;
        drop_eps(&mut w);
      } else {
        drop_eps(&mut w);
        w.parts[*p].topic = None;
        w.parts[*p].dp = None;
      }
      w.parts[*p].publ = None;
      w.parts[*p].sub = None;
    }
  }
  // every peer on ANOTHER participant that was matched with a victim must see the unmatch
  let mut expect_unmatch: Vec<(usize, usize)> = vec![]; // (observer, victim)
  for &v in &victims {
    for o in 0..sc.eps.len() {
      if w.alive(o) && sc.eps[o].part != sc.eps[v].part && (compatible(&sc.eps[v], &sc.eps[o]) || compatible(&sc.eps[o], &sc.eps[v])) {
        expect_unmatch.push((o, v));
      }
    }
  }
  let eu = expect_unmatch.clone();
  match w.wait_until(T_UNMATCH_S, &move |w| eu.iter().all(|(o, v)| w.eps[*o].unmatched.contains_key(&w.eps[*v].guid))) {
    Some(_) => out.unmatch_events += expect_unmatch.len() as u64,
    None => {
      let missing: Vec<Value> = expect_unmatch
        .iter()
        .filter(|(o, v)| !w.eps[*o].unmatched.contains_key(&w.eps[*v].guid))
        .map(|(o, v)| json!({"observer_ep": o, "deleted_ep": v, "deleted_is_writer": sc.eps[*v].is_writer}))
        .collect();
      let kind = match &sc.del {
        Del::Endpoint(i) => {
          if sc.eps[*i].is_writer {
            "writer"
          } else {
            "reader"
          }
        }
        Del::Part(_, true) => "participant(handle-dropped-first)",
        Del::Part(_, false) => "participant(endpoints-dropped-first)",
      };
      violate!(format!("C07/unmatch:deletion-of-{kind}-not-observed-by-peer"), json!({"bound_s": T_UNMATCH_S, "missing": missing}));
    }
  }
  // traffic among the survivors
  for (i, it) in &sc.after {
    if !w.alive(*i) {
      continue;
    }
    if let Err(e) = w.write_item(*i, it) {
      abort!(format!("after-delete write failed: {e}"));
    }
    w.pump();
  }
  if let Err(v) = sync_point(&mut w, sc, &all, &pre_match, "after-delete", &mut out) {
    violate!(v.0, v.1);
  }

  // ---- F: an endpoint created after the deletion matches the living and never the deleted
  if let Some(nc) = sc.newcomer {
    let before_nc: Vec<usize> = w.sent.iter().map(|s| s.len()).collect();
    let ncp = sc.eps[nc].part;
    let r = (|| {
      if w.parts[ncp].dp.is_none() && w.parts[ncp].pending.is_none() {
        w.start_part(ncp);
      }
      if w.parts[ncp].topic.is_none() {
        w.create_topic(ncp)?;
      }
      if w.parts[ncp].sub.is_none() {
        w.create_pubsub(ncp)?;
      }
      w.create_ep(nc)
    })();
    if let Err(e) = r {
      abort!(format!("newcomer creation failed: {e}"));
    }
    let everybody: Vec<usize> = (0..sc.eps.len()).collect();
    let ev = everybody.clone();
    match w.wait_until(T_MATCH_S, &move |w| w.all_matched(&ev)) {
      Some(s) => out.max_match_s = out.max_match_s.max(s),
      None => {
        let missing = w.missing_matches(&everybody);
        violate!("C07/match:endpoint-created-after-a-deletion-not-matched-within-bound".to_string(), json!({"bound_s": T_MATCH_S, "missing": missing}));
      }
    }
    w.pump_for(300);
    // A deleted endpoint whose deletion the newcomer's participant has demonstrably processed (one of its own
    // endpoints reported the unmatch) must not be matched at all. Where nobody on that participant could observe
    // the deletion (the dispose may have been lost; the lease then does the job), a match may still appear, but it
    // has to be taken back within the unmatch bound.
    let mut ghosts = vec![];
    for &v in &victims {
      if w.eps[nc].matched.contains_key(&w.eps[v].guid) {
        let observed_here = (0..sc.eps.len()).any(|o| o != nc && sc.eps[o].part == sc.eps[nc].part && w.eps[o].unmatched.contains_key(&w.eps[v].guid));
        if observed_here {
          violate!(
            format!("C07/unmatch:endpoint-created-after-the-deletion-matched-with-deleted-{}", if sc.eps[v].is_writer { "writer" } else { "reader" }),
            json!({"newcomer_ep": nc, "deleted_ep": v, "deletion": format!("{:?}", sc.del), "seconds_after_deletion": t_del.elapsed().as_secs_f64(), "deletion_had_been_observed_by_another_endpoint_of_that_participant": true})
          );
        }
        ghosts.push(v);
      }
    }
    if !ghosts.is_empty() {
      out.ghost_matches += ghosts.len() as u64;
      let g = ghosts.clone();
      if w.wait_until(T_UNMATCH_S, &move |w| g.iter().all(|v| !w.eps[nc].matched.contains_key(&w.eps[*v].guid))).is_none() {
        let v = *ghosts.iter().find(|v| w.eps[nc].matched.contains_key(&w.eps[**v].guid)).unwrap();
        violate!(
          format!("C07/unmatch:endpoint-created-after-the-deletion-stays-matched-with-deleted-{}", if sc.eps[v].is_writer { "writer" } else { "reader" }),
          json!({"newcomer_ep": nc, "deleted_ep": v, "deletion": format!("{:?}", sc.del), "bound_s": T_UNMATCH_S})
        );
      }
    }
    out.newcomers += 1;
    for a in 0..sc.eps.len() {
      for b in 0..sc.eps.len() {
        if (a == nc || b == nc) && compatible(&sc.eps[a], &sc.eps[b]) && w.alive(a) && w.alive(b) {
          pre_match.insert((a, b), before_nc[a]);
        }
      }
    }
    for (i, it) in &sc.newcomer_items {
      if !w.alive(*i) {
        continue;
      }
      if let Err(e) = w.write_item(*i, it) {
        abort!(format!("newcomer-phase write failed: {e}"));
      }
      w.pump();
    }
    if let Err(v) = sync_point(&mut w, sc, &everybody, &pre_match, "after-newcomer", &mut out) {
      violate!(v.0, v.1);
    }
  }

  // ---- final: whole-history rules for every pair
  if let Err(v) = final_rules(&w, sc, &pre_match, &mut out) {
    violate!(v.0, v.1);
  }
  for e in &w.eps {
    out.match_events += e.status_events;
  }
  for s in &w.sent {
    out.items_written += s.len() as u64;
    out.frag_items += s.iter().filter(|x| matches!(x.item, Item::Val { len, .. } if len + 20 > 1024)).count() as u64;
  }
  out.dropped = net::counters().1 - dropped0;
  out.completed = true;
  out
}

/// what reader `b` must hold from writer `a` by now
fn must_have(w: &World, sc: &Sc7, a: usize, b: usize, pre: usize) -> Vec<usize> {
  let ws = &sc.eps[a];
  let rs = &sc.eps[b];
  let sent = &w.sent[a];
  let mut must = vec![];
  if !rs.reliable || !ws.reliable {
    return must;
  }
  // only what was written while the reader was alive
  let upto = match w.eps[b].deleted_at {
    Some(t) => sent.iter().filter(|s| s.t_end < t).count(),
    None => sent.len(),
  };
  match ws.depth {
    None => {
      // keep-all: everything written after the match
      for i in pre..upto {
        must.push(i);
      }
      // retained history for a TransientLocal pair (the writer keeps at least 32 acknowledged samples)
      if ws.tl && rs.tl && pre <= 32 {
        for i in 0..pre.min(upto) {
          must.push(i);
        }
      }
    }
    Some(d) => {
      // keep-last(d): the last d items are retained until acknowledged
      let d = (d as usize).min(32);
      let from = upto.saturating_sub(d);
      for i in from..upto {
        if i >= pre || (ws.tl && rs.tl) {
          must.push(i);
        }
      }
    }
  }
  must.sort();
  must.dedup();
  must
}

fn sync_point(w: &mut World, sc: &Sc7, among: &[usize], pre_match: &BTreeMap<(usize, usize), usize>, phase: &str, out: &mut Out7) -> Result<(), (String, Value)> {
  let pairs: Vec<(usize, usize, usize)> = pre_match.iter().filter(|((a, b), _)| among.contains(a) && among.contains(b)).map(|((a, b), n)| (*a, *b, *n)).collect();
  let check = |w: &World| -> Option<(usize, usize, Vec<usize>)> {
    for (a, b, pre) in &pairs {
      if w.eps[*a].deleted_at.is_some() && w.eps[*b].deleted_at.is_some() {
        continue;
      }
      if w.eps[*b].r.is_none() {
        continue;
      }
      // a deleted writer cannot repair any more
      if w.eps[*a].deleted_at.is_some() {
        continue;
      }
      let must = must_have(w, sc, *a, *b, *pre);
      let got: BTreeSet<usize> = w.eps[*b].recv.get(&w.eps[*a].guid).map(|v| v.iter().filter_map(|(g, _)| item_index(&w.sent[*a], g)).collect()).unwrap_or_default();
      let missing: Vec<usize> = must.into_iter().filter(|i| !got.contains(i)).collect();
      if !missing.is_empty() {
        return Some((*a, *b, missing));
      }
    }
    None
  };
  match w.wait_until(T_DELIVER_S, &|w| check(w).is_none()) {
    Some(s) => {
      out.max_deliver_s = out.max_deliver_s.max(s);
      Ok(())
    }
    None => {
      let (a, b, missing) = check(w).unwrap_or((0, 0, vec![]));
      let items: Vec<Value> = missing.iter().take(6).map(|i| json!({"index_in_writer_stream": i, "item": w.sent[a][*i].item})).collect();
      // another reader of the same writer on the same participant shares the TopicCache (read pointers, reliability marker) with this one
      let sibling = (0..sc.eps.len()).any(|o| o != b && !sc.eps[o].is_writer && sc.eps[o].part == sc.eps[b].part && compatible(&sc.eps[a], &sc.eps[o]) && w.eps[o].create_started.is_some());
      let is_history = missing.iter().any(|i| *i < pre_match[&(a, b)]);
      let kind = if is_history && sc.eps[a].depth.is_none() {
        format!(
          "retained-history-not-delivered-to-transient-local-{}{}",
          if b == sc.late { "late-joiner" } else { "reader" },
          if sibling { ":participant-hosts-another-reader-of-that-writer" } else { "" }
        )
      } else if sc.eps[a].depth.is_some() {
        "keep-last-tail-not-delivered".to_string()
      } else {
        "reliable-keep-all-sample-not-delivered".to_string()
      };
      Err((
        format!("C07/delivery:{kind}"),
        json!({"phase": phase, "bound_s": T_DELIVER_S, "writer_ep": a, "reader_ep": b, "missing_count": missing.len(), "missing": items,
               "received_from_writer": w.eps[b].recv.get(&w.eps[a].guid).map_or(0, |v| v.len()), "written_by_writer": w.sent[a].len(), "loss_ppm": sc.loss_ppm}),
      ))
    }
  }
}

fn final_rules(w: &World, sc: &Sc7, pre_match: &BTreeMap<(usize, usize), usize>, out: &mut Out7) -> Result<(), (String, Value)> {
  let guid_to_ep: BTreeMap<[u8; 16], usize> = w.eps.iter().enumerate().filter(|(_, e)| e.guid != [0; 16]).map(|(i, e)| (e.guid, i)).collect();
  // (writer ep, index in its stream) -> first time any reader took it; and the same per participant of the taker
  let mut first_seen: BTreeMap<(usize, usize), Instant> = BTreeMap::new();
  let mut first_seen_on: BTreeMap<(usize, usize, usize), Instant> = BTreeMap::new();
  for (o, e) in w.eps.iter().enumerate() {
    for (wg, got) in &e.recv {
      if let Some(&a) = guid_to_ep.get(wg) {
        for (g, t) in got {
          if let Some(idx) = item_index(&w.sent[a], g) {
            let x = first_seen.entry((a, idx)).or_insert(*t);
            if *t < *x {
              *x = *t;
            }
            let y = first_seen_on.entry((sc.eps[o].part, a, idx)).or_insert(*t);
            if *t < *y {
              *y = *t;
            }
          }
        }
      }
    }
  }
  // "the sample was there before reader b existed", decided on evidence only: some reader (anywhere) had taken it
  // before b's creation began, or write() had returned more than 5 s before that (write() only queues the sample
  // for the event loop). Since 466b74e each local Reader has its own delivery frontier, so what is in flight or
  // re-sent to a sibling reader on b's participant can no longer reach b; the exception the rule had for that
  // case is gone.
  let earlier = |a: usize, idx: usize, _b: usize, tc: Instant| -> bool { first_seen.get(&(a, idx)).map_or(false, |t| *t < tc) || w.sent[a][idx].t_end + StdDuration::from_secs(5) < tc };
  let _ = &first_seen_on;
  for (b, e) in w.eps.iter().enumerate() {
    if sc.eps[b].is_writer {
      continue;
    }
    for (wg, got) in &e.recv {
      let Some(&a) = guid_to_ep.get(wg) else {
        return Err(("C07/delivery:sample-from-unknown-writer".to_string(), json!({"reader_ep": b, "writer_guid": crate::ctx::hex(wg)})));
      };
      let sent = &w.sent[a];
      let mut last: Option<usize> = None;
      for (g, t_got) in got {
        let Some(idx) = item_index(sent, g) else {
          return Err(("C07/delivery:received-something-never-written".to_string(), json!({"reader_ep": b, "writer_ep": a, "got": format!("{g:?}").chars().take(200).collect::<String>()})));
        };
        // unaltered
        if let (Got::Val(m), Item::Val { key, n, len }) = (g, &sent[idx].item) {
          let want = BMsg { key: *key, w: a as u32, n: *n, blob: blob(a as u32, *n, *len) };
          if *m != want {
            return Err((
              "C07/delivery:value-altered".to_string(),
              json!({"reader_ep": b, "writer_ep": a, "n": n, "len": len, "got_len": m.blob.len(), "got_key": m.key, "first_diff": m.blob.iter().zip(want.blob.iter()).position(|(x, y)| x != y)}),
            ));
          }
          out.items_received += 1;
        } else {
          out.disposes_received += 1;
        }
        // in order, no duplicates: the statement speaks of reliable traffic, so only reliable readers are judged
        if let Some(l) = last {
          if idx <= l {
            if sc.eps[b].reliable && sc.eps[a].reliable {
              return Err((
                format!("C07/delivery:{}", if idx == l { "duplicate" } else { "out-of-order" }),
                json!({"reader_ep": b, "writer_ep": a, "previous_index": l, "this_index": idx, "item": sent[idx].item}),
              ));
            } else {
              out.best_effort_order_anomalies += 1;
            }
          }
        }
        last = Some(last.map_or(idx, |l| l.max(idx)));
        // a Volatile reader gets only later samples. "Earlier" needs evidence that the sample had left the
        // writer before the reader existed: some reader had already taken it before this reader's creation began,
        // or write() had returned more than 5 s before that (write() only queues the sample for the event loop)
        if !sc.eps[b].tl {
          if let Some(tc) = e.create_started {
            if earlier(a, idx, b, tc) {
              let tl_sibling = (0..sc.eps.len()).any(|o| o != b && sc.eps[o].part == sc.eps[b].part && sc.eps[o].tl && compatible(&sc.eps[a], &sc.eps[o]));
              let same_part = sc.eps[a].part == sc.eps[b].part;
              return Err((
                format!(
                  "C07/late-join:volatile-{}reader-received-sample-written-before-it-existed:{}",
                  if sc.eps[b].reliable { "" } else { "best-effort-" },
                  if tl_sibling {
                    "participant-also-hosts-transient-local-reader-of-that-writer".to_string()
                  } else {
                    format!("{}writer-{}", if same_part { "same-participant-" } else { "" }, if sc.eps[a].tl { "transient-local" } else if sc.eps[a].explicit_durability { "volatile" } else { "default-durability" })
                  }
                ),
                json!({"reader_ep": b, "writer_ep": a, "index_in_writer_stream": idx, "item": sent[idx].item, "taken_by_a_reader_sharing_its_cache_or_anywhere_before_creation": true,
                       "write_completed_before_reader_creation_s": tc.duration_since(sent[idx].t_end).as_secs_f64(), "reader_is_late_joiner": b == sc.late, "arrived_after_creation_s": t_got.duration_since(tc).as_secs_f64()}),
              ));
            }
          }
        }
      }
      if b == sc.late && sc.eps[b].tl {
        out.late_history_items += got.iter().filter(|(g, _)| item_index(sent, g).map_or(false, |i| i < pre_match.get(&(a, b)).copied().unwrap_or(0))).count() as u64;
      }
    }
    if !sc.eps[b].tl {
      if let Some(tc) = e.create_started {
        for a in 0..sc.eps.len() {
          if compatible(&sc.eps[a], &sc.eps[b]) {
            out.volatile_withheld += (0..w.sent[a].len()).filter(|i| earlier(a, *i, b, tc)).count() as u64;
          }
        }
      }
    }
  }
  Ok(())
}
