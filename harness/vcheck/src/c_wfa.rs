//! C20 front end.
use rustdds::verif::net;
use serde_json::json;

use crate::{
  ctx::{par_cases, Args, Report},
  prng::Rng,
  wfa,
};

pub fn run_c20(args: &Args) -> i32 {
  net::set_policy_drop_all();
  let mut rep = Report::new(
    args,
    "random histories {reader match/loss (reliable and best-effort), write, ACKNACK with base last / last+1 / last-1 / absolute} before and after a wait_for_acknowledgments call on a real DataWriter+Writer; sync form on its own thread with measured elapsed time, async form polled under executor discipline (re-polled only when its waker fired); second leg: two threads calling the sync form on one DataWriter at the same time with a reader that has acknowledged only a prefix (neither call may report success before everything is acknowledged); distinct = hash of the whole script; non-trivial = >=1 reliable reader matched at the call",
  );
  rep.assume("success allowed only when every reliable reader matched at the call acked base > last-written-at-call or was lost; expected-timeout cases use 100-160 ms, expected-success cases 8 s so a timeout cannot masquerade as success");
  rep.assume("a false yes is looked for during 3 ms after each non-completing event and at the end; the upper bound on completion time is a watchdog only");
  let ncases = args.scale(1500, 200_000);
  let seed = args.seed;
  let replay_case = crate::replay_index(args);
  let acc = par_cases(args.threads(), ncases, |i, acc| {
    if replay_case.map_or(false, |rc| rc != i) {
      return;
    }
    let mut rng = Rng::derive(seed, 0x2020, i);
    let case = wfa::gen_case(&mut rng);
    let tag = json!({"seed": seed, "stream": 0x2020, "index": i});
    let out = wfa::run_case(&case, acc, &tag);
    acc.evaluations += 1;
    acc.count(if case.asynchronous { "async_cases" } else { "sync_cases" }, 1);
    if out.completed_true {
      acc.count(if case.asynchronous { "async_completed_true" } else { "sync_completed_true" }, 1);
    }
    if out.timed_out {
      acc.count("sync_timed_out", 1);
    }
    if out.stayed_pending {
      acc.count("async_stayed_pending", 1);
    }
    acc.count("boundary_acks_last_or_last_plus_1", out.boundary_acks);
    acc.count("async_polls_without_wake_that_replaced_the_waker", out.spurious_polls);
    let has_rel = case.pre.iter().any(|e| matches!(e, wfa::FEv::Match { reliable: true, .. }));
    if has_rel {
      acc.distinct.insert(out.sig);
    }
    if i < 2 {
      acc.sample(json!({"case": tag, "script": wfa::case_json(&case)}), 2);
    }
  });
  // second leg: two threads waiting on one DataWriter at once (only "no false yes" is judged there)
  let n2 = args.scale(400, 40_000);
  let acc2 = par_cases(args.threads(), n2, |i, acc| {
    if replay_case.is_some() {
      return;
    }
    let mut rng = Rng::derive(seed, 0x2022, i);
    let tag = json!({"seed": seed, "stream": 0x2022, "index": i, "leg": "two-concurrent-waits"});
    let out = wfa::run_two_waiters(&mut rng, acc, &tag);
    acc.evaluations += 1;
    acc.count("two_waiters:cases", 1);
    if out.both_said_no {
      acc.count("two_waiters:both_calls_reported_timeout", 1);
    }
    if out.acked_in_time {
      acc.count("two_waiters:cases_with_everything_acknowledged_before_the_timeouts", 1);
    }
    acc.distinct.insert(crate::prng::fnv64(tag.to_string().as_bytes()));
  });
  let mut acc = acc;
  acc.merge(acc2);
  rep.require("two_waiters:cases", 100);
  rep.require("sync_completed_true", 100);
  rep.require("sync_timed_out", 50);
  rep.require("boundary_acks_last_or_last_plus_1", 100);
  rep.require("async_polls_without_wake_that_replaced_the_waker", 50);
  rep.finish(acc)
}
