//! C06 front end (subprocess shards; see hostile.rs).
use rustdds::verif::net;
use serde_json::json;

use crate::{
  alloc,
  ctx::{Args, Report},
  hostile, shard,
};

pub fn run_c06(args: &Args) -> i32 {
  net::set_policy_drop_all();
  let mut rep = Report::new(
    args,
    "structure-aware hostile datagrams (well-framed RTPS with boundary-valued fields: wide HEARTBEAT/GAP ranges, fragment numbers beyond the total, huge sample sizes, inconsistent DATAFRAG parameters, lying octetsToInlineQos/flags/parameter lengths, boundary ACKNACK/NACKFRAG, lying numBits, interpreter/unknown submessages; truncated, byte-mutated, concatenated, lying-length and random datagrams) interleaved with state-building valid traffic, fed to a reliable with_key reader, a best-effort no_key reader and a reliable writer with history; distinct = (case index) for cases that fed >= 20 hostile datagrams; non-trivial = same",
  );
  rep.assume(&format!("disproportionate = more than {} s thread CPU time or more than 64*len + 1 MiB heap high-water growth for one datagram, or a single allocation request >= {} MiB (refused: the shard reports and exits); a call burning > {} s CPU is judged as not returning", hostile::CPU_DISPROPORTIONATE_S, alloc::HUGE >> 20, shard::CPU_BUDGET_S));
  rep.assume("release profile (debug assertions and overflow checks off), default features; each datagram goes through MessageReceiver::handle_received_packet of all three endpoints, then one repair step and one take");
  rep.assume("the well-behaved peer of the aftermath check is never impersonated by the generator");
  let ncases = args.scale(40_000, 2_000_000);
  let per_case = 50usize;
  let seed = args.seed;
  let replay_case = crate::replay_index(args);
  let acc = shard::run_sharded(args, ncases, args.threads(), "C06", move |i, acc, br| {
    if replay_case.map_or(false, |rc| rc != i) {
      return;
    }
    static INIT: std::sync::Once = std::sync::Once::new();
    INIT.call_once(|| {
      hostile::install_panic_hook();
      alloc::guard(true);
    });
    alloc::set_measured_thread(true);
    let out = hostile::run_case(seed, i, per_case, acc, br);
    acc.evaluations += 1;
    acc.count("datagrams_fed", out.datagrams);
    acc.count("panics_caught", out.panics);
    if out.aftermath_ok {
      acc.count("aftermath_ok", 1);
    }
    acc.distinct.insert(i);
    if i < 2 {
      acc.sample(json!({"case": {"seed": seed, "stream": 0x0606, "index": i}, "summary": hostile::summary_value(&out)}), 2);
    }
  });
  rep.require("datagrams_fed", 50_000);
  rep.require("aftermath_ok", 500);
  rep.finish(acc)
}
