//! C06 front end (subprocess shards; see hostile.rs).
use rustdds::verif::net;
use serde_json::json;

use crate::{
  alloc,
  ctx::{Args, Report},
  hostile, shard,
};

pub fn run_c06(args: &Args) -> i32 {
  net::set_policy_drop_all();
  let mut rep = Report::new(
    args,
    "structure-aware hostile datagrams (well-framed RTPS with boundary-valued fields: wide HEARTBEAT/GAP ranges, fragment numbers beyond the total, huge sample sizes, inconsistent DATAFRAG parameters, lying octetsToInlineQos/flags/parameter lengths, boundary ACKNACK/NACKFRAG, lying numBits, interpreter/unknown submessages; truncated, byte-mutated, concatenated, lying-length and random datagrams) interleaved with state-building valid traffic, fed to a reliable with_key reader, a best-effort no_key reader and a reliable writer with history; distinct = (case index) for cases that fed >= 20 hostile datagrams; non-trivial = same",
  );
  rep.assume(&format!("disproportionate = more than {} s thread CPU time or more than 64*len + 1 MiB heap high-water growth for one datagram, or a single allocation request >= {} MiB (refused: the shard reports and exits); a call burning > {} s CPU is judged as not returning", hostile::CPU_DISPROPORTIONATE_S, alloc::HUGE >> 20, shard::CPU_BUDGET_S));
  rep.assume("two builds of the same harness: release profile (debug assertions and overflow checks off) and the same with overflow checks and debug assertions on (counters prefixed overflow-checked:), default features; each datagram goes through MessageReceiver::handle_received_packet of all three endpoints, then one repair step and one take");
  rep.assume("the well-behaved peer of the aftermath check is never impersonated by the generator");
  rep.assume("memcheck / interpreter legs (counters prefixed valgrind: and miri:): a socket-free workload (src/bin/vmiri.rs: hostile datagrams through the real parser, FragmentAssembler, RtpsWriterProxy and number-set iterators; builder->bytes->parser round trips; PL-CDR discovery data incl. byte-mutated lists) under valgrind memcheck in both tiers and under Miri in the thorough tier, plus real C06 shards (sockets, benches) under valgrind in the thorough tier; Miri cannot open sockets, so Reader/Writer objects are out of its reach; any memcheck error or Miri Undefined-Behaviour report is a violation, a tool run that ends without a diagnosis is inconclusive");
  let per_case = 50usize;
  let seed = args.seed;
  let replay_case = crate::replay_index(args);
  // which build a replay file belongs to
  let replay_leg: Option<String> = args.replay.as_ref().and_then(|p| std::fs::read_to_string(p).ok()).and_then(|s| serde_json::from_str::<serde_json::Value>(&s).ok()).map(|v| v["replay"]["case"]["leg"].as_str().unwrap_or("").to_string());
  let body = move |i: u64, acc: &mut crate::ctx::Acc, br: &shard::Bracket| {
    if replay_case.map_or(false, |rc| rc != i) {
      return;
    }
    static INIT: std::sync::Once = std::sync::Once::new();
    INIT.call_once(|| {
      hostile::install_panic_hook();
      alloc::guard(true);
    });
    alloc::set_measured_thread(true);
    let leg = std::env::var("VERIF_LEG").unwrap_or_default();
    let out = hostile::run_case(seed, i, per_case, &leg, acc, br);
    let pre = if leg.is_empty() { String::new() } else { format!("{leg}:") };
    acc.evaluations += 1;
    acc.count(&format!("{pre}datagrams_fed"), out.datagrams);
    acc.count(&format!("{pre}panics_caught"), out.panics);
    if out.aftermath_ok {
      acc.count(&format!("{pre}aftermath_ok"), 1);
    }
    acc.distinct.insert(i);
    if i < 2 {
      acc.sample(json!({"case": {"seed": seed, "stream": 0x0606, "index": i, "leg": leg}, "summary": hostile::summary_value(&out)}), 2);
    }
  };
  let mut acc = crate::ctx::Acc::default();
  if replay_leg.as_deref().unwrap_or("") == "" {
    let ncases = args.scale(40_000, 2_000_000);
    acc.merge(shard::run_sharded(args, ncases, args.threads(), "C06", body.clone()));
  }
  // second leg: the same harness built with arithmetic-overflow checks and debug assertions on (what a
  // debug build of an application has); different case indices, so different inputs
  match std::env::var("VERIF_RELCHECK_EXE").ok().map(std::path::PathBuf::from).filter(|p| p.exists()) {
    Some(exe) if replay_leg.as_deref().map_or(true, |l| l == "overflow-checked") => {
      let ncases = args.scale(20_000, 1_000_000);
      acc.merge(shard::run_sharded_with(args, ncases, args.threads(), "C06", Some(("overflow-checked".to_string(), exe)), body));
      rep.require("overflow-checked:datagrams_fed", 50_000);
    }
    Some(_) => {}
    None => acc.inconclusive.push("overflow-checked build of the harness not found (VERIF_RELCHECK_EXE)".to_string()),
  }
  // memcheck / interpreter legs: run by ./check before this process (tools/interp_legs.sh), judged here
  if let Ok(path) = std::env::var("VERIF_INTERP_SUMMARY") {
    match std::fs::read_to_string(&path).ok().and_then(|s| serde_json::from_str::<serde_json::Value>(&s).ok()) {
      None => acc.inconclusive.push(format!("memcheck/interpreter legs left no summary at {path} (see interp-legs.log next to it)")),
      Some(v) => {
        for tool in ["miri", "valgrind"] {
          let t = &v[tool];
          if tool == "miri" && t["skipped"].as_bool() == Some(true) {
            continue;
          }
          if tool == "miri" && t["built"].as_bool() != Some(true) {
            acc.inconclusive.push("the Miri build of the socket-free workload failed (interp-logs/miri-build.log)".to_string());
            continue;
          }
          acc.count(&format!("{tool}:processes"), t["processes"].as_u64().unwrap_or(0));
          acc.count(&format!("{tool}:processes_without_report"), t["processes_clean"].as_u64().unwrap_or(0));
          if let Some(c) = t["counters"].as_object() {
            for (k, n) in c {
              acc.count(&format!("{tool}:{k}"), n.as_u64().unwrap_or(0));
            }
          }
          for r in t["reports"].as_array().cloned().unwrap_or_default() {
            let err = r["error"].as_str().unwrap_or("?").to_string();
            let at = r["at"].as_str().unwrap_or("unknown-site").to_string();
            // a tool that did not get to the end without a diagnosis (killed, unsupported operation) is not a verdict
            let is_report = tool == "valgrind" && !err.starts_with("exit ") && !err.starts_with("shard report") || r["is_ub"].as_bool() == Some(true);
            if is_report {
              let kind: String = err.split(|c: char| !(c.is_alphanumeric() || c == ' ')).next().unwrap_or("").trim().replace(' ', "-").chars().take(48).collect();
              acc.violate(format!("C06/{tool}:{kind}@{at}"), json!({"report": err, "log": r["log"]}), json!({"case": {"seed": seed, "leg": tool}, "log": r["log"]}));
            } else {
              acc.inconclusive.push(format!("{tool} process ended without a summary or a diagnosis: {err} ({})", r["log"]));
            }
          }
          if tool == "valgrind" {
            acc.count("valgrind:real_shard_cases", t["shard_cases"].as_u64().unwrap_or(0));
            for sig in t["shard_violations"].as_array().cloned().unwrap_or_default() {
              acc.violate(format!("{}", sig.as_str().unwrap_or("C06/valgrind-shard")), json!({"under": "valgrind memcheck"}), json!({"case": {"seed": seed, "leg": "valgrind-shard"}}));
            }
          }
        }
        rep.require("valgrind:processes_without_report", 1);
        if v["mode"] == "thorough" {
          rep.require("miri:processes_without_report", 1);
          rep.require("miri:datagrams_parsed", 100);
        }
      }
    }
  }
  rep.require("datagrams_fed", 50_000);
  rep.require("aftermath_ok", 500);
  rep.finish(acc)
}
