//! C18: access is granted exactly as the signed permissions and governance documents say.
//!
//! Signature leg: the harness's own MIME walker splits each committed S/MIME fixture into
//! regions; single-byte alterations are judged by rules (i)/(ii)/(iii) below.
//! Decision leg: random governance + permissions documents rendered to XML by the harness,
//! parsed by the real parsers, queried through the real decision functions, and compared
//! with a reference evaluator written from DDS Security 1.1 (9.4.1.2.7, 9.4.1.3) that
//! returns the SET of verdicts possible under every reading the statement leaves open;
//! only singleton sets are judged.
use rustdds::verif::sec::access as drv;
use serde_json::{json, Value};

use crate::{
  ctx::{hex, par_cases, Acc, Args, Report},
  prng::{fnv64, Rng},
};

const STREAM_SIG: u64 = 0x1801;
const STREAM_DEC: u64 = 0x1802;

// =====================================================================================
// MIME walker (harness's own; RFC 2046 multipart structure, nothing else)
// =====================================================================================

#[derive(Clone, Debug)]
pub struct Split {
  pub c_start: usize, // first byte of the signed part (its MIME headers included: they are signed)
  pub c_end: usize,   // one past its last byte; the line break before the delimiter belongs to the delimiter
  pub b_start: usize, // first byte of the base64 body of the signature part
  pub b_end: usize,
}

// (start, end without terminator, start of next line)
fn line_table(doc: &[u8]) -> Vec<(usize, usize, usize)> {
  let mut v = vec![];
  let mut s = 0;
  while s < doc.len() {
    let mut e = s;
    while e < doc.len() && doc[e] != b'\n' {
      e += 1;
    }
    let next = (e + 1).min(doc.len());
    let end = if e > s && doc[e - 1] == b'\r' { e - 1 } else { e };
    v.push((s, end, next));
    s = next;
  }
  v
}

fn find_boundary(doc: &[u8], lines: &[(usize, usize, usize)]) -> Option<(String, usize)> {
  // unfold the top header block
  let mut hdr = String::new();
  let mut after = 0;
  for (k, (s, e, _)) in lines.iter().enumerate() {
    if s == e {
      after = k + 1;
      break;
    }
    let l = String::from_utf8_lossy(&doc[*s..*e]).to_string();
    if l.starts_with(' ') || l.starts_with('\t') {
      hdr.push(' ');
      hdr.push_str(l.trim_start());
    } else {
      hdr.push('\n');
      hdr.push_str(&l);
    }
  }
  for h in hdr.split('\n') {
    let lower = h.to_ascii_lowercase();
    if lower.starts_with("content-type:") {
      let at = lower.find("boundary=")?;
      let rest = &h[at + "boundary=".len()..];
      let b = if let Some(r) = rest.strip_prefix('"') {
        r.split('"').next()?.to_string()
      } else {
        rest.split(|c: char| c == ';' || c.is_whitespace()).next()?.to_string()
      };
      return Some((b, after));
    }
  }
  None
}

pub fn split(doc: &[u8]) -> Option<Split> {
  let lines = line_table(doc);
  let (boundary, first_body_line) = find_boundary(doc, &lines)?;
  let delim = format!("--{boundary}");
  let is_delim = |k: usize| -> Option<bool> {
    let (s, e, _) = lines[k];
    let l = &doc[s..e];
    if !l.starts_with(delim.as_bytes()) {
      return None;
    }
    let rest = &l[delim.len()..];
    let closing = rest.starts_with(b"--");
    let rest = if closing { &rest[2..] } else { rest };
    if rest.iter().all(|c| *c == b' ' || *c == b'\t') {
      Some(closing)
    } else {
      None
    }
  };
  let delims: Vec<(usize, bool)> = (first_body_line..lines.len()).filter_map(|k| is_delim(k).map(|c| (k, c))).collect();
  if delims.len() != 3 || delims[0].1 || delims[1].1 || !delims[2].1 {
    return None;
  }
  let (d1, d2, d3) = (delims[0].0, delims[1].0, delims[2].0);
  if d2 <= d1 + 1 || d3 <= d2 + 1 {
    return None;
  }
  let c_start = lines[d1].2;
  let c_end = lines[d2 - 1].1;
  // signature part: headers up to the blank line
  let mut k = d2 + 1;
  while k < d3 && lines[k].0 != lines[k].1 {
    k += 1;
  }
  if k >= d3 {
    return None;
  }
  let b_start = lines[k].2;
  let b_end = lines[d3 - 1].1.max(b_start);
  if c_end < c_start {
    return None;
  }
  Some(Split {
    c_start,
    c_end,
    b_start,
    b_end,
  })
}

/// S/MIME canonical text form (RFC 5751 3.1.1): every line break is CRLF.
pub fn canon(content: &[u8]) -> Vec<u8> {
  let mut out = Vec::with_capacity(content.len() + 64);
  for (i, c) in content.iter().enumerate() {
    if *c == b'\n' && (i == 0 || content[i - 1] != b'\r') {
      out.push(b'\r');
    }
    out.push(*c);
  }
  out
}

/// Line-break-insensitive form used to decide whether an edit changes the signed text at all:
/// every run of CRs in front of an LF (and at the very end) is dropped, lines joined by CRLF.
/// (openssl's S/MIME canonicalisation strips all trailing CR/LF of a line, so "\r\r\n" is the
/// same line end as "\r\n" there; demanding rejection of such an edit would be more than
/// 'a signature over exactly its content' says.)
pub fn canon_lenient(content: &[u8]) -> Vec<u8> {
  let mut out = Vec::with_capacity(content.len() + 64);
  for (k, line) in content.split(|c| *c == b'\n').enumerate() {
    if k > 0 {
      out.extend_from_slice(b"\r\n");
    }
    let mut e = line.len();
    while e > 0 && line[e - 1] == b'\r' {
      e -= 1;
    }
    out.extend_from_slice(&line[..e]);
  }
  out
}

// the XML payload of a signed part: without the optional text/plain MIME header
fn payload(content_canon: &[u8]) -> &[u8] {
  let h = b"Content-Type: text/plain\r\n\r\n";
  if content_canon.starts_with(h) {
    &content_canon[h.len()..]
  } else {
    content_canon
  }
}

// =====================================================================================
// Alterations
// =====================================================================================

#[derive(Clone, Debug)]
pub struct Edit {
  pub class: &'static str,
  pub pos: usize,
  pub del: usize,
  pub ins: Vec<u8>,
}

impl Edit {
  fn apply(&self, doc: &[u8]) -> Vec<u8> {
    let mut v = Vec::with_capacity(doc.len() + 1);
    v.extend_from_slice(&doc[..self.pos]);
    v.extend_from_slice(&self.ins);
    v.extend_from_slice(&doc[self.pos + self.del..]);
    v
  }
}

const REGIONS: [&str; 5] = ["mime-head", "content", "part-boundary", "pkcs7-base64", "tail"];

fn region_range(sp: &Split, len: usize, r: usize) -> (usize, usize) {
  match r {
    0 => (0, sp.c_start),
    1 => (sp.c_start, sp.c_end),
    2 => (sp.c_end, sp.b_start),
    3 => (sp.b_start, sp.b_end),
    _ => (sp.b_end, len),
  }
}

fn gen_edit(rng: &mut Rng, doc: &[u8], lo: usize, hi: usize) -> Option<Edit> {
  if hi <= lo {
    return None;
  }
  let any = |rng: &mut Rng| lo + rng.below((hi - lo) as u64) as usize;
  let pick_where = |rng: &mut Rng, f: &dyn Fn(usize) -> bool| -> Option<usize> {
    let c: Vec<usize> = (lo..hi).filter(|p| f(*p)).collect();
    if c.is_empty() {
      None
    } else {
      Some(*rng.pick(&c))
    }
  };
  let insertable: [u8; 12] = [b' ', b'\t', b'\n', b'\r', 0, 0xC3, b'A', b'z', b'0', b'=', b'-', b'<'];
  let e = match rng.below(10) {
    0 | 1 => {
      let pos = any(rng);
      Edit { class: "flip", pos, del: 1, ins: vec![doc[pos] ^ (1u8 << rng.below(8))] }
    }
    2 => {
      let pos = any(rng);
      let mut b = if rng.chance(3, 4) { 0x20 + rng.below(0x5f) as u8 } else { rng.next() as u8 };
      if b == doc[pos] {
        b = b.wrapping_add(1);
      }
      Edit { class: "replace", pos, del: 1, ins: vec![b] }
    }
    3 => Edit { class: "delete", pos: any(rng), del: 1, ins: vec![] },
    4 => {
      let b = if rng.chance(3, 4) { *rng.pick(&insertable) } else { rng.next() as u8 };
      Edit { class: "insert", pos: any(rng), del: 0, ins: vec![b] }
    }
    5 => {
      let pos = pick_where(rng, &|p| doc[p].is_ascii_alphabetic())?;
      Edit { class: "case", pos, del: 1, ins: vec![doc[pos] ^ 0x20] }
    }
    _ => {
      // white space and line-break changes
      let is_lf = |p: usize| doc[p] == b'\n';
      match rng.below(9) {
        0 => Edit { class: "ws:insert-space", pos: any(rng), del: 0, ins: vec![b' '] },
        1 => Edit { class: "ws:insert-tab", pos: any(rng), del: 0, ins: vec![b'\t'] },
        2 => {
          let pos = pick_where(rng, &|p| doc[p] == b' ')?;
          Edit { class: "ws:space-to-tab", pos, del: 1, ins: vec![b'\t'] }
        }
        3 => {
          let pos = pick_where(rng, &|p| doc[p] == b' ')?;
          Edit { class: "ws:delete-space", pos, del: 1, ins: vec![] }
        }
        4 => {
          let pos = pick_where(rng, &|p| is_lf(p) && (p == 0 || doc[p - 1] != b'\r'))?;
          Edit { class: "ws:lf-to-crlf", pos, del: 0, ins: vec![b'\r'] }
        }
        5 => {
          let pos = pick_where(rng, &|p| doc[p] == b'\r' && p + 1 < doc.len() && doc[p + 1] == b'\n')?;
          Edit { class: "ws:crlf-to-lf", pos, del: 1, ins: vec![] }
        }
        6 => {
          let pos = pick_where(rng, &is_lf)?;
          Edit { class: "ws:delete-lf", pos, del: 1, ins: vec![] }
        }
        7 => {
          let pos = pick_where(rng, &is_lf)?;
          Edit { class: "ws:duplicate-lf", pos, del: 0, ins: vec![b'\n'] }
        }
        _ => {
          // trailing blank before the line break
          let pos = pick_where(rng, &|p| doc[p] == b'\n' || (doc[p] == b'\r' && p + 1 < doc.len() && doc[p + 1] == b'\n'))?;
          Edit { class: "ws:trailing-space", pos, del: 0, ins: vec![b' '] }
        }
      }
    }
  };
  Some(e)
}

// =====================================================================================
// Signature leg
// =====================================================================================

struct Fixture {
  name: &'static str,
  is_governance: bool,
  domain: u16,
  bytes: Vec<u8>,
  split: Split,
  content_canon: Vec<u8>, // the originally signed content, canonical form
}

struct SigCtx {
  ca: Vec<u8>,
  foreign_ca: Vec<u8>,
  identity: Vec<u8>,
  valid: Vec<Fixture>,
  gov_ok: usize,  // index of the shipped governance fixture in `valid`
  perm_ok: usize, // index of the shipped permissions fixture in `valid`
}

fn read(args: &Args, name: &str) -> Vec<u8> {
  let p = args.verif_dir.join("fixtures/c18").join(name);
  std::fs::read(&p).unwrap_or_else(|e| {
    eprintln!("cannot read fixture {}: {e}", p.display());
    vec![]
  })
}

const VALID_FIXTURES: [(&str, bool, u16); 6] = [
  ("governance.p7s", true, 0),
  ("permissions.p7s", false, 0),
  ("gov2.p7s", true, 7),
  ("perm2.p7s", false, 0),
  ("perm3.p7s", false, 0),
  ("perm2_notext.p7s", false, 0),
];

fn short(e: &str) -> String {
  e.chars().take(160).collect()
}

fn case_json(seed: u64, stream: u64, index: u64) -> Value {
  json!({"seed": seed, "stream": stream, "index": index})
}

/// runs one altered document through verify_signature and (optionally) the entry points
fn judge_document(
  cx: &SigCtx,
  acc: &mut Acc,
  fx: &Fixture,
  altered: &[u8],
  content_changed: bool, // rule (i) / (iii) applies: any acceptance is a violation
  rule: &str,            // signature text when such a document is accepted
  label: &str,           // for signatures
  with_entry: bool,
  replay: &dyn Fn() -> Value,
) {
  let r = drv::verify_signed_document(altered, &cx.ca);
  acc.count("documents_verified", 1);
  match &r {
    Ok(got) => {
      if content_changed {
        acc.violate(
          format!("C18/sig:{rule}:{label}"),
          json!({"fixture": fx.name, "returned_len": got.len(), "returned_equals_original": got == &fx.content_canon}),
          replay(),
        );
      } else if got != &fx.content_canon {
        acc.violate(
          format!("C18/sig:accepted-with-content-other-than-signed:{label}"),
          json!({"fixture": fx.name, "returned_len": got.len(), "original_len": fx.content_canon.len()}),
          replay(),
        );
      } else {
        acc.count("sig_accepted_identical_content", 1);
      }
    }
    Err(e) => {
      acc.count("sig_rejected", 1);
      if content_changed {
        acc.count("sig_content_alteration_rejected", 1);
      }
      if e.starts_with("PANIC") {
        acc.count("sig_rejected_by_panic", 1);
      }
    }
  }
  if with_entry {
    // the same document through validate_local_permissions / validate_remote_permissions
    let must_reject = content_changed || r.is_err();
    let (gov, perm): (&[u8], &[u8]) = if fx.is_governance { (altered, &cx.valid[cx.perm_ok].bytes) } else { (&cx.valid[cx.gov_ok].bytes, altered) };
    let local = drv::entry_validate_local(&cx.ca, gov, perm, &cx.identity, fx.domain);
    acc.count("entry_local_calls", 1);
    if must_reject {
      match &local {
        Ok(_) => acc.violate(
          format!("C18/entry:validate_local_permissions-accepts-{}-failing-the-signature-check:{label}", if fx.is_governance { "governance" } else { "permissions" }),
          json!({"fixture": fx.name, "verify_signature": r.as_ref().map(|_| "ok").map_err(|e| short(e))}),
          replay(),
        ),
        Err(_) => acc.count("entry_local_rejected", 1),
      }
    } else if local.is_ok() {
      acc.count("entry_local_accepted", 1);
    }
    if !fx.is_governance {
      if let Ok(mut entry) = drv::entry_validate_local(&cx.ca, &cx.valid[cx.gov_ok].bytes, &cx.valid[cx.perm_ok].bytes, &cx.identity, 0) {
        let remote = entry.validate_remote(&cx.identity, altered);
        acc.count("entry_remote_calls", 1);
        if must_reject {
          match remote {
            Ok(_) => acc.violate(
              format!("C18/entry:validate_remote_permissions-accepts-permissions-failing-the-signature-check:{label}"),
              json!({"fixture": fx.name, "verify_signature": r.as_ref().map(|_| "ok").map_err(|e| short(e))}),
              replay(),
            ),
            Err(_) => acc.count("entry_remote_rejected", 1),
          }
        } else if remote.is_ok() {
          acc.count("entry_remote_accepted", 1);
        }
      }
    }
  }
}

fn sig_case(cx: &SigCtx, seed: u64, i: u64, acc: &mut Acc) {
  let mut rng = Rng::derive(seed, STREAM_SIG, i);
  let fx = &cx.valid[rng.below(cx.valid.len() as u64) as usize];
  let region = rng.below(5) as usize;
  let (lo, hi) = region_range(&fx.split, fx.bytes.len(), region);
  let edit = match gen_edit(&mut rng, &fx.bytes, lo, hi) {
    Some(e) => e,
    None => {
      acc.count("sig_no_such_position", 1);
      return;
    }
  };
  acc.evaluations += 1;
  let altered = edit.apply(&fx.bytes);
  // rule (i) applies when the edit lies strictly inside the signed part and changes its
  // canonical form; an edit at c_end touches the line break that belongs to the delimiter
  let sp = &fx.split;
  let inside = edit.pos >= sp.c_start && edit.pos < sp.c_end;
  let content_changed = inside && {
    let rel = Edit { pos: edit.pos - sp.c_start, ..edit.clone() };
    canon_lenient(&rel.apply(&fx.bytes[sp.c_start..sp.c_end])) != canon_lenient(&fx.bytes[sp.c_start..sp.c_end])
  };
  let rname = if inside { "content" } else { REGIONS[if region == 1 { 2 } else { region }] };
  acc.count(&format!("alterations_{rname}"), 1);
  acc.count(&format!("class_{}", edit.class.split(':').next().unwrap_or("")), 1);
  if inside && !content_changed {
    acc.count("content_line_break_only_alterations", 1);
  }
  acc.distinct.insert(fnv64(format!("{}:{}:{}:{:?}", fx.name, edit.pos, edit.del, edit.ins).as_bytes()));
  let label = format!("{}:{}", rname, edit.class);
  let replay = || {
    json!({"case": case_json(seed, STREAM_SIG, i), "fixture": fx.name, "region": rname, "edit": {"class": edit.class, "pos": edit.pos, "deleted": hex(&fx.bytes[edit.pos..edit.pos + edit.del]), "inserted": hex(&edit.ins)},
      "context": String::from_utf8_lossy(&fx.bytes[edit.pos.saturating_sub(30)..(edit.pos + 30).min(fx.bytes.len())])})
  };
  judge_document(cx, acc, fx, &altered, content_changed, "content-alteration-accepted", &label, i % 8 == 0, &replay);
  if i < 2 {
    acc.sample(replay(), 2);
  }
}

fn b64(data: &[u8]) -> Vec<u8> {
  const T: &[u8; 64] = b"ABCDEFGHIJKLMNOPQRSTUVWXYZabcdefghijklmnopqrstuvwxyz0123456789+/";
  let mut out = vec![];
  for (n, ch) in data.chunks(3).enumerate() {
    let b = [ch[0], *ch.get(1).unwrap_or(&0), *ch.get(2).unwrap_or(&0)];
    out.push(T[(b[0] >> 2) as usize]);
    out.push(T[(((b[0] & 3) << 4) | (b[1] >> 4)) as usize]);
    out.push(if ch.len() > 1 { T[(((b[1] & 15) << 2) | (b[2] >> 6)) as usize] } else { b'=' });
    out.push(if ch.len() > 2 { T[(b[2] & 63) as usize] } else { b'=' });
    if n % 16 == 15 {
      out.push(b'\n');
    }
  }
  out.push(b'\n');
  out
}

/// rule (iii): documents that carry no valid Permissions-CA signature over their content
fn sig_structural(cx: &SigCtx, args: &Args, acc: &mut Acc) {
  let seed = args.seed;
  let reject = |acc: &mut Acc, fx: &Fixture, doc: Vec<u8>, what: String| {
    acc.evaluations += 1;
    acc.count("rule3_documents", 1);
    acc.distinct.insert(fnv64(&doc));
    let replay = || json!({"case": {"seed": seed, "stream": "structural", "index": what}, "document": String::from_utf8_lossy(&doc)});
    // `content_changed = true`: any acceptance is a violation
    judge_document(cx, acc, fx, &doc, true, "document-without-valid-ca-signature-over-its-content-accepted", &what, true, &replay);
  };
  // (a) signed by a foreign CA that uses the Permissions CA's subject name
  for (name, is_gov) in [("perm_foreign.p7s", false), ("gov_foreign.p7s", true)] {
    let doc = read(args, name);
    if drv::verify_signed_document(&doc, &cx.foreign_ca).is_ok() {
      acc.count("foreign_documents_valid_under_their_own_ca", 1);
    }
    let fx = &cx.valid[if is_gov { cx.gov_ok } else { cx.perm_ok }];
    reject(acc, fx, doc, "foreign-ca".to_string());
  }
  // valid documents checked against the foreign CA certificate
  for fx in &cx.valid {
    acc.count("rule3_documents", 1);
    if drv::verify_signed_document(&fx.bytes, &cx.foreign_ca).is_ok() {
      acc.violate("C18/sig:accepted-under-a-different-ca-certificate", json!({"fixture": fx.name}), json!({"case": {"seed": seed, "stream": "structural", "index": "wrong-ca"}, "fixture": fx.name}));
    } else {
      acc.count("sig_rejected", 1);
    }
  }
  // (b) signature transplanted from another validly signed document
  for a in &cx.valid {
    for b in &cx.valid {
      // (same XML with and without the text/plain header: skipped, the payload is the same)
      if a.name == b.name || payload(&a.content_canon) == payload(&b.content_canon) {
        continue;
      }
      // a's content under b's PKCS#7 blob, in a's MIME frame ...
      let mut d1 = a.bytes[..a.split.b_start].to_vec();
      d1.extend_from_slice(&b.bytes[b.split.b_start..b.split.b_end]);
      d1.extend_from_slice(&a.bytes[a.split.b_end..]);
      reject(acc, a, d1, "transplanted-signature".to_string());
      // ... and in b's MIME frame
      let mut d2 = b.bytes[..b.split.c_start].to_vec();
      d2.extend_from_slice(&a.bytes[a.split.c_start..a.split.c_end]);
      d2.extend_from_slice(&b.bytes[b.split.c_end..]);
      reject(acc, a, d2, "transplanted-content".to_string());
      acc.count("transplants", 2);
    }
  }
  // (c) unsigned documents
  for (name, is_gov) in [("shipped_governance_unsigned.xml", true), ("shipped_permissions_unsigned.xml", false), ("gov2_unsigned.xml", true), ("perm2_unsigned.xml", false), ("perm3_unsigned.xml", false)] {
    let fx = &cx.valid[if is_gov { cx.gov_ok } else { cx.perm_ok }];
    reject(acc, fx, read(args, name), "unsigned:bare-xml".to_string());
  }
  let mut rng = Rng::derive(seed, STREAM_SIG, u64::MAX);
  for fx in &cx.valid {
    let sp = &fx.split;
    let with_sig = |sig: &[u8]| {
      let mut d = fx.bytes[..sp.b_start].to_vec();
      d.extend_from_slice(sig);
      d.extend_from_slice(&fx.bytes[sp.b_end..]);
      d
    };
    reject(acc, fx, with_sig(b""), "unsigned:empty-signature-part".to_string());
    reject(acc, fx, with_sig(&b64(&rng.bytes(700))), "unsigned:random-signature-blob".to_string());
    reject(acc, fx, with_sig(&b64(&fx.content_canon)), "unsigned:content-as-signature-blob".to_string());
    // signature part cut off at several lengths (whole base64 quanta, so it still decodes)
    let blob = &fx.bytes[sp.b_start..sp.b_end];
    let lines: Vec<&[u8]> = blob.split(|c| *c == b'\n').collect();
    for keep in [1usize, lines.len() / 2, lines.len().saturating_sub(3)] {
      let mut cut: Vec<u8> = lines[..keep.min(lines.len())].join(&b'\n');
      cut.push(b'\n');
      reject(acc, fx, with_sig(&cut), "unsigned:truncated-signature-blob".to_string());
    }
    // only the content part, still framed as multipart
    let mut only = fx.bytes[..sp.c_end].to_vec();
    only.extend_from_slice(&fx.bytes[sp.b_end..]);
    reject(acc, fx, only, "unsigned:signature-part-removed".to_string());
    // the signed part alone (no MIME frame)
    reject(acc, fx, fx.bytes[sp.c_start..sp.c_end].to_vec(), "unsigned:content-part-alone".to_string());
    // a different document put in front of the signed one as an additional part
    {
      let evil = String::from_utf8_lossy(&fx.bytes[sp.c_start..sp.c_end]).replace("true", "false").replace("DENY", "ALLOW").replace("Square", "*");
      if canon(evil.as_bytes()) != fx.content_canon {
        // [evil, signed content, signature]
        let first_delim = &fx.bytes[..sp.c_start];
        let delim_line_start = first_delim[..first_delim.len() - 1].iter().rposition(|c| *c == b'\n').map(|p| p + 1).unwrap_or(0);
        let delim_line = &fx.bytes[delim_line_start..sp.c_start];
        let mut d = fx.bytes[..sp.c_start].to_vec();
        d.extend_from_slice(evil.as_bytes());
        d.push(b'\n');
        d.extend_from_slice(delim_line);
        d.extend_from_slice(&fx.bytes[sp.c_start..]);
        // judged by rule (ii): acceptance is fine only with the originally signed content
        acc.evaluations += 1;
        acc.count("rule3_documents", 1);
        let replay = || json!({"case": {"seed": seed, "stream": "structural", "index": "extra-leading-part"}, "document": String::from_utf8_lossy(&d)});
        judge_document(cx, acc, fx, &d, false, "", "extra-leading-part", false, &replay);
        // [evil, signature] : the signed part replaced
        let mut d = fx.bytes[..sp.c_start].to_vec();
        d.extend_from_slice(evil.as_bytes());
        d.extend_from_slice(&fx.bytes[sp.c_end..]);
        reject(acc, fx, d, "content-part-replaced".to_string());
      }
    }
  }
}

// =====================================================================================
// Decision leg: model, renderer, reference evaluator
// =====================================================================================

/// POSIX fnmatch(), flags = 0 (IEEE 1003.2 B.6 / XCU 2.13): `*`, `?`, bracket expressions
/// with `!` complement and ranges; everything else matches itself.
pub fn fnmatch(p: &[u8], s: &[u8]) -> bool {
  match p.first() {
    None => s.is_empty(),
    Some(b'*') => (0..=s.len()).any(|k| fnmatch(&p[1..], &s[k..])),
    Some(b'?') => !s.is_empty() && fnmatch(&p[1..], &s[1..]),
    Some(b'[') => match bracket(p) {
      Some((neg, items, len)) => {
        !s.is_empty() && (items.iter().any(|(a, b)| *a <= s[0] && s[0] <= *b) != neg) && fnmatch(&p[len..], &s[1..])
      }
      None => !s.is_empty() && s[0] == b'[' && fnmatch(&p[1..], &s[1..]),
    },
    Some(c) => !s.is_empty() && s[0] == *c && fnmatch(&p[1..], &s[1..]),
  }
}

// (complemented, [(lo, hi)], length of the bracket expression)
fn bracket(p: &[u8]) -> Option<(bool, Vec<(u8, u8)>, usize)> {
  let mut i = 1;
  let neg = p.get(i) == Some(&b'!');
  if neg {
    i += 1;
  }
  let mut items = vec![];
  let mut first = true;
  loop {
    let c = *p.get(i)?;
    if c == b']' && !first {
      return Some((neg, items, i + 1));
    }
    first = false;
    if p.get(i + 1) == Some(&b'-') && p.get(i + 2).map_or(false, |d| *d != b']') {
      items.push((c, p[i + 2]));
      i += 3;
    } else {
      items.push((c, c));
      i += 1;
    }
  }
}

#[derive(Clone, Debug)]
enum Dom {
  Id(u16),
  Range(Option<u16>, Option<u16>),
}
impl Dom {
  fn matches(&self, d: u16) -> bool {
    match self {
      Dom::Id(v) => *v == d,
      Dom::Range(lo, hi) => lo.map_or(true, |l| l <= d) && hi.map_or(true, |h| d <= h),
    }
  }
  fn xml(&self, ind: &str) -> String {
    match self {
      Dom::Id(v) => format!("{ind}<id>{v}</id>\n"),
      Dom::Range(lo, hi) => format!(
        "{ind}<id_range>\n{}{}{ind}</id_range>\n",
        lo.map_or(String::new(), |l| format!("{ind}  <min>{l}</min>\n")),
        hi.map_or(String::new(), |h| format!("{ind}  <max>{h}</max>\n"))
      ),
    }
  }
}

#[derive(Clone, Debug)]
struct Crit {
  topics: Vec<String>,
  partitions: Option<Vec<String>>,
}
#[derive(Clone, Debug)]
struct Rule {
  allow: bool,
  domains: Vec<Dom>,
  publish: Vec<Crit>,
  subscribe: Vec<Crit>,
  relay: Vec<Crit>,
}
#[derive(Clone, Debug)]
struct Grant {
  subject: &'static str,
  not_before: i64,
  not_after: i64,
  nb_text: String,
  na_text: String,
  rules: Vec<Rule>,
  default_allow: bool,
}
#[derive(Clone, Debug)]
struct TopicRule {
  expr: String,
  read: bool,
  write: bool,
}
#[derive(Clone, Debug)]
struct DomRule {
  domains: Vec<Dom>,
  topic_rules: Vec<TopicRule>,
}

const SUBJECTS: [&str; 5] = ["CN=alice,O=Org A", "CN=bob,O=Org A", "CN=carol,OU=Unit 7,O=Org B", "CN=dave", "CN=erin,O=Org A"];
const ALPHABET: &[u8] = b"ABCabc012_";

fn gen_name(rng: &mut Rng) -> String {
  let n = 1 + rng.below(5);
  (0..n).map(|_| *rng.pick(ALPHABET) as char).collect()
}

fn range_atom(c: u8) -> String {
  match c {
    b'A'..=b'C' => "[A-C]".to_string(),
    b'a'..=b'c' => "[a-c]".to_string(),
    b'0'..=b'2' => "[0-2]".to_string(),
    _ => "[_a]".to_string(),
  }
}

fn collapse_stars(s: String) -> String {
  let mut out = String::new();
  for c in s.chars() {
    if c == '*' && out.ends_with('*') {
      continue;
    }
    out.push(c);
  }
  out
}

/// patterns from the safe subset: literals, `*` (never adjacent), `?`, `[abc]`, `[a-c]`, `[!x]`
fn gen_pattern(rng: &mut Rng, pool: &[String]) -> String {
  let p = match rng.below(20) {
    0..=10 => {
      let base = rng.pick(pool).clone().into_bytes();
      let mut s = String::new();
      let mut k = 0;
      while k < base.len() {
        let c = base[k];
        match rng.below(20) {
          0..=11 => s.push(c as char),
          12 | 13 => s.push('?'),
          14 | 15 => {
            let o = *rng.pick(ALPHABET);
            if rng.chance(1, 2) {
              s.push_str(&format!("[{}{}]", c as char, o as char));
            } else {
              s.push_str(&format!("[{}{}]", o as char, c as char));
            }
          }
          16 => s.push_str(&range_atom(c)),
          17 => {
            let mut o = *rng.pick(ALPHABET);
            if o == c {
              o = if c == b'_' { b'A' } else { b'_' };
            }
            s.push_str(&format!("[!{}]", o as char));
          }
          _ => {
            s.push('*');
            k += rng.below(3) as usize;
          }
        }
        k += 1;
      }
      match rng.below(8) {
        0 => s.push('*'),
        1 => s.insert(0, '*'),
        _ => {}
      }
      s
    }
    11..=15 => {
      let n = 1 + rng.below(4);
      let mut s = String::new();
      for _ in 0..n {
        match rng.below(10) {
          0..=4 => s.push(*rng.pick(ALPHABET) as char),
          5 => s.push('*'),
          6 => s.push('?'),
          7 => s.push_str(&format!("[{}{}{}]", *rng.pick(ALPHABET) as char, *rng.pick(ALPHABET) as char, *rng.pick(ALPHABET) as char)),
          8 => s.push_str(&range_atom(*rng.pick(ALPHABET))),
          _ => s.push_str(&format!("[!{}]", *rng.pick(ALPHABET) as char)),
        }
      }
      s
    }
    16 | 17 => "*".to_string(),
    _ => rng.pick(pool).clone(),
  };
  let p = collapse_stars(p);
  if p.is_empty() {
    "?".to_string()
  } else {
    p
  }
}

fn gen_doms(rng: &mut Rng, dpool: &[u16]) -> Vec<Dom> {
  let n = 1 + rng.below(3);
  (0..n)
    .map(|_| {
      let a = if rng.chance(3, 4) { *rng.pick(dpool) } else { rng.below(14) as u16 };
      match rng.below(10) {
        0..=4 => Dom::Id(a),
        5 | 6 => {
          let lo = a.saturating_sub(rng.below(3) as u16);
          Dom::Range(Some(lo), Some(a + rng.below(4) as u16))
        }
        7 => Dom::Range(Some(a), None),
        8 => Dom::Range(None, Some(a)),
        _ => {
          if rng.chance(1, 2) {
            Dom::Range(Some(0), Some(*rng.pick(&[232u16, 1000, 65535])))
          } else {
            Dom::Range(Some(a + 3), Some(a)) // empty range
          }
        }
      }
    })
    .collect()
}

fn gen_crit(rng: &mut Rng, topics: &[String], parts: &[String]) -> Crit {
  let nt = 1 + rng.below(3);
  let t = (0..nt).map(|_| gen_pattern(rng, topics)).collect();
  let p = if rng.chance(5, 6) {
    let np = 1 + rng.below(3);
    Some((0..np).map(|_| if rng.chance(1, 5) { "*".to_string() } else { gen_pattern(rng, parts) }).collect())
  } else {
    None
  };
  Crit { topics: t, partitions: p }
}

// ---- time ----
fn civil(unix: i64) -> (i64, i64, i64, i64, i64, i64) {
  let days = unix.div_euclid(86400);
  let secs = unix.rem_euclid(86400);
  let z = days + 719468;
  let era = z.div_euclid(146097);
  let doe = z - era * 146097;
  let yoe = (doe - doe / 1460 + doe / 36524 - doe / 146096) / 365;
  let doy = doe - (365 * yoe + yoe / 4 - yoe / 100);
  let mp = (5 * doy + 2) / 153;
  let d = doy - (153 * mp + 2) / 5 + 1;
  let m = if mp < 10 { mp + 3 } else { mp - 9 };
  let y = yoe + era * 400 + if m <= 2 { 1 } else { 0 };
  (y, m, d, secs / 3600, (secs / 60) % 60, secs % 60)
}

/// xsd:dateTime text for the instant `unix`, in one of the three spellings the spec allows
fn render_time(rng: &mut Rng, unix: i64) -> String {
  let f = |t: i64| {
    let (y, m, d, hh, mm, ss) = civil(t);
    format!("{y:04}-{m:02}-{d:02}T{hh:02}:{mm:02}:{ss:02}")
  };
  match rng.below(4) {
    0 => f(unix),
    1 => format!("{}Z", f(unix)),
    _ => {
      let off_min: i64 = *rng.pick(&[60i64, 120, 330, 540, 765, -60, -300, -480, -210, 0]);
      let sign = if off_min < 0 { '-' } else { '+' };
      format!("{}{}{:02}:{:02}", f(unix + off_min * 60), sign, off_min.abs() / 60, off_min.abs() % 60)
    }
  }
}

const DAY: i64 = 86400;

fn gen_grant(rng: &mut Rng, now: i64, gi: usize, topics: &[String], parts: &[String], dpool: &[u16]) -> Grant {
  // SUBJECTS[4] never has a grant; a repeated subject is the exception
  let subject = SUBJECTS[if rng.chance(4, 5) { gi } else { rng.below(4) as usize }];
  // windows: valid now (most), expired, not yet valid; every bound at least 2 days from now
  let (nb, na) = match rng.below(12) {
    0..=8 => (now - DAY * rng.range(2, 900), now + DAY * rng.range(2, 3000)),
    9 | 10 => {
      let end = now - DAY * rng.range(2, 400);
      (end - DAY * rng.range(1, 900), end)
    }
    _ => {
      let start = now + DAY * rng.range(2, 400);
      (start, start + DAY * rng.range(1, 900))
    }
  };
  // distinct bounds per grant so that a grant is recognisable by its window
  let nb = nb - nb.rem_euclid(60) + gi as i64;
  let na = na - na.rem_euclid(60) + 30 + gi as i64;
  let nrules = 1 + rng.below(5);
  let rules = (0..nrules)
    .map(|_| {
      let sect = |rng: &mut Rng, p_some: u64| -> Vec<Crit> {
        if rng.chance(p_some, 10) {
          let n = 1 + rng.below(2);
          (0..n).map(|_| gen_crit(rng, topics, parts)).collect()
        } else {
          vec![]
        }
      };
      Rule {
        allow: rng.chance(1, 2),
        domains: gen_doms(rng, dpool),
        publish: sect(rng, 8),
        subscribe: sect(rng, 8),
        relay: sect(rng, 3),
      }
    })
    .collect();
  Grant {
    subject,
    not_before: nb,
    not_after: na,
    nb_text: render_time(rng, nb),
    na_text: render_time(rng, na),
    rules,
    default_allow: rng.chance(1, 2),
  }
}

fn crit_xml(tag: &str, c: &Crit) -> String {
  let mut s = format!("        <{tag}>\n          <topics>\n");
  for t in &c.topics {
    s.push_str(&format!("            <topic>{t}</topic>\n"));
  }
  s.push_str("          </topics>\n");
  if let Some(ps) = &c.partitions {
    s.push_str("          <partitions>\n");
    for p in ps {
      s.push_str(&format!("            <partition>{p}</partition>\n"));
    }
    s.push_str("          </partitions>\n");
  }
  s.push_str(&format!("        </{tag}>\n"));
  s
}

fn permissions_xml(grants: &[Grant]) -> String {
  let mut s = String::from("<?xml version=\"1.0\" encoding=\"UTF-8\"?>\n<dds xmlns:xsi=\"http://www.w3.org/2001/XMLSchema-instance\"\n    xsi:noNamespaceSchemaLocation=\"http://www.omg.org/spec/DDS-Security/20170901/omg_shared_ca_permissions.xsd\">\n  <permissions>\n");
  for (gi, g) in grants.iter().enumerate() {
    s.push_str(&format!("    <grant name=\"g{gi}\">\n      <subject_name>{}</subject_name>\n      <validity>\n        <not_before>{}</not_before>\n        <not_after>{}</not_after>\n      </validity>\n", g.subject, g.nb_text, g.na_text));
    for r in &g.rules {
      let tag = if r.allow { "allow_rule" } else { "deny_rule" };
      s.push_str(&format!("      <{tag}>\n        <domains>\n"));
      for d in &r.domains {
        s.push_str(&d.xml("          "));
      }
      s.push_str("        </domains>\n");
      for c in &r.publish {
        s.push_str(&crit_xml("publish", c));
      }
      for c in &r.subscribe {
        s.push_str(&crit_xml("subscribe", c));
      }
      for c in &r.relay {
        s.push_str(&crit_xml("relay", c));
      }
      s.push_str(&format!("      </{tag}>\n"));
    }
    s.push_str(&format!("      <default>{}</default>\n    </grant>\n", if g.default_allow { "ALLOW" } else { "DENY" }));
  }
  s.push_str("  </permissions>\n</dds>\n");
  s
}

fn governance_xml(rng: &mut Rng, rules: &[DomRule]) -> String {
  let kinds = ["ENCRYPT_WITH_ORIGIN_AUTHENTICATION", "SIGN_WITH_ORIGIN_AUTHENTICATION", "ENCRYPT", "SIGN", "NONE"];
  let basic = ["ENCRYPT", "SIGN", "NONE"];
  let b = |rng: &mut Rng, v: bool| -> &'static str {
    // the xs:boolean literals
    match (v, rng.below(3)) {
      (true, 0) => "1",
      (true, _) => "true",
      (false, 0) => "0",
      (false, _) => "false",
    }
  };
  let mut s = String::from("<?xml version=\"1.0\" encoding=\"UTF-8\"?>\n<dds xmlns:xsi=\"http://www.w3.org/2001/XMLSchema-instance\"\nxsi:noNamespaceSchemaLocation=\"http://www.omg.org/spec/DDS-SECURITY/20170901/omg_shared_ca_governance.xsd\">\n  <domain_access_rules>\n");
  for r in rules {
    s.push_str("    <domain_rule>\n      <domains>\n");
    for d in &r.domains {
      s.push_str(&d.xml("        "));
    }
    s.push_str("      </domains>\n");
    s.push_str(&format!("      <allow_unauthenticated_participants>{}</allow_unauthenticated_participants>\n", b(rng, false)));
    let join = rng.chance(1, 2);
    s.push_str(&format!("      <enable_join_access_control>{}</enable_join_access_control>\n", b(rng, join)));
    s.push_str(&format!("      <discovery_protection_kind>{}</discovery_protection_kind>\n", rng.pick(&kinds)));
    s.push_str(&format!("      <liveliness_protection_kind>{}</liveliness_protection_kind>\n", rng.pick(&kinds)));
    s.push_str(&format!("      <rtps_protection_kind>{}</rtps_protection_kind>\n", rng.pick(&kinds)));
    s.push_str("      <topic_access_rules>\n");
    for t in &r.topic_rules {
      let (dp, lp) = (rng.chance(1, 2), rng.chance(1, 2));
      s.push_str(&format!(
        "        <topic_rule>\n          <topic_expression>{}</topic_expression>\n          <enable_discovery_protection>{}</enable_discovery_protection>\n          <enable_liveliness_protection>{}</enable_liveliness_protection>\n          <enable_read_access_control>{}</enable_read_access_control>\n          <enable_write_access_control>{}</enable_write_access_control>\n          <metadata_protection_kind>{}</metadata_protection_kind>\n          <data_protection_kind>{}</data_protection_kind>\n        </topic_rule>\n",
        t.expr, b(rng, dp), b(rng, lp), b(rng, t.read), b(rng, t.write), rng.pick(&kinds), rng.pick(&basic)
      ));
    }
    s.push_str("      </topic_access_rules>\n    </domain_rule>\n");
  }
  s.push_str("  </domain_access_rules>\n</dds>\n");
  s
}

// ---- reference evaluator ----
const DENY: u8 = 1;
const ALLOW: u8 = 2;
fn bit(allow: bool) -> u8 {
  if allow {
    ALLOW
  } else {
    DENY
  }
}

#[derive(Clone, Copy, PartialEq, Eq, PartialOrd, Ord, Debug)]
enum Tri {
  No,
  Amb,
  Yes,
}

#[derive(Clone, Copy, PartialEq, Eq, Debug)]
enum Action {
  Publish,
  Subscribe,
  Relay,
}

#[derive(Default, Clone, Debug)]
struct PermOutcome {
  mask: u8,
  by: &'static str,
  overlapping: bool, // a later applicable rule has the opposite verdict: order matters
  open: Vec<&'static str>,
  // the verdict under the spec's full text (allow: all partitions, deny: any; no <partitions> = "")
  spec_reading: Option<bool>,
}

fn partition_condition(c: &Crit, parts: &[String], open: &mut Vec<&'static str>) -> Tri {
  let m = |pats: &Vec<String>, name: &str| pats.iter().any(|p| fnmatch(p.as_bytes(), name.as_bytes()));
  match (&c.partitions, parts.is_empty()) {
    (None, true) => Tri::Yes,
    (None, false) => {
      open.push("rule-without-partitions-element");
      Tri::Amb
    }
    (Some(pats), true) => {
      if m(pats, "") {
        Tri::Yes
      } else {
        open.push("entity-without-partitions");
        Tri::Amb
      }
    }
    (Some(pats), false) => {
      let n = parts.iter().filter(|p| m(pats, p)).count();
      if n == parts.len() {
        Tri::Yes
      } else if n == 0 {
        Tri::No
      } else {
        open.push("only-some-partitions-match");
        Tri::Amb
      }
    }
  }
}

// the spec's full text (9.4.1.3.2.3.1.4 / 9.4.1.3.2.3.2.4), used for information only
fn partition_condition_spec(c: &Crit, parts: &[String], allow_rule: bool) -> bool {
  let default_pat = vec![String::new()];
  let pats = c.partitions.as_ref().unwrap_or(&default_pat);
  let default_part = vec![String::new()];
  let parts = if parts.is_empty() { &default_part[..] } else { parts };
  let m = |name: &String| pats.iter().any(|p| fnmatch(p.as_bytes(), name.as_bytes()));
  if allow_rule {
    parts.iter().all(m)
  } else {
    parts.iter().any(m)
  }
}

fn grant_eval(g: &Grant, action: Action, domain: u16, topic: &str, parts: &[String]) -> PermOutcome {
  let mut out = PermOutcome::default();
  let mut first: Option<bool> = None;
  for r in &g.rules {
    if !r.domains.iter().any(|d| d.matches(domain)) {
      continue;
    }
    let crits = match action {
      Action::Publish => &r.publish,
      Action::Subscribe => &r.subscribe,
      Action::Relay => &r.relay,
    };
    let mut tri = Tri::No;
    let mut spec = false;
    for c in crits {
      if !c.topics.iter().any(|p| fnmatch(p.as_bytes(), topic.as_bytes())) {
        continue;
      }
      let mut why = vec![];
      let t = partition_condition(c, parts, &mut why);
      if t == Tri::Amb && first.is_none() {
        out.open.extend(why);
      }
      tri = tri.max(t);
      spec |= partition_condition_spec(c, parts, r.allow);
    }
    if spec && out.spec_reading.is_none() {
      out.spec_reading = Some(r.allow);
    }
    match (tri, first) {
      (Tri::Yes, None) => {
        first = Some(r.allow);
        out.mask |= bit(r.allow);
        out.by = "rule";
      }
      (Tri::Yes, Some(v)) => {
        if v != r.allow {
          out.overlapping = true;
        }
      }
      (Tri::Amb, None) => out.mask |= bit(r.allow),
      _ => {}
    }
  }
  if first.is_none() {
    out.mask |= bit(g.default_allow);
    out.by = "default";
  }
  if out.spec_reading.is_none() {
    out.spec_reading = Some(g.default_allow);
  }
  out
}

struct World {
  now: i64,
  grants: Vec<Grant>,
  gov: Vec<DomRule>,
}

impl World {
  fn valid_grants(&self, subject: &str) -> Vec<&Grant> {
    self.grants.iter().filter(|g| g.subject == subject && g.not_before < self.now && self.now < g.not_after).collect()
  }
  fn perm(&self, subject: &str, action: Action, domain: u16, topic: &str, parts: &[String]) -> PermOutcome {
    let vg = self.valid_grants(subject);
    if vg.is_empty() {
      return PermOutcome { mask: DENY, by: "no-valid-grant", spec_reading: Some(false), ..Default::default() };
    }
    let mut it = vg.iter().map(|g| grant_eval(g, action, domain, topic, parts));
    let mut o = it.next().unwrap();
    for x in it {
      if x.mask != o.mask || x.mask.count_ones() > 1 {
        o.open.push("several-valid-grants-for-the-subject");
      }
      o.mask |= x.mask;
      o.overlapping |= x.overlapping;
    }
    o
  }
  /// (enable_read_access_control, enable_write_access_control) of the first matching topic
  /// rule of the first domain rule matching the participant's domain (9.4.1.2.7)
  fn gov_flags(&self, domain: u16, topic: &str) -> Option<(bool, bool)> {
    let dr = self.gov.iter().find(|r| r.domains.iter().any(|d| d.matches(domain)))?;
    dr.topic_rules.iter().find(|t| fnmatch(t.expr.as_bytes(), topic.as_bytes())).map(|t| (t.read, t.write))
  }
}

struct Expect {
  mask: u8,
  by: String,
  overlapping: bool,
  open: Vec<&'static str>,
}

/// kind: 0 writer, 1 reader, 2 topic
fn expect(w: &World, subject: &str, domain: u16, topic: &str, parts: &[String], kind: u8) -> Expect {
  let flags = w.gov_flags(domain, topic);
  let no_grant = w.valid_grants(subject).is_empty();
  let mut open: Vec<&'static str> = vec![];
  if kind < 2 {
    let p = w.perm(subject, if kind == 0 { Action::Publish } else { Action::Subscribe }, domain, topic, parts);
    let protected = flags.map(|(r, wr)| if kind == 0 { wr } else { r });
    match protected {
      None => {
        // 9.4.1.2.7: no matching topic rule -> the operation fails; the statement only says
        // "leaves that access unprotected": judged only when the permissions deny as well
        if p.mask != DENY {
          open.push("no-governance-topic-rule");
        }
        open.extend(p.open.iter());
        Expect { mask: DENY | p.mask, by: format!("no-topic-rule+{}", p.by), overlapping: p.overlapping, open }
      }
      Some(false) => {
        if no_grant {
          open.push("unprotected-topic-but-no-valid-grant");
          Expect { mask: DENY | ALLOW, by: "governance-unprotected".into(), overlapping: false, open }
        } else {
          Expect { mask: ALLOW, by: "governance-unprotected".into(), overlapping: false, open }
        }
      }
      Some(true) => Expect { mask: p.mask, by: p.by.to_string(), overlapping: p.overlapping, open: p.open.clone() },
    }
  } else {
    // topic: the statement does not say which access "that access" is for a topic; take every
    // reading (either flag / both flags; publish-or-subscribe / -or-relay / publish-and-subscribe)
    let pb = w.perm(subject, Action::Publish, domain, topic, parts);
    let sb = w.perm(subject, Action::Subscribe, domain, topic, parts);
    let rl = w.perm(subject, Action::Relay, domain, topic, parts);
    let mut perm_mask = 0u8;
    for p in [false, true] {
      for s in [false, true] {
        for r in [false, true] {
          if pb.mask & bit(p) != 0 && sb.mask & bit(s) != 0 && rl.mask & bit(r) != 0 {
            perm_mask |= bit(p || s) | bit(p || s || r) | bit(p && s);
          }
        }
      }
    }
    open.extend(pb.open.iter());
    open.extend(sb.open.iter());
    open.extend(rl.open.iter());
    let overlapping = pb.overlapping || sb.overlapping;
    let mask = match flags {
      None => {
        if perm_mask != DENY {
          open.push("no-governance-topic-rule");
        }
        DENY | perm_mask
      }
      Some((r, wr)) => {
        let (u_any, u_all) = (!r || !wr, !r && !wr);
        if u_any && no_grant {
          open.push("unprotected-topic-but-no-valid-grant");
          DENY | ALLOW
        } else if u_all {
          ALLOW
        } else if u_any {
          if perm_mask != ALLOW {
            open.push("topic-with-one-access-kind-unprotected");
          }
          ALLOW | perm_mask
        } else {
          perm_mask
        }
      }
    };
    if mask.count_ones() > 1 && open.is_empty() {
      open.push("topic-permission-readings-differ");
    }
    let by = match flags {
      Some((r, wr)) if !r && !wr => "governance-unprotected".to_string(),
      Some((true, true)) if pb.by == sb.by => pb.by.to_string(),
      Some((true, true)) => format!("publish-{}/subscribe-{}", pb.by, sb.by),
      Some(_) => "governance-half-protected".to_string(),
      None => "no-topic-rule".to_string(),
    };
    Expect { mask, by, overlapping, open }
  }
}

const PUBLIC: [&str; 6] = ["check_create_datawriter", "check_create_datareader", "check_create_topic", "check_remote_datawriter", "check_remote_datareader", "check_remote_topic"];
const KIND: [&str; 3] = ["datawriter", "datareader", "topic"];

fn decision_case(seed: u64, now: i64, i: u64, acc: &mut Acc) {
  let mut rng = Rng::derive(seed, STREAM_DEC, i);
  // name pools; a case-flipped twin keeps case sensitivity observable
  let mut topics: Vec<String> = (0..4).map(|_| gen_name(&mut rng)).collect();
  let twin: String = topics[0].chars().map(|c| if c.is_ascii_lowercase() { c.to_ascii_uppercase() } else { c.to_ascii_lowercase() }).collect();
  topics.push(twin);
  let parts: Vec<String> = (0..4).map(|_| gen_name(&mut rng)).collect();
  let dpool: Vec<u16> = (0..3).map(|_| rng.below(14) as u16).collect();
  let ng = 1 + rng.below(4) as usize;
  let grants: Vec<Grant> = (0..ng).map(|gi| gen_grant(&mut rng, now, gi, &topics, &parts, &dpool)).collect();
  // governance: optional specific domain rule(s), then a catch-all domain rule
  let mut gov = vec![];
  let gen_topic_rules = |rng: &mut Rng| -> Vec<TopicRule> {
    // XSD: at least one topic_rule
    let n = rng.below(4);
    let mut v: Vec<TopicRule> = (0..n).map(|_| TopicRule { expr: gen_pattern(rng, &topics), read: rng.chance(2, 3), write: rng.chance(2, 3) }).collect();
    if v.is_empty() || rng.chance(5, 6) {
      v.push(TopicRule { expr: "*".into(), read: rng.chance(3, 4), write: rng.chance(3, 4) });
    }
    v
  };
  if rng.chance(2, 5) {
    gov.push(DomRule { domains: gen_doms(&mut rng, &dpool), topic_rules: gen_topic_rules(&mut rng) });
  }
  gov.push(DomRule {
    domains: vec![if rng.chance(1, 2) { Dom::Range(Some(0), None) } else { Dom::Range(Some(0), Some(65535)) }],
    topic_rules: gen_topic_rules(&mut rng),
  });
  let mut gov_text = governance_xml(&mut rng, &gov);
  let mut perm_text = permissions_xml(&grants);
  // the text verify_signature hands to the parsers: signed MIME header first, CRLF line ends
  if rng.chance(1, 2) {
    gov_text = format!("Content-Type: text/plain\r\n\r\n{}", gov_text.replace('\n', "\r\n"));
    perm_text = format!("Content-Type: text/plain\r\n\r\n{}", perm_text.replace('\n', "\r\n"));
  }
  let w = World { now, grants, gov };
  let replay_docs = || json!({"case": case_json(seed, STREAM_DEC, i), "governance_xml": gov_text, "permissions_xml": perm_text});
  acc.evaluations += 1;
  let docs = match drv::parse_docs(&gov_text, &perm_text) {
    Ok(d) => d,
    Err(e) => {
      acc.violate(
        format!("C18/decision:valid-document-refused-by-the-parser:{}", e.split(':').next().unwrap_or("")),
        json!({"error": short(&e)}),
        replay_docs(),
      );
      return;
    }
  };
  acc.count("document_pairs_parsed", 1);
  if i < 2 {
    acc.sample(replay_docs(), 2);
  }

  // ---- decisions
  let mut nontrivial = false;
  for _q in 0..12 {
    let subject = if rng.chance(1, 12) { SUBJECTS[4] } else { w.grants[rng.below(w.grants.len() as u64) as usize].subject };
    let domain = if rng.chance(4, 5) { *rng.pick(&dpool) } else { rng.below(15) as u16 };
    let topic = if rng.chance(5, 6) { rng.pick(&topics).clone() } else { gen_name(&mut rng) };
    let route = rng.below(10);
    // 0..=5 check_entity with partitions, 6 check_entity without, 7..=9 public functions
    let (kind, qparts, which): (u8, Vec<String>, Option<u8>) = if route <= 5 {
      let n = 1 + rng.below(3);
      let ps = (0..n).map(|_| if rng.chance(4, 5) { rng.pick(&parts).clone() } else { gen_name(&mut rng) }).collect();
      (rng.below(2) as u8, ps, None)
    } else if route == 6 {
      (rng.below(3) as u8, vec![], None)
    } else {
      let wch = rng.below(6) as u8;
      (wch % 3, vec![], Some(wch))
    };
    let dec = match docs.decider(subject, domain) {
      Ok(d) => d,
      Err(e) => {
        acc.violate("C18/decision:no-domain-rule-found-although-one-covers-the-domain", json!({"error": short(&e), "domain": domain}), replay_docs());
        return;
      }
    };
    let got = match which {
      None => dec.check_entity(domain, &topic, &qparts, kind).map(|b| (b, false)),
      Some(wch) => dec.public_check(wch, domain, &topic),
    };
    acc.count("queries", 1);
    let mut ex = expect(&w, subject, domain, &topic, &qparts, kind);
    if which == Some(4) && ex.mask == DENY {
      // remote reader: a relay permission also lets the match pass (relay_only); the statement
      // does not mention relay, so such cases are judged only when relaying is denied too
      let rl = w.perm(subject, Action::Relay, domain, &topic, &qparts);
      if rl.mask != DENY {
        ex.mask |= ALLOW;
        ex.open.push("remote-reader-relay-permission");
      }
    }
    // information only: how the implementation relates to the spec's full partition text
    if kind < 2 && which.is_none() && !qparts.is_empty() {
      let p = w.perm(subject, if kind == 0 { Action::Publish } else { Action::Subscribe }, domain, &topic, &qparts);
      if p.mask.count_ones() > 1 && ex.mask.count_ones() > 1 && w.gov_flags(domain, &topic).map(|(r, wr)| if kind == 0 { wr } else { r }) == Some(true) {
        if let (Some(spec), Ok((b, _))) = (p.spec_reading, &got) {
          acc.count(if spec == *b { "unjudged_partition_corner_agrees_with_spec_text" } else { "unjudged_partition_corner_differs_from_spec_text" }, 1);
          if spec != *b {
            acc.sample(json!({"not_judged_example": "partition corner where the implementation differs from the spec's full text (allow rule: all partitions, deny rule: any partition)", "implementation_granted": b, "spec_text_grants": spec,
              "query": {"subject": subject, "domain": domain, "topic": topic, "partitions": qparts, "entity": KIND[kind as usize]}, "permissions_xml": perm_text}), 3);
          }
        }
      }
    }
    let route_name = which.map(|x| PUBLIC[x as usize]).unwrap_or("check_entity");
    let replay = || {
      let mut v = replay_docs();
      v["query"] = json!({"subject": subject, "domain": domain, "topic": topic, "partitions": qparts, "entity": KIND[kind as usize], "through": route_name});
      v
    };
    if let Err(e) = &got {
      acc.count("decision_errors", 1);
      if e.starts_with("PANIC") {
        acc.count("decision_panics", 1);
      }
    }
    let granted = got.as_ref().map(|x| x.0).unwrap_or(false);
    if ex.mask.count_ones() != 1 {
      acc.count("queries_not_judged", 1);
      for o in ex.open.iter().collect::<std::collections::BTreeSet<_>>() {
        acc.count(&format!("open:{o}"), 1);
      }
      continue;
    }
    let want = ex.mask == ALLOW;
    acc.count("queries_judged", 1);
    acc.count(&format!("judged_through_{}", if which.is_some() { "public_functions" } else if qparts.is_empty() { "check_entity_no_partitions" } else { "check_entity_with_partitions" }), 1);
    acc.count(if want { "judged_allowed" } else { "judged_denied" }, 1);
    let by = ex.by.split('+').next().unwrap_or("").to_string();
    acc.count(&format!("decided_by_{}", if ex.by.replace("no-topic-rule", "").contains("rule") { "rule" } else { by.as_str() }), 1);
    if ex.overlapping {
      acc.count("decided_by_first_of_conflicting_rules", 1);
      nontrivial = true;
    }
    if ex.by.contains("rule") || ex.by.contains("unprotected") {
      nontrivial = true;
    }
    if granted != want {
      acc.violate(
        format!(
          "C18/decision:{}:{}:{}:by-{}{}",
          KIND[kind as usize],
          route_name,
          if granted { "granted-but-documents-deny" } else { "refused-but-documents-allow" },
          ex.by,
          if ex.overlapping { ":conflicting-later-rule" } else { "" }
        ),
        json!({"implementation": got.as_ref().map_err(|e| short(e)), "reference": if want { "allow" } else { "deny" }, "decided_by": ex.by}),
        replay(),
      );
    }
  }
  if nontrivial {
    acc.distinct.insert(fnv64(format!("{gov_text}{perm_text}").as_bytes()));
  }

  // ---- validity windows with an injected clock (find_grant)
  for _ in 0..4 {
    let g = &w.grants[rng.below(w.grants.len() as u64) as usize];
    let subject = g.subject;
    let base = if rng.chance(1, 2) { g.not_before } else { g.not_after };
    let t = base + *rng.pick(&[-DAY, -7200, -3600, -61, -1, 1, 61, 3600, 7200, DAY, 30 * DAY, -30 * DAY]);
    let mine: Vec<&Grant> = w.grants.iter().filter(|x| x.subject == subject).collect();
    if mine.iter().any(|x| x.not_before == t || x.not_after == t) {
      acc.count("validity_boundary_instants_not_judged", 1);
      continue;
    }
    let valid: Vec<&&Grant> = mine.iter().filter(|x| x.not_before < t && t < x.not_after).collect();
    let got = docs.find_grant_at(subject, t);
    acc.count("validity_queries", 1);
    let replay = || {
      let mut v = replay_docs();
      v["query"] = json!({"subject": subject, "now_unix": t, "find_grant": true});
      v
    };
    match got {
      Err(e) => acc.violate("C18/validity:find_grant-failed", json!({"error": short(&e)}), replay()),
      Ok(None) => {
        if valid.is_empty() {
          acc.count("validity_none_valid", 1);
        } else {
          acc.violate(
            "C18/validity:grant-valid-at-the-instant-not-found",
            json!({"valid_windows": valid.iter().map(|x| json!([x.nb_text, x.na_text])).collect::<Vec<_>>()}),
            replay(),
          );
        }
      }
      Ok(Some(v)) => {
        let same = |x: &Grant| x.not_before == v.not_before && x.not_after == v.not_after && x.default_allow == v.default_allow && x.rules.len() == v.rules;
        if valid.iter().any(|x| same(x)) {
          acc.count("validity_valid_grant_found", 1);
        } else if mine.iter().any(|x| same(x)) {
          acc.violate("C18/validity:grant-used-outside-its-validity-window", json!({"found_window_unix": [v.not_before, v.not_after], "instant": t}), replay());
        } else {
          acc.violate(
            "C18/validity:window-read-differently-from-the-document",
            json!({"found_window_unix": [v.not_before, v.not_after], "document_windows": mine.iter().map(|x| json!([x.nb_text, x.na_text, x.not_before, x.not_after])).collect::<Vec<_>>()}),
            replay(),
          );
        }
      }
    }
  }
}

// =====================================================================================
// front end
// =====================================================================================

pub fn run_c18(args: &Args) -> i32 {
  let mut rep = Report::new(
    args,
    "signature leg: each case = (committed S/MIME fixture, region found by the harness's MIME walker {mime-head, content, part-boundary, pkcs7-base64, tail}, one single-byte alteration of class {flip, replace, delete, insert, case, white-space/line-break}) at a sampled position, run through SignedDocument::from_bytes + verify_signature (every 8th also through validate_local_permissions / validate_remote_permissions); plus the fixed rule-(iii) set (foreign CA, wrong CA certificate, transplanted signatures between all fixture pairs, unsigned/truncated/re-framed documents); distinct = hash of (fixture, edit). decision leg: each case = random governance (1-2 domain rules, 0-5 topic rules) + permissions document (1-4 grants, 1-5 allow/deny rules, domain values/ranges, topic/partition patterns from {literal,*,?,[abc],[a-c],[!x]}, validity windows around now in three xsd:dateTime spellings, default ALLOW/DENY) rendered to XML, parsed by the real parsers, 12 queries (subject, domain, topic, 0-3 partitions, writer/reader/topic, through check_entity or check_create_*/check_remote_*) and 4 find_grant queries with an injected clock, compared with the reference evaluator; distinct/non-trivial = document pair with at least one judged query decided by a rule or by the governance (not by the default)",
  );
  rep.assume("rule (i) is applied to edits strictly inside the signed MIME part that change its text when line ends are compared leniently (any run of CRs before an LF is one line end, as in openssl's S/MIME canonicalisation); pure line-end re-encodings of the signed part, signature transplants between documents with the same XML payload, and every edit outside the signed part (including the line break that belongs to the following delimiter) fall under rule (ii): acceptance is allowed iff the returned document is byte-identical to the originally signed content");
  rep.assume("rejecting a valid document is not judged (the statement says 'accepted only if'); the run is inconclusive unless the unaltered fixtures are accepted and the harness's MIME walker extracts the same content as the implementation returns");
  rep.assume("an Err (or panic) of a check function counts as 'not allowed'; panics are counted, not judged here");
  rep.assume("not judged (verdict set of the reference evaluator is not a singleton): entity with an empty partition list against a rule whose partition expressions do not match the empty string; rule without a <partitions> element against an entity with partitions; entity with several partitions of which only some match (spec: allow rules need all, deny rules need any; implementation: all for both); subject with several currently valid grants that disagree; topic matched by no governance topic rule unless the permissions deny as well; unprotected topic when the subject has no currently valid grant (implementation returns an error); remote reader admitted through a relay permission; topic entities unless every reading (either/both access kinds unprotected, publish-or-subscribe[-or-relay] / publish-and-subscribe) agrees");
  rep.assume("never generated: data tags, builtin DCPS* topic names, adjacent '*' in a pattern, '/', leading '.', backslash, ']' or '^' first in a bracket, empty names, subject names written differently from the grant's text, 'now' within 2 days of a validity bound for check_* (real clock) or exactly on a bound for find_grant (injected clock)");
  rep.assume("governance: the first domain rule matching the participant's domain and its first topic rule matching the topic decide (9.4.1.2.7); the generated governance always has a domain rule covering the queried domain");

  // ---- fixtures
  let ca = read(args, "permissions_ca.cert.pem");
  let foreign_ca = read(args, "foreign_ca.cert.pem");
  let identity = read(args, "identity_cert.pem");
  let mut acc = Acc::default();
  let mut valid = vec![];
  for (name, is_gov, domain) in VALID_FIXTURES {
    let bytes = read(args, name);
    let sp = match split(&bytes) {
      Some(s) => s,
      None => {
        acc.inconclusive.push(format!("fixture {name}: MIME walker cannot split it"));
        continue;
      }
    };
    let content_canon = canon(&bytes[sp.c_start..sp.c_end]);
    match drv::verify_signed_document(&bytes, &ca) {
      Ok(got) => {
        acc.count("valid_fixtures_accepted", 1);
        if got == content_canon {
          acc.count("walker_content_equals_returned_content", 1);
          valid.push(Fixture { name, is_governance: is_gov, domain, bytes, split: sp, content_canon });
        } else {
          acc.inconclusive.push(format!("fixture {name}: walker content differs from the content verify_signature returns"));
        }
      }
      Err(e) => {
        acc.count("valid_fixtures_rejected", 1);
        rep.extra.insert(format!("rejected_valid_fixture_{name}"), json!(short(&e)));
      }
    }
  }
  let gov_ok = valid.iter().position(|f| f.name == "governance.p7s");
  let perm_ok = valid.iter().position(|f| f.name == "permissions.p7s");
  if let (Some(gov_ok), Some(perm_ok)) = (gov_ok, perm_ok) {
    let cx = SigCtx { ca, foreign_ca, identity, valid, gov_ok, perm_ok };
    // the unaltered pair through the entry points
    match drv::entry_validate_local(&cx.ca, &cx.valid[gov_ok].bytes, &cx.valid[perm_ok].bytes, &cx.identity, 0) {
      Ok(mut e) => {
        acc.count("entry_unaltered_pair_accepted", 1);
        if e.validate_remote(&cx.identity, &cx.valid[perm_ok].bytes).is_ok() {
          acc.count("entry_unaltered_remote_accepted", 1);
        }
        // the shipped documents: Square is protected and allowed for participant1, anything else has no topic rule and is denied by default
        for (wch, topic, want) in [(0u8, "Square", true), (1, "Square", true), (3, "Square", true), (0, "Circle", false), (1, "Circle", false)] {
          let got = e.public_check(None, wch, 0, topic).map(|x| x.0).unwrap_or(false);
          acc.count("entry_shipped_decisions", 1);
          if got != want {
            acc.violate(format!("C18/decision:shipped-documents:{}:{topic}", PUBLIC[wch as usize]), json!({"got": got, "want": want}), json!({"case": {"seed": args.seed, "stream": "shipped", "index": 0}, "topic": topic}));
          }
        }
      }
      Err(e) => {
        rep.extra.insert("entry_unaltered_pair_error".into(), json!(short(&e)));
      }
    }
    sig_structural(&cx, args, &mut acc);
    let nsig = args.scale(100_000, 1_500_000);
    let seed = args.seed;
    let only = crate::replay_index(args);
    let sacc = par_cases(args.threads(), nsig, |i, acc| {
      if only.map_or(true, |o| o == i) {
        sig_case(&cx, seed, i, acc);
      }
    });
    acc.merge(sacc);
  } else {
    acc.inconclusive.push("the shipped governance.p7s / permissions.p7s are not usable".into());
  }

  // ---- decision leg
  let now = std::time::SystemTime::now().duration_since(std::time::UNIX_EPOCH).map(|d| d.as_secs() as i64).unwrap_or(0);
  rep.extra.insert("now_unix".into(), json!(now));
  let ndec = args.scale(40_000, 500_000);
  let seed = args.seed;
  let only = crate::replay_index(args);
  let dacc = par_cases(args.threads(), ndec, |i, acc| {
    if only.map_or(true, |o| o == i) {
      decision_case(seed, now, i, acc);
    }
  });
  acc.merge(dacc);

  if args.replay.is_none() {
    rep.require("valid_fixtures_accepted", 5);
    rep.require("walker_content_equals_returned_content", 5);
    rep.require("entry_unaltered_pair_accepted", 1);
    rep.require("entry_unaltered_remote_accepted", 1);
    rep.require("foreign_documents_valid_under_their_own_ca", 2);
    rep.require("transplants", 20);
    rep.require("sig_content_alteration_rejected", 2_000);
    rep.require("sig_accepted_identical_content", 500);
    rep.require("entry_local_rejected", 500);
    rep.require("entry_remote_rejected", 200);
    rep.require("queries_judged", 20_000);
    rep.require("judged_allowed", 3_000);
    rep.require("judged_denied", 3_000);
    rep.require("decided_by_rule", 3_000);
    rep.require("decided_by_first_of_conflicting_rules", 300);
    rep.require("decided_by_governance-unprotected", 1_000);
    rep.require("decided_by_default", 1_000);
    rep.require("judged_through_check_entity_with_partitions", 3_000);
    rep.require("judged_through_public_functions", 3_000);
    rep.require("validity_valid_grant_found", 3_000);
    rep.require("validity_none_valid", 3_000);
  }
  rep.finish(acc)
}
