//! C07 front end: see stk2.rs.
use serde_json::json;

use crate::{
  ctx::{Acc, Args, Report},
  prng::Rng,
  shard, stk2,
};

/// governance fixtures of the secure leg (fixtures/c07sec/gov_<name>.p7s): what they protect is in make_fixtures.sh
pub const GOVERNANCES: [&str; 8] = ["none", "sign", "encrypt", "origin", "signorigin", "payload", "submsg", "rtpsonly"];

pub fn e2e_cases(args: &Args, ncases: u64, stream: u64) -> Acc {
  e2e_cases_leg(args, ncases, stream, None)
}

/// `leg` = Some(("secure", path of the security build of this harness)): the same engine between participants
/// that all carry the builtin security plugins, one governance document per scenario
pub fn e2e_cases_leg(args: &Args, ncases: u64, stream: u64, leg: Option<(String, std::path::PathBuf)>) -> Acc {
  let seed = args.seed;
  let replay_case = crate::replay_index(args);
  let fixtures = args.verif_dir.join("fixtures/c07sec");
  shard::run_sharded_with(args, ncases + PINNED, args.threads(), "C07", leg, move |i, acc, br| {
    if replay_case.map_or(false, |rc| rc != i) {
      return;
    }
    install_probe_logger();
    install_panic_counter();
    if std::env::var("VERIF_LEG").map_or(false, |l| l == "secure") {
      secure_case(seed, stream, i, ncases, &fixtures, acc, br);
      return;
    }
    let domain: u16 = std::env::var("VERIF_DOMAIN").ok().and_then(|s| s.parse().ok()).unwrap_or(50);
    let mut rng = Rng::derive(seed, stream, i);
    let sc = if i < ncases { stk2::gen_scenario(&mut rng) } else { pinned_scenario(PINNED_IDS[(i - ncases) as usize]) };
    if i >= ncases {
      acc.count("e2e_pinned_witness_scenarios_run", 1);
    }
    let tag = json!({"seed": seed, "stream": stream, "index": i, "engine": "stack-real-participants"});
    br.set_case(json!({"case": tag, "scenario": stk2::scenario_json(&sc)}));
    let out = run_with_one_retry(&sc, None, domain, acc, &tag, i, "e2e_");
    acc.count("e2e_panics_of_library_threads_observed_not_judged", take_lib_thread_panics());
    acc.evaluations += 1;
    acc.count("e2e_pairs_expected_to_match", out.pairs_expected);
    acc.count("e2e_status_events_observed", out.match_events);
    acc.count("e2e_unmatches_observed_after_deletion", out.unmatch_events);
    acc.count("e2e_items_written", out.items_written);
    acc.count("e2e_values_received_and_compared", out.items_received);
    acc.count("e2e_disposes_received", out.disposes_received);
    acc.count("e2e_fragmented_items_written", out.frag_items);
    acc.count("e2e_history_items_received_by_transient_local_late_joiner", out.late_history_items);
    acc.count("e2e_earlier_items_withheld_from_volatile_readers", out.volatile_withheld);
    acc.count("e2e_datagrams_dropped_by_loss_policy", out.dropped);
    acc.count("e2e_endpoints_created_after_a_deletion", out.newcomers);
    acc.count("e2e_outages_longer_than_the_lease", out.partitions);
    acc.count("e2e_pairs_unmatched_by_lease_expiry_during_an_outage", out.pairs_lost_in_partition);
    acc.count("e2e_transient_matches_with_deleted_endpoints_taken_back_in_time", out.ghost_matches);
    acc.count("e2e_best_effort_reader_order_or_duplicate_anomalies_not_judged", out.best_effort_order_anomalies);
    // longest wait of the scenario, as a histogram over scenarios (counters are summed over the shards)
    let bucket = |x: f64| if x < 1.0 { "under_1s" } else if x < 3.0 { "1_to_3s" } else if x < 10.0 { "3_to_10s" } else if x < 40.0 { "10_to_40s" } else { "over_40s_wall" };
    if out.completed {
      acc.count(&format!("e2e_longest_match_wait_{}", bucket(out.max_match_s)), 1);
      acc.count(&format!("e2e_longest_delivery_wait_{}", bucket(out.max_deliver_s)), 1);
    }
    if out.completed && sc.acts.iter().any(|a| matches!(a, stk2::Act::OccupyUserPort(_))) {
      acc.count("e2e_scenarios_completed_with_a_well_known_user_port_already_taken", 1);
    }
    if out.completed {
      acc.count("e2e_scenarios_completed", 1);
      acc.count(if sc.with_key { "e2e_scenarios_with_key" } else { "e2e_scenarios_no_key" }, 1);
      acc.count(if sc.nparts == 3 || sc.late_new_part { "e2e_scenarios_three_or_more_participants" } else { "e2e_scenarios_two_participants" }, 1);
      match sc.del {
        stk2::Del::Endpoint(e) => acc.count(if sc.eps[e].is_writer { "e2e_deletions_writer" } else { "e2e_deletions_reader" }, 1),
        stk2::Del::Part(..) => acc.count("e2e_deletions_participant", 1),
      }
      if out.items_received >= 2 {
        acc.distinct.insert(out.sig);
      }
    }
    if i < 2 {
      acc.sample(json!({"case": tag, "scenario": stk2::scenario_json(&sc), "max_match_wait_s": out.max_match_s, "max_delivery_wait_s": out.max_deliver_s}), 2);
    }
  })
}


/// A scenario whose only complaint, in a phase WITHOUT injected loss, is that a pair was not matched in time is run
/// once more, at once, with fresh participants. Whatever the scenario itself provokes (every seeded change to
/// matching, every pinned witness) fails again and is reported from the second run. An expiry that does not come
/// back is undecided: counted, printed as INCONCLUSIVE-CASE with the scenario, never reported as a violation and
/// never dropped silently. The thorough tier (16 scenarios at a time for an hour) has a few such expiries per
/// thousand scenarios that pass every replay on their own; where loss is injected, and for every delivery rule, an
/// expiry stays a violation, because there the failing history depends on which datagrams were lost and a second
/// run says nothing about the first.
fn run_with_one_retry(sc: &stk2::Sc7, sec: Option<(String, std::path::PathBuf)>, domain: u16, acc: &mut Acc, tag: &serde_json::Value, i: u64, pre: &str) -> stk2::Out7 {
  let is_match_expiry = |sig: &str| sig.starts_with("C07/match:") && sig.contains("within-bound");
  let mut first = Acc::default();
  let out = stk2::run_scenario_sec(sc, sec.clone(), domain, &mut first, tag, i);
  // the first match happens under the discovery loss rate, every later one under the traffic loss rate as well
  let lossless = |sig: &str| sc.loss_disc_ppm == 0 && (sig.contains("compatible-pair-not-matched-within-bound") || sc.loss_ppm == 0);
  if first.violations.is_empty() || first.violations.iter().any(|v| !is_match_expiry(&v.signature) || !lossless(&v.signature)) {
    acc.merge(first);
    return out;
  }
  let first_sigs: Vec<String> = first.violations.iter().map(|v| v.signature.clone()).collect();
  let mut second = Acc::default();
  let out2 = stk2::run_scenario_sec(sc, sec, domain, &mut second, tag, i + 1_000_000);
  if second.violations.is_empty() && second.inconclusive.is_empty() {
    acc.count(&format!("{pre}match_bound_expired_without_injected_loss_once_and_not_again_on_immediate_rerun_not_judged"), 1);
    acc.inconclusive.push(format!("C07 scenario {} ({}): {} on the first run (no loss injected during discovery), nothing on an immediate second run of the same scenario: not reproducible, not judged", tag["index"], tag["leg"].as_str().unwrap_or("plain"), first_sigs.join(" + ")));
    acc.merge(second);
    return out2;
  }
  acc.count(&format!("{pre}match_bound_expired_and_again_on_immediate_rerun"), 1);
  acc.merge(second);
  out2
}

fn secure_case(seed: u64, stream: u64, i: u64, ncases: u64, fixtures: &std::path::Path, acc: &mut Acc, br: &shard::Bracket) {
  let domain: u16 = std::env::var("VERIF_DOMAIN").ok().and_then(|s| s.parse().ok()).unwrap_or(50);
  let mut rng = Rng::derive(seed, stream, i);
  let sc = if i < ncases { stk2::gen_scenario(&mut rng) } else { pinned_scenario(PINNED_IDS[(i - ncases) as usize]) };
  // the governance is drawn from a stream of its own, so the scenario is the one the same index has without security
  let gov = if i < ncases { GOVERNANCES[Rng::derive(seed, stream ^ 0x5ec0_0000, i).below(GOVERNANCES.len() as u64) as usize] } else { GOVERNANCES[1 + ((i - ncases) as usize + seed as usize) % (GOVERNANCES.len() - 1)] };
  // developer aid: replay a case under another governance document
  let forced = std::env::var("VERIF_FORCE_GOV").ok();
  let gov: &str = forced.as_deref().and_then(|f| GOVERNANCES.iter().find(|g| **g == f).copied()).unwrap_or(gov);
  let tag = json!({"seed": seed, "stream": stream, "index": i, "engine": "stack-real-participants", "leg": "secure", "governance": gov});
  br.set_case(json!({"case": tag, "scenario": stk2::scenario_json(&sc)}));
  // violations of this leg carry the leg in their signature, so that a finding of the secure stack is not taken
  // for one of the plain stack
  let mut sub = Acc::default();
  // developer aid: VERIF_FORCE_GOV=plain runs the scenario of this index between participants without security
  let sec = if forced.as_deref() == Some("plain") { None } else { Some((gov.to_string(), fixtures.to_path_buf())) };
  let out = run_with_one_retry(&sc, sec, domain, &mut sub, &tag, i, "secure:");
  for v in sub.violations.iter_mut() {
    v.signature = v.signature.replacen("C07/", "C07/secure:", 1);
  }
  acc.merge(sub);
  acc.evaluations += 1;
  acc.count("secure:panics_of_library_threads_observed_not_judged", take_lib_thread_panics());
  acc.count("secure:pairs_expected_to_match", out.pairs_expected);
  acc.count("secure:status_events_observed", out.match_events);
  acc.count("secure:unmatches_observed_after_deletion", out.unmatch_events);
  acc.count("secure:items_written", out.items_written);
  acc.count("secure:values_received_and_compared", out.items_received);
  acc.count("secure:disposes_received", out.disposes_received);
  acc.count("secure:fragmented_items_written", out.frag_items);
  acc.count("secure:history_items_received_by_transient_local_late_joiner", out.late_history_items);
  acc.count("secure:datagrams_dropped_by_loss_policy", out.dropped);
  acc.count("secure:outages_longer_than_the_lease", out.partitions);
  if out.completed {
    acc.count("secure:scenarios_completed", 1);
    acc.count(&format!("secure:scenarios_completed_governance_{gov}"), 1);
    let bucket = |x: f64| if x < 1.0 { "under_1s" } else if x < 3.0 { "1_to_3s" } else if x < 10.0 { "3_to_10s" } else if x < 40.0 { "10_to_40s" } else { "over_40s_wall" };
    acc.count(&format!("secure:longest_match_wait_{}", bucket(out.max_match_s)), 1);
    if out.items_received >= 2 {
      acc.distinct.insert(out.sig ^ crate::prng::fnv64(gov.as_bytes()));
    }
  }
}

pub fn run_c07(args: &Args) -> i32 {
  let mut rep = Report::new(
    args,
    "two or three real DomainParticipants in one process and domain (real loopback UDP, public API only): participants (started on helper threads), topics, publishers/subscribers, 2-6 readers/writers created in a random dependency-respecting order with random pauses, writers writing before anybody has matched, in one scenario in six with the well-known user-traffic port of one participant id already bound by somebody else (that participant then listens elsewhere); then every compatible pair must report the match on both sides within 40 s of unstalled time; then values (30 sizes, both sides of the 1024-byte fragment limit, every residue mod 4) and disposals are written under seeded datagram loss of 0-20 % on ALL traffic and every reliable reader must hold what a keep-all writer wrote after the match (keep-last: the last d) - identical bytes, writer order, no duplicates; then a late joiner (TransientLocal: must get the retained history; Volatile: must get nothing written before it existed), possibly on a brand-new participant; then a reader / writer / participant is deleted and every matched peer on another participant must report current_count_change -1; then traffic among the survivors; in one scenario in six an outage longer than the 10 s lease (every participant, or only one, stops hearing the others: receive-side tap) after the main traffic, after which everybody must be matched with everybody again and traffic must flow; then (3 scenarios in 4) a new endpoint of the kind that would match what was deleted is created on a surviving participant: it must match every living compatible endpoint, must not report a match with a deleted endpoint whose deletion an endpoint of the same participant has already reported (a match with a deleted endpoint nobody there could observe must be taken back within the unmatch bound), and traffic flows; distinct = hash of scenario; non-trivial = >=2 values compared",
  );
  rep.assume("bounds (40 s each for match, delivery, unmatch) are measured in time during which the harness thread itself was being scheduled (steps of at most 100 ms), so a stalled machine cannot produce a verdict; typical waits are printed as counters");
  rep.assume("a KeepAll writer retains at least the last 32 samples for TransientLocal late joiners (the implementation's resource limit); more than that is not demanded");
  rep.assume("'later samples' for a Volatile reader: a sample counts as earlier only with evidence: some reader anywhere had already taken it when create_datareader was called, or write() had returned more than 5 s before (write() only queues the sample for the participant's event loop); such a sample must not be delivered; anything else may or may not arrive");
  let ncases = args.scale(64, 3000);
  let mut acc = Acc::default();
  let nsec = args.scale(25, 1200);
  if std::env::var("VERIF_LEG").map_or(false, |l| l == "secure") {
    // a shard of the secure leg (child process of the security build): same stream and size as its parent uses below
    let _ = e2e_cases_leg(args, nsec, 0x0708, None);
  }
  // developer aid: VERIF_ONLY_LEG=secure runs the secure leg alone (the evidence then says so: required plain counters are missing)
  let replay_leg = crate::replay_leg(args).or_else(|| std::env::var("VERIF_ONLY_LEG").ok());
  if replay_leg.as_deref().map_or(true, |l| l.is_empty()) {
    acc.merge(e2e_cases(args, ncases, 0x0707));
  }
  // second leg: every participant carries the builtin security plugins (security build of this harness)
  match std::env::var("VERIF_SEC_EXE").ok().map(std::path::PathBuf::from).filter(|p| p.exists()) {
    Some(exe) if replay_leg.as_deref().map_or(true, |l| l == "secure") => {
      acc.merge(e2e_cases_leg(args, nsec, 0x0708, Some(("secure".to_string(), exe))));
      rep.require("secure:scenarios_completed", 12);
      rep.require("secure:values_received_and_compared", 100);
    }
    Some(_) => {}
    None => acc.inconclusive.push("security build of the harness not found (VERIF_SEC_EXE): secure leg not run".to_string()),
  }
  if replay_leg.as_deref().map_or(false, |l| l == "secure") {
    return rep.finish(acc);
  }
  // third leg, engine level (no sockets, no threads): a best-effort Volatile reader that joins late next to a
  // reliable reader of the same writer in one participant; the writer repairs earlier samples to the reliable one
  if replay_leg.as_deref().map_or(true, |l| l == "late-best-effort-sibling") {
    let seed = args.seed;
    let replay_case = crate::replay_index(args);
    let n = args.scale(6000, 300_000);
    acc.merge(crate::ctx::par_cases(args.threads(), n, |i, acc| {
      if replay_case.map_or(false, |rc| rc != i) {
        return;
      }
      let mut rng = Rng::derive(seed, 0x0709, i);
      let case = crate::sib::gen_case_kind(&mut rng, true);
      let tag = json!({"seed": seed, "stream": 0x0709, "index": i, "engine": "wire-two-local-readers", "leg": "late-best-effort-sibling"});
      let o = crate::sib::run_case(&case, acc, &tag);
      acc.evaluations += 1;
      acc.count("sibling:cases", 1);
      acc.count("sibling:samples_handed_to_the_best_effort_late_joiner", o.be_handed);
      acc.count("sibling:of_those_addressed_to_the_other_reader_only_not_judged", o.be_handed_not_sent_to_it);
      acc.count("sibling:samples_handed_to_the_reliable_reader", o.handed - o.be_handed);
      if o.nontrivial && o.be_handed > 0 {
        acc.distinct.insert(o.sig);
      }
    }));
    rep.require("sibling:samples_handed_to_the_best_effort_late_joiner", 1000);
    if replay_leg.is_some() {
      return rep.finish(acc);
    }
  }
  rep.require("e2e_scenarios_completed", 20);
  rep.require("e2e_values_received_and_compared", 200);
  rep.require("e2e_unmatches_observed_after_deletion", 5);
  rep.finish(acc)
}

/// Panics of the library's own threads ("RustDDS ..." thread names) while a scenario runs: counted and shown in the
/// evidence, not judged by C07 (no rule of the statement speaks of them; see DESIGN.md section 6).
static LIB_THREAD_PANICS: std::sync::atomic::AtomicU64 = std::sync::atomic::AtomicU64::new(0);
fn install_panic_counter() {
  static ONCE: std::sync::Once = std::sync::Once::new();
  ONCE.call_once(|| {
    let prev = std::panic::take_hook();
    std::panic::set_hook(Box::new(move |info| {
      if std::thread::current().name().map_or(false, |n| n.starts_with("RustDDS")) {
        LIB_THREAD_PANICS.fetch_add(1, std::sync::atomic::Ordering::SeqCst);
      }
      prev(info);
    }));
  });
}
fn take_lib_thread_panics() -> u64 {
  LIB_THREAD_PANICS.swap(0, std::sync::atomic::Ordering::SeqCst)
}

fn install_probe_logger() {
  struct L;
  impl log::Log for L {
    fn enabled(&self, m: &log::Metadata) -> bool {
      m.target().starts_with("rustdds")
    }
    fn log(&self, r: &log::Record) {
      let s = format!("{}", r.args());
      if self.enabled(r.metadata()) && std::env::var("VERIF_PROBE_GREP").map_or(false, |g| g.split('|').any(|x| s.contains(x) || r.target().contains(x))) {
        eprintln!("{:.4} [{:?}] {} {}: {}", std::time::SystemTime::now().duration_since(std::time::UNIX_EPOCH).map_or(0.0, |d| (d.as_secs() % 1000) as f64 + d.subsec_nanos() as f64 * 1e-9), std::thread::current().name(), r.level(), r.target(), s.chars().take(300).collect::<String>());
      }
    }
    fn flush(&self) {}
  }
  static LOGGER: L = L;
  if std::env::var("VERIF_PROBE_GREP").is_ok() {
    let _ = log::set_logger(&LOGGER);
    log::set_max_level(if std::env::var("VERIF_PROBE_LEVEL").map_or(false, |l| l == "trace") { log::LevelFilter::Trace } else { log::LevelFilter::Debug });
  }
}

/// Hand-built scenarios that are always part of the run: the deterministic witnesses of the defects this
/// check has found (1-3 repaired, 4 open, see known_findings.json).
/// 1: reader created on a participant that already knows the writer; 2: writer created 4 s after the
/// peer's reader was announced, late joiner on a new participant; 3: late reader on the writer's own
/// participant; 4: TransientLocal late joiner next to a Volatile reader that missed the early samples (open);
/// 5, 6: developer probes; 7: new participant after a writer was deleted; 8: total outage longer than the
/// lease, then heal; 9: one-sided outage; 10: TransientLocal and Volatile readers side by side under loss (open)
pub fn pinned_scenario(which: u64) -> stk2::Sc7 {
  use stk2::*;
  let w = EpSpec { part: 0, is_writer: true, reliable: true, tl: false, explicit_durability: true, depth: None };
  let r = EpSpec { part: 1, is_writer: false, reliable: true, tl: false, explicit_durability: true, depth: None };
  match which {
    1 => Sc7 {
      with_key: true,
      nparts: 2,
      eps: vec![w, r.clone(), r],
      acts: vec![Act::Part(0), Act::Part(1), Act::Topic(0), Act::Topic(1), Act::PubSub(0), Act::PubSub(1), Act::Ep(0), Act::Ep(1)],
      loss_disc_ppm: 0,
      loss_ppm: 0,
      main: vec![(0, Item::Val { key: 1, n: 0, len: 10 })],
      late: 2,
      late_new_part: false,
      post: vec![(0, Item::Val { key: 1, n: 1, len: 10 })],
      del: Del::Endpoint(1),
      after: vec![(0, Item::Val { key: 1, n: 2, len: 10 })],
      newcomer: None,
      newcomer_items: vec![],
      partition_s: 0,
      partition_only: None,
      healed_items: vec![],
    },
    4 => Sc7 {
      with_key: true,
      nparts: 2,
      eps: vec![EpSpec { tl: true, ..w.clone() }, r.clone(), EpSpec { tl: true, ..r.clone() }],
      acts: vec![
        Act::Part(0),
        Act::Part(1),
        Act::Topic(0),
        Act::Topic(1),
        Act::PubSub(0),
        Act::PubSub(1),
        Act::Ep(0),
        Act::Early(0, vec![Item::Val { key: 1, n: 0, len: 10 }, Item::Val { key: 1, n: 1, len: 10 }]),
        Act::Sleep(6000),
        Act::Ep(1),
      ],
      loss_disc_ppm: 0,
      loss_ppm: 0,
      main: vec![(0, Item::Val { key: 1, n: 2, len: 10 }), (0, Item::Val { key: 1, n: 3, len: 10 })],
      late: 2,
      late_new_part: false,
      post: vec![(0, Item::Val { key: 1, n: 4, len: 10 })],
      del: Del::Endpoint(1),
      after: vec![(0, Item::Val { key: 1, n: 5, len: 10 })],
      newcomer: None,
      newcomer_items: vec![],
      partition_s: 0,
      partition_only: None,
      healed_items: vec![],
    },
    5 | 6 => Sc7 {
      with_key: true,
      nparts: 2,
      eps: vec![w.clone(), EpSpec { part: 0, reliable: false, ..r.clone() }, EpSpec { part: 0, ..r.clone() }],
      acts: vec![Act::Part(0), Act::Part(1), Act::Topic(0), Act::Topic(1), Act::PubSub(0), Act::PubSub(1), Act::Ep(0), Act::Ep(1)],
      loss_disc_ppm: 0,
      loss_ppm: 0,
      main: vec![(0, Item::Val { key: 1, n: 0, len: 10 }), (0, Item::Val { key: 1, n: 1, len: if which == 5 { 5002 } else { 12 } })],
      late: 2,
      late_new_part: false,
      post: vec![(0, Item::Val { key: 1, n: 2, len: 10 })],
      del: Del::Endpoint(1),
      after: vec![(0, Item::Val { key: 1, n: 3, len: 10 })],
      newcomer: None,
      newcomer_items: vec![],
      partition_s: 0,
      partition_only: None,
      healed_items: vec![],
    },
    7 => Sc7 {
      // a writer is deleted, then a brand-new participant with a reader appears: it must not stay matched with the dead writer
      with_key: true,
      nparts: 2,
      eps: vec![w.clone(), r.clone(), EpSpec { part: 1, ..r.clone() }, EpSpec { part: 2, ..r.clone() }],
      acts: vec![Act::Part(0), Act::Part(1), Act::Topic(0), Act::Topic(1), Act::PubSub(0), Act::PubSub(1), Act::Ep(0), Act::Ep(1)],
      loss_disc_ppm: 0,
      loss_ppm: 0,
      main: vec![(0, Item::Val { key: 1, n: 0, len: 10 })],
      late: 2,
      late_new_part: false,
      post: vec![(0, Item::Val { key: 1, n: 1, len: 10 })],
      del: Del::Endpoint(0),
      after: vec![],
      newcomer: Some(3),
      newcomer_items: vec![],
      partition_s: 0,
      partition_only: None,
      healed_items: vec![],
    },
    11 => Sc7 {
      // a best-effort Volatile reader next to a TransientLocal reader of the same TransientLocal writer: the history
      // sample repaired to the TransientLocal one (addressed to it alone) is also handed to the best-effort one,
      // because best-effort DataReaders read the topic's shared cache by reception time
      with_key: false,
      nparts: 2,
      eps: vec![
        EpSpec { tl: true, ..w.clone() },
        EpSpec { tl: true, ..r.clone() },
        EpSpec { reliable: false, ..r.clone() },
        EpSpec { part: 0, tl: true, ..r.clone() },
        EpSpec { tl: true, ..r.clone() },
      ],
      acts: vec![
        Act::Part(0),
        Act::Part(1),
        Act::Topic(0),
        Act::PubSub(0),
        Act::Ep(3),
        Act::Ep(0),
        Act::Early(0, vec![Item::Val { key: 0, n: 0, len: 10 }]),
        Act::Sleep(1500),
        Act::Topic(1),
        Act::PubSub(1),
        Act::Ep(2),
        Act::Sleep(300),
        Act::Ep(1),
      ],
      loss_disc_ppm: 0,
      loss_ppm: 0,
      main: vec![(0, Item::Val { key: 0, n: 1, len: 10 })],
      late: 4,
      late_new_part: false,
      post: vec![(0, Item::Val { key: 0, n: 2, len: 10 })],
      del: Del::Endpoint(1),
      after: vec![(0, Item::Val { key: 0, n: 3, len: 10 })],
      newcomer: None,
      newcomer_items: vec![],
      partition_s: 0,
      partition_only: None,
      healed_items: vec![],
    },
    12 => Sc7 {
      // the well-known user-traffic port of the writer's participant is taken, so it listens elsewhere; a
      // TransientLocal late joiner on the other participant asks for the history with ACKNACKs, which go to the
      // unicast locator the WRITER was announced with
      with_key: true,
      nparts: 2,
      eps: vec![EpSpec { tl: true, ..w.clone() }, EpSpec { tl: true, ..r.clone() }, EpSpec { tl: true, ..r.clone() }],
      acts: vec![
        Act::OccupyUserPort(0),
        Act::Part(0),
        Act::Sleep(300),
        Act::Part(1),
        Act::Topic(0),
        Act::Topic(1),
        Act::PubSub(0),
        Act::PubSub(1),
        Act::Ep(0),
        Act::Ep(1),
        Act::Early(0, vec![Item::Val { key: 1, n: 0, len: 10 }, Item::Val { key: 1, n: 1, len: 2049 }]),
      ],
      loss_disc_ppm: 0,
      loss_ppm: 0,
      main: vec![(0, Item::Val { key: 1, n: 2, len: 10 })],
      late: 2,
      late_new_part: false,
      post: vec![(0, Item::Val { key: 1, n: 3, len: 10 })],
      del: Del::Endpoint(1),
      after: vec![(0, Item::Val { key: 1, n: 4, len: 10 })],
      newcomer: None,
      newcomer_items: vec![],
      partition_s: 0,
      partition_only: None,
      healed_items: vec![],
    },
    10 => Sc7 {
      // the second constellation of the open shared-TopicCache finding: a TransientLocal reader and a Volatile
      // reader of one TransientLocal writer on one participant, early samples, then traffic under 10 % loss
      with_key: true,
      nparts: 2,
      eps: vec![
        EpSpec { tl: true, ..w.clone() },
        EpSpec { tl: true, ..r.clone() },
        r.clone(),
        EpSpec { tl: true, ..r.clone() },
        r.clone(),
      ],
      acts: vec![
        Act::Part(0),
        Act::Part(1),
        Act::Topic(0),
        Act::Topic(1),
        Act::PubSub(0),
        Act::PubSub(1),
        Act::Ep(0),
        Act::Early(0, (0..6).map(|n| Item::Val { key: n % 3, n, len: if n == 2 { 987 } else { 7 } }).collect()),
        Act::Ep(1),
        Act::Sleep(30),
        Act::Ep(2),
        Act::Ep(3),
      ],
      loss_disc_ppm: 0,
      loss_ppm: 100_000,
      main: (6..39).map(|n| (0usize, Item::Val { key: n % 3, n, len: if n % 7 == 0 { 2049 } else { 12 } })).collect(),
      late: 4,
      late_new_part: false,
      post: vec![(0, Item::Val { key: 1, n: 39, len: 10 })],
      del: Del::Endpoint(3),
      after: vec![(0, Item::Val { key: 1, n: 40, len: 10 })],
      newcomer: None,
      newcomer_items: vec![],
      partition_s: 0,
      partition_only: None,
      healed_items: vec![],
    },
    8 | 9 => Sc7 {
      // total silence for 15 s (lease 10 s), then heal: the pair must match again and traffic must flow
      with_key: true,
      nparts: 2,
      eps: vec![w.clone(), r.clone(), EpSpec { part: 1, ..r.clone() }],
      acts: vec![Act::Part(0), Act::Part(1), Act::Topic(0), Act::Topic(1), Act::PubSub(0), Act::PubSub(1), Act::Ep(0), Act::Ep(1)],
      loss_disc_ppm: 0,
      loss_ppm: 0,
      main: vec![(0, Item::Val { key: 1, n: 0, len: 10 })],
      late: 2,
      late_new_part: false,
      post: vec![(0, Item::Val { key: 1, n: 2, len: 10 })],
      del: Del::Endpoint(1),
      after: vec![],
      newcomer: None,
      newcomer_items: vec![],
      partition_s: 15,
      partition_only: if which == 9 { Some(1) } else { None },
      healed_items: vec![(0, Item::Val { key: 1, n: 1, len: 10 })],
    },
    3 => Sc7 {
      with_key: true,
      nparts: 2,
      eps: vec![w, r.clone(), EpSpec { part: 0, ..r }],
      acts: vec![Act::Part(0), Act::Part(1), Act::Topic(0), Act::Topic(1), Act::PubSub(0), Act::PubSub(1), Act::Ep(0), Act::Ep(1)],
      loss_disc_ppm: 0,
      loss_ppm: 0,
      main: vec![(0, Item::Val { key: 1, n: 0, len: 10 })],
      late: 2,
      late_new_part: false,
      post: vec![(0, Item::Val { key: 1, n: 1, len: 10 })],
      del: Del::Endpoint(1),
      after: vec![(0, Item::Val { key: 1, n: 2, len: 10 })],
      newcomer: None,
      newcomer_items: vec![],
      partition_s: 0,
      partition_only: None,
      healed_items: vec![],
    },
    _ => Sc7 {
      with_key: true,
      nparts: 2,
      eps: vec![w, r.clone(), EpSpec { part: 2, ..r }],
      acts: vec![Act::Part(0), Act::Part(1), Act::Topic(0), Act::Topic(1), Act::PubSub(0), Act::PubSub(1), Act::Ep(1), Act::Sleep(4000), Act::Ep(0)],
      loss_disc_ppm: 0,
      loss_ppm: 0,
      main: vec![(0, Item::Val { key: 1, n: 0, len: 10 })],
      late: 2,
      late_new_part: true,
      post: vec![(0, Item::Val { key: 1, n: 1, len: 10 })],
      del: Del::Endpoint(1),
      after: vec![(0, Item::Val { key: 1, n: 2, len: 10 })],
      newcomer: None,
      newcomer_items: vec![],
      partition_s: 0,
      partition_only: None,
      healed_items: vec![],
    },
  }
}

/// the pinned scenarios that are part of every run (5, 6 and 10 are developer probes only; 10 is an attempt at the second open constellation that does not reproduce it reliably)
pub const PINNED_IDS: [u64; 9] = [1, 2, 3, 4, 7, 8, 9, 11, 12];
pub const PINNED: u64 = PINNED_IDS.len() as u64;

/// developer aid: one pinned scenario (VERIF_PROBE=1..4) with optional library logging (VERIF_PROBE_GREP)
pub fn run_probe(_args: &Args) -> i32 {
  let which: u64 = std::env::var("VERIF_PROBE").ok().and_then(|s| s.parse().ok()).unwrap_or(1);
  let sc = pinned_scenario(which);
  install_probe_logger();
  let mut acc = Acc::default();
  // VERIF_PROBE_SEC=<governance fixture name> (security build only): the same scenario between secured participants
  let sec = std::env::var("VERIF_PROBE_SEC").ok().map(|g| (g, _args.verif_dir.join("fixtures/c07sec")));
  let out = stk2::run_scenario_sec(&sc, sec, 99, &mut acc, &json!({"index": 0}), 0);
  println!("completed={} violations={:?} inconclusive={:?} match_s={} deliver_s={}", out.completed, acc.violations.iter().map(|v| (&v.signature, &v.detail)).collect::<Vec<_>>(), acc.inconclusive, out.max_match_s, out.max_deliver_s);
  0
}
