//! C07 front end: see stk2.rs.
use serde_json::json;

use crate::{
  ctx::{Acc, Args, Report},
  prng::Rng,
  shard, stk2,
};

pub fn e2e_cases(args: &Args, ncases: u64, stream: u64) -> Acc {
  let seed = args.seed;
  let replay_case = crate::replay_index(args);
  shard::run_sharded(args, ncases + PINNED, args.threads(), "C07", move |i, acc, br| {
    if replay_case.map_or(false, |rc| rc != i) {
      return;
    }
    install_probe_logger();
    let domain: u16 = std::env::var("VERIF_DOMAIN").ok().and_then(|s| s.parse().ok()).unwrap_or(50);
    let mut rng = Rng::derive(seed, stream, i);
    let sc = if i < ncases { stk2::gen_scenario(&mut rng) } else { pinned_scenario(PINNED_IDS[(i - ncases) as usize]) };
    if i >= ncases {
      acc.count("e2e_pinned_witness_scenarios_run", 1);
    }
    let tag = json!({"seed": seed, "stream": stream, "index": i, "engine": "stack-real-participants"});
    br.set_case(json!({"case": tag, "scenario": stk2::scenario_json(&sc)}));
    let out = stk2::run_scenario(&sc, domain, acc, &tag, i);
    acc.evaluations += 1;
    acc.count("e2e_pairs_expected_to_match", out.pairs_expected);
    acc.count("e2e_status_events_observed", out.match_events);
    acc.count("e2e_unmatches_observed_after_deletion", out.unmatch_events);
    acc.count("e2e_items_written", out.items_written);
    acc.count("e2e_values_received_and_compared", out.items_received);
    acc.count("e2e_disposes_received", out.disposes_received);
    acc.count("e2e_fragmented_items_written", out.frag_items);
    acc.count("e2e_history_items_received_by_transient_local_late_joiner", out.late_history_items);
    acc.count("e2e_earlier_items_withheld_from_volatile_readers", out.volatile_withheld);
    acc.count("e2e_datagrams_dropped_by_loss_policy", out.dropped);
    acc.count("e2e_endpoints_created_after_a_deletion", out.newcomers);
    acc.count("e2e_outages_longer_than_the_lease", out.partitions);
    acc.count("e2e_pairs_unmatched_by_lease_expiry_during_an_outage", out.pairs_lost_in_partition);
    acc.count("e2e_transient_matches_with_deleted_endpoints_taken_back_in_time", out.ghost_matches);
    acc.count("e2e_best_effort_reader_order_or_duplicate_anomalies_not_judged", out.best_effort_order_anomalies);
    // longest wait of the scenario, as a histogram over scenarios (counters are summed over the shards)
    let bucket = |x: f64| if x < 1.0 { "under_1s" } else if x < 3.0 { "1_to_3s" } else if x < 10.0 { "3_to_10s" } else if x < 40.0 { "10_to_40s" } else { "over_40s_wall" };
    if out.completed {
      acc.count(&format!("e2e_longest_match_wait_{}", bucket(out.max_match_s)), 1);
      acc.count(&format!("e2e_longest_delivery_wait_{}", bucket(out.max_deliver_s)), 1);
    }
    if out.completed {
      acc.count("e2e_scenarios_completed", 1);
      acc.count(if sc.with_key { "e2e_scenarios_with_key" } else { "e2e_scenarios_no_key" }, 1);
      acc.count(if sc.nparts == 3 || sc.late_new_part { "e2e_scenarios_three_or_more_participants" } else { "e2e_scenarios_two_participants" }, 1);
      match sc.del {
        stk2::Del::Endpoint(e) => acc.count(if sc.eps[e].is_writer { "e2e_deletions_writer" } else { "e2e_deletions_reader" }, 1),
        stk2::Del::Part(..) => acc.count("e2e_deletions_participant", 1),
      }
      if out.items_received >= 2 {
        acc.distinct.insert(out.sig);
      }
    }
    if i < 2 {
      acc.sample(json!({"case": tag, "scenario": stk2::scenario_json(&sc), "max_match_wait_s": out.max_match_s, "max_delivery_wait_s": out.max_deliver_s}), 2);
    }
  })
}

pub fn run_c07(args: &Args) -> i32 {
  let mut rep = Report::new(
    args,
    "two or three real DomainParticipants in one process and domain (real loopback UDP, public API only): participants (started on helper threads), topics, publishers/subscribers, 2-6 readers/writers created in a random dependency-respecting order with random pauses, writers writing before anybody has matched; then every compatible pair must report the match on both sides within 40 s of unstalled time; then values (30 sizes, both sides of the 1024-byte fragment limit, every residue mod 4) and disposals are written under seeded datagram loss of 0-20 % on ALL traffic and every reliable reader must hold what a keep-all writer wrote after the match (keep-last: the last d) - identical bytes, writer order, no duplicates; then a late joiner (TransientLocal: must get the retained history; Volatile: must get nothing written before it existed), possibly on a brand-new participant; then a reader / writer / participant is deleted and every matched peer on another participant must report current_count_change -1; then traffic among the survivors; in one scenario in six an outage longer than the 10 s lease (every participant, or only one, stops hearing the others: receive-side tap) after the main traffic, after which everybody must be matched with everybody again and traffic must flow; then (3 scenarios in 4) a new endpoint of the kind that would match what was deleted is created on a surviving participant: it must match every living compatible endpoint, must not report a match with a deleted endpoint whose deletion an endpoint of the same participant has already reported (a match with a deleted endpoint nobody there could observe must be taken back within the unmatch bound), and traffic flows; distinct = hash of scenario; non-trivial = >=2 values compared",
  );
  rep.assume("bounds (40 s each for match, delivery, unmatch) are measured in time during which the harness thread itself was being scheduled (steps of at most 100 ms), so a stalled machine cannot produce a verdict; typical waits are printed as counters");
  rep.assume("a KeepAll writer retains at least the last 32 samples for TransientLocal late joiners (the implementation's resource limit); more than that is not demanded");
  rep.assume("'later samples' for a Volatile reader: a sample counts as earlier only with evidence: some reader anywhere had already taken it when create_datareader was called, or write() had returned more than 5 s before (write() only queues the sample for the participant's event loop); such a sample must not be delivered; anything else may or may not arrive");
  let ncases = args.scale(64, 3000);
  let acc = e2e_cases(args, ncases, 0x0707);
  rep.require("e2e_scenarios_completed", 20);
  rep.require("e2e_values_received_and_compared", 200);
  rep.require("e2e_unmatches_observed_after_deletion", 5);
  rep.finish(acc)
}

fn install_probe_logger() {
  struct L;
  impl log::Log for L {
    fn enabled(&self, m: &log::Metadata) -> bool {
      m.target().starts_with("rustdds")
    }
    fn log(&self, r: &log::Record) {
      let s = format!("{}", r.args());
      if self.enabled(r.metadata()) && std::env::var("VERIF_PROBE_GREP").map_or(false, |g| g.split('|').any(|x| s.contains(x) || r.target().contains(x))) {
        eprintln!("{:.4} [{:?}] {} {}: {}", std::time::SystemTime::now().duration_since(std::time::UNIX_EPOCH).map_or(0.0, |d| (d.as_secs() % 1000) as f64 + d.subsec_nanos() as f64 * 1e-9), std::thread::current().name(), r.level(), r.target(), s.chars().take(300).collect::<String>());
      }
    }
    fn flush(&self) {}
  }
  static LOGGER: L = L;
  if std::env::var("VERIF_PROBE_GREP").is_ok() {
    let _ = log::set_logger(&LOGGER);
    log::set_max_level(if std::env::var("VERIF_PROBE_LEVEL").map_or(false, |l| l == "trace") { log::LevelFilter::Trace } else { log::LevelFilter::Debug });
  }
}

/// Hand-built scenarios that are always part of the run: the deterministic witnesses of the defects this
/// check has found (1-3 repaired, 4 open, see known_findings.json).
/// 1: reader created on a participant that already knows the writer; 2: writer created 4 s after the
/// peer's reader was announced, late joiner on a new participant; 3: late reader on the writer's own
/// participant; 4: TransientLocal late joiner next to a Volatile reader that missed the early samples (open);
/// 5, 6: developer probes; 7: new participant after a writer was deleted; 8: total outage longer than the
/// lease, then heal; 9: one-sided outage; 10: TransientLocal and Volatile readers side by side under loss (open)
pub fn pinned_scenario(which: u64) -> stk2::Sc7 {
  use stk2::*;
  let w = EpSpec { part: 0, is_writer: true, reliable: true, tl: false, explicit_durability: true, depth: None };
  let r = EpSpec { part: 1, is_writer: false, reliable: true, tl: false, explicit_durability: true, depth: None };
  match which {
    1 => Sc7 {
      with_key: true,
      nparts: 2,
      eps: vec![w, r.clone(), r],
      acts: vec![Act::Part(0), Act::Part(1), Act::Topic(0), Act::Topic(1), Act::PubSub(0), Act::PubSub(1), Act::Ep(0), Act::Ep(1)],
      loss_disc_ppm: 0,
      loss_ppm: 0,
      main: vec![(0, Item::Val { key: 1, n: 0, len: 10 })],
      late: 2,
      late_new_part: false,
      post: vec![(0, Item::Val { key: 1, n: 1, len: 10 })],
      del: Del::Endpoint(1),
      after: vec![(0, Item::Val { key: 1, n: 2, len: 10 })],
      newcomer: None,
      newcomer_items: vec![],
      partition_s: 0,
      partition_only: None,
      healed_items: vec![],
    },
    4 => Sc7 {
      with_key: true,
      nparts: 2,
      eps: vec![EpSpec { tl: true, ..w.clone() }, r.clone(), EpSpec { tl: true, ..r.clone() }],
      acts: vec![
        Act::Part(0),
        Act::Part(1),
        Act::Topic(0),
        Act::Topic(1),
        Act::PubSub(0),
        Act::PubSub(1),
        Act::Ep(0),
        Act::Early(0, vec![Item::Val { key: 1, n: 0, len: 10 }, Item::Val { key: 1, n: 1, len: 10 }]),
        Act::Sleep(6000),
        Act::Ep(1),
      ],
      loss_disc_ppm: 0,
      loss_ppm: 0,
      main: vec![(0, Item::Val { key: 1, n: 2, len: 10 }), (0, Item::Val { key: 1, n: 3, len: 10 })],
      late: 2,
      late_new_part: false,
      post: vec![(0, Item::Val { key: 1, n: 4, len: 10 })],
      del: Del::Endpoint(1),
      after: vec![(0, Item::Val { key: 1, n: 5, len: 10 })],
      newcomer: None,
      newcomer_items: vec![],
      partition_s: 0,
      partition_only: None,
      healed_items: vec![],
    },
    5 | 6 => Sc7 {
      with_key: true,
      nparts: 2,
      eps: vec![w.clone(), EpSpec { part: 0, reliable: false, ..r.clone() }, EpSpec { part: 0, ..r.clone() }],
      acts: vec![Act::Part(0), Act::Part(1), Act::Topic(0), Act::Topic(1), Act::PubSub(0), Act::PubSub(1), Act::Ep(0), Act::Ep(1)],
      loss_disc_ppm: 0,
      loss_ppm: 0,
      main: vec![(0, Item::Val { key: 1, n: 0, len: 10 }), (0, Item::Val { key: 1, n: 1, len: if which == 5 { 5002 } else { 12 } })],
      late: 2,
      late_new_part: false,
      post: vec![(0, Item::Val { key: 1, n: 2, len: 10 })],
      del: Del::Endpoint(1),
      after: vec![(0, Item::Val { key: 1, n: 3, len: 10 })],
      newcomer: None,
      newcomer_items: vec![],
      partition_s: 0,
      partition_only: None,
      healed_items: vec![],
    },
    7 => Sc7 {
      // a writer is deleted, then a brand-new participant with a reader appears: it must not stay matched with the dead writer
      with_key: true,
      nparts: 2,
      eps: vec![w.clone(), r.clone(), EpSpec { part: 1, ..r.clone() }, EpSpec { part: 2, ..r.clone() }],
      acts: vec![Act::Part(0), Act::Part(1), Act::Topic(0), Act::Topic(1), Act::PubSub(0), Act::PubSub(1), Act::Ep(0), Act::Ep(1)],
      loss_disc_ppm: 0,
      loss_ppm: 0,
      main: vec![(0, Item::Val { key: 1, n: 0, len: 10 })],
      late: 2,
      late_new_part: false,
      post: vec![(0, Item::Val { key: 1, n: 1, len: 10 })],
      del: Del::Endpoint(0),
      after: vec![],
      newcomer: Some(3),
      newcomer_items: vec![],
      partition_s: 0,
      partition_only: None,
      healed_items: vec![],
    },
    10 => Sc7 {
      // the second constellation of the open shared-TopicCache finding: a TransientLocal reader and a Volatile
      // reader of one TransientLocal writer on one participant, early samples, then traffic under 10 % loss
      with_key: true,
      nparts: 2,
      eps: vec![
        EpSpec { tl: true, ..w.clone() },
        EpSpec { tl: true, ..r.clone() },
        r.clone(),
        EpSpec { tl: true, ..r.clone() },
        r.clone(),
      ],
      acts: vec![
        Act::Part(0),
        Act::Part(1),
        Act::Topic(0),
        Act::Topic(1),
        Act::PubSub(0),
        Act::PubSub(1),
        Act::Ep(0),
        Act::Early(0, (0..6).map(|n| Item::Val { key: n % 3, n, len: if n == 2 { 987 } else { 7 } }).collect()),
        Act::Ep(1),
        Act::Sleep(30),
        Act::Ep(2),
        Act::Ep(3),
      ],
      loss_disc_ppm: 0,
      loss_ppm: 100_000,
      main: (6..39).map(|n| (0usize, Item::Val { key: n % 3, n, len: if n % 7 == 0 { 2049 } else { 12 } })).collect(),
      late: 4,
      late_new_part: false,
      post: vec![(0, Item::Val { key: 1, n: 39, len: 10 })],
      del: Del::Endpoint(3),
      after: vec![(0, Item::Val { key: 1, n: 40, len: 10 })],
      newcomer: None,
      newcomer_items: vec![],
      partition_s: 0,
      partition_only: None,
      healed_items: vec![],
    },
    8 | 9 => Sc7 {
      // total silence for 15 s (lease 10 s), then heal: the pair must match again and traffic must flow
      with_key: true,
      nparts: 2,
      eps: vec![w.clone(), r.clone(), EpSpec { part: 1, ..r.clone() }],
      acts: vec![Act::Part(0), Act::Part(1), Act::Topic(0), Act::Topic(1), Act::PubSub(0), Act::PubSub(1), Act::Ep(0), Act::Ep(1)],
      loss_disc_ppm: 0,
      loss_ppm: 0,
      main: vec![(0, Item::Val { key: 1, n: 0, len: 10 })],
      late: 2,
      late_new_part: false,
      post: vec![(0, Item::Val { key: 1, n: 2, len: 10 })],
      del: Del::Endpoint(1),
      after: vec![],
      newcomer: None,
      newcomer_items: vec![],
      partition_s: 15,
      partition_only: if which == 9 { Some(1) } else { None },
      healed_items: vec![(0, Item::Val { key: 1, n: 1, len: 10 })],
    },
    3 => Sc7 {
      with_key: true,
      nparts: 2,
      eps: vec![w, r.clone(), EpSpec { part: 0, ..r }],
      acts: vec![Act::Part(0), Act::Part(1), Act::Topic(0), Act::Topic(1), Act::PubSub(0), Act::PubSub(1), Act::Ep(0), Act::Ep(1)],
      loss_disc_ppm: 0,
      loss_ppm: 0,
      main: vec![(0, Item::Val { key: 1, n: 0, len: 10 })],
      late: 2,
      late_new_part: false,
      post: vec![(0, Item::Val { key: 1, n: 1, len: 10 })],
      del: Del::Endpoint(1),
      after: vec![(0, Item::Val { key: 1, n: 2, len: 10 })],
      newcomer: None,
      newcomer_items: vec![],
      partition_s: 0,
      partition_only: None,
      healed_items: vec![],
    },
    _ => Sc7 {
      with_key: true,
      nparts: 2,
      eps: vec![w, r.clone(), EpSpec { part: 2, ..r }],
      acts: vec![Act::Part(0), Act::Part(1), Act::Topic(0), Act::Topic(1), Act::PubSub(0), Act::PubSub(1), Act::Ep(1), Act::Sleep(4000), Act::Ep(0)],
      loss_disc_ppm: 0,
      loss_ppm: 0,
      main: vec![(0, Item::Val { key: 1, n: 0, len: 10 })],
      late: 2,
      late_new_part: true,
      post: vec![(0, Item::Val { key: 1, n: 1, len: 10 })],
      del: Del::Endpoint(1),
      after: vec![(0, Item::Val { key: 1, n: 2, len: 10 })],
      newcomer: None,
      newcomer_items: vec![],
      partition_s: 0,
      partition_only: None,
      healed_items: vec![],
    },
  }
}

/// the pinned scenarios that are part of every run (5, 6 and 10 are developer probes only; 10 is an attempt at the second open constellation that does not reproduce it reliably)
pub const PINNED_IDS: [u64; 7] = [1, 2, 3, 4, 7, 8, 9];
pub const PINNED: u64 = PINNED_IDS.len() as u64;

/// developer aid: one pinned scenario (VERIF_PROBE=1..4) with optional library logging (VERIF_PROBE_GREP)
pub fn run_probe(_args: &Args) -> i32 {
  let which: u64 = std::env::var("VERIF_PROBE").ok().and_then(|s| s.parse().ok()).unwrap_or(1);
  let sc = pinned_scenario(which);
  install_probe_logger();
  let mut acc = Acc::default();
  let out = stk2::run_scenario(&sc, 99, &mut acc, &json!({"index": 0}), 0);
  println!("completed={} violations={:?} inconclusive={:?} match_s={} deliver_s={}", out.completed, acc.violations.iter().map(|v| (&v.signature, &v.detail)).collect::<Vec<_>>(), acc.inconclusive, out.max_match_s, out.max_deliver_s);
  0
}
