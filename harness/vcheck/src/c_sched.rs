//! C13 front end: schedules explored by the baton scheduler (incrate/sched.rs,
//! incrate/schedsc.rs); lost wake-up decided at quiescence.
use std::collections::BTreeSet;

use rustdds::verif::{net, schedsc};
use serde_json::json;

use crate::{
  ctx::{par_cases, Args, Report},
  prng::Rng,
};

pub fn run_c13(args: &Args) -> i32 {
  net::set_policy_drop_all();
  let mut rep = Report::new(
    args,
    "real threads under a baton scheduler (one runnable at a time, seeded uniform-random or PCT priority schedule (depth 1-3) over the yield points; yield points sit between critical sections of Reader::notify_cache_change, Reader::process_received_data, SimpleDataReaderStream::poll_next, DataReader::take, AsyncWrite::poll, Writer::process_writer_command): (a) producer thread feeds DATA (in order / pairwise swapped, reliable and best-effort) into a real Reader, consumer thread follows the documented pattern through the async stream, mio-0.6 or mio-0.8, parking is modelled; (b) an async task issues 18-40 async_write calls against the 16-slot command queue while another thread runs the Writer's command loop; (c) an async task writes and awaits async_wait_for_acknowledgments 1-5 times while another thread runs the Writer's command loop and delivers the matched reader's ACKNACK as a step of its own; every poll hands over a waker of a new generation, only a wake of the latest generation counts, and random Pending polls are followed by one more poll nobody asked for; (d) real-thread stress of the status channel (no scheduler): sender and poller released from a spin barrier with 0-23 spins of jitter each, verdict is logical (try_send has returned, the stream is Pending, its latest waker was not invoked); (a) also has the variant where one sample never arrives and a non-final HEARTBEAT whose first_sn is past the hole releases the held-back successors; distinct = hash of the schedule's choice sequence; non-trivial = the consumer/task parked at least once",
  );
  rep.assume("lost wake-up = at quiescence (producer done, nobody runnable) the consumer is parked, received no wake-up signal since it parked, and a fresh take finds samples; for async_write: the parked future completes when polled once more although nothing woke it");
  rep.assume("interleavings finer than the yield points (inside mio, inside the kernel socketpair, inside a lock scope) are not explored");
  let ncases = args.scale(6000, 400_000);
  let seed = args.seed;
  let replay_case = crate::replay_index(args);
  let acc = par_cases(args.threads(), ncases, |i, acc| {
    if replay_case.map_or(false, |rc| rc != i) {
      return;
    }
    let mut rng = Rng::derive(seed, 0x1313, i);
    let tag = json!({"seed": seed, "stream": 0x1313, "index": i});
    let sseed = rng.next();
    acc.evaluations += 1;
    if i % 8 == 7 {
      // ---- async wait for acknowledgments vs writer command loop and the peer's ACKNACK
      let n = 1 + rng.below(5) as usize;
      let mask = if rng.chance(1, 2) { rng.next() as u32 & 0xff } else { 0 };
      let pct = if rng.chance(1, 2) { 1 + rng.below(3) as usize } else { 0 };
      let o = schedsc::run_async_ackwait_scenario(n, mask, sseed, pct);
      acc.count("ackwait_scenarios", 1);
      acc.count("ackwait_rounds_completed", o.writes_completed as u64);
      acc.count("ackwait_parks", o.parks);
      acc.count("ackwait_wakeups_through_the_latest_waker", o.wakeups);
      if mask != 0 {
        acc.count("ackwait_scenarios_with_unrequested_repolls", 1);
      }
      acc.count("scheduler_steps", o.steps as u64);
      for (k, v) in &o.site_hits {
        acc.count(&format!("site:{k}"), *v);
      }
      let replay = || json!({"case": tag, "scenario": "async_wait_for_acknowledgments", "rounds": n, "repoll_mask": mask, "schedule_seed": sseed, "pct_depth": pct, "trace_tail": o.trace.iter().rev().take(60).rev().collect::<Vec<_>>()});
      if o.exhausted {
        acc.inconclusive.push(format!("ack-wait schedule {i} exhausted its step budget"));
        return;
      }
      if o.completed_only_on_final_repoll {
        acc.violate("C13/lost-wakeup:async-ack-wait-parked-although-all-acknowledged", json!({"rounds_completed": o.writes_completed, "parks": o.parks, "wakeups": o.wakeups}), replay());
      } else if o.writes_completed != o.writes_requested {
        acc.violate("C13/lost-wakeup:async-ack-wait-never-completed", json!({"rounds_completed": o.writes_completed, "failed": o.writes_failed, "requested": o.writes_requested}), replay());
      }
      if o.parks > 0 {
        acc.distinct.insert(o.schedule_hash);
      }
      return;
    }
    if i % 4 == 3 {
      // ---- async write vs writer command loop
      let n = 18 + rng.below(22) as usize;
      let pct = if rng.chance(3, 4) { 1 + rng.below(3) as usize } else { 0 };
      acc.count(&format!("asyncwrite_schedules_pct_depth_{pct}"), 1);
      let o = schedsc::run_async_write_scenario(n, sseed, pct);
      acc.count("asyncwrite_scenarios", 1);
      acc.count("asyncwrite_parks", o.parks);
      acc.count("asyncwrite_wakeups", o.wakeups);
      acc.count("scheduler_steps", o.steps as u64);
      for (k, v) in &o.site_hits {
        acc.count(&format!("site:{k}"), *v);
      }
      let replay = || json!({"case": tag, "scenario": "async_write", "writes": n, "schedule_seed": sseed, "pct_depth": pct, "trace_tail": o.trace.iter().rev().take(60).rev().collect::<Vec<_>>()});
      if o.exhausted {
        acc.inconclusive.push(format!("async-write schedule {i} exhausted its step budget"));
        return;
      }
      if o.completed_only_on_final_repoll {
        acc.violate("C13/lost-wakeup:async-write-parked-although-queue-has-room", json!({"writes_completed": o.writes_completed, "parks": o.parks, "wakeups": o.wakeups}), replay());
      } else if o.writes_completed + o.writes_failed != o.writes_requested {
        acc.violate("C13/lost-wakeup:async-write-never-completed", json!({"writes_completed": o.writes_completed, "failed": o.writes_failed, "requested": o.writes_requested}), replay());
      }
      if o.parks > 0 {
        acc.distinct.insert(o.schedule_hash);
      }
      return;
    }
    let mech = *rng.pick(&[schedsc::Mech::AsyncStream, schedsc::Mech::Mio06, schedsc::Mech::Mio08]);
    let reliable = rng.chance(2, 3);
    let n = 1 + rng.below(6) as usize;
    let ooo = reliable && rng.chance(1, 3);
    let pct = if rng.chance(1, 2) { 1 + rng.below(3) as usize } else { 0 };
    acc.count(&format!("reader_schedules_pct_depth_{pct}"), 1);
    // a third stream position is drawn only after the old ones, so earlier replays keep their meaning
    let lost_hb = reliable && n >= 2 && rng.chance(1, 3);
    if lost_hb {
      acc.count("reader_scenarios_lost_sample_released_by_heartbeat", 1);
    }
    let o = schedsc::run_reader_scenario(mech, reliable, n, ooo, lost_hb, sseed, pct);
    acc.count(&format!("reader_scenarios_{mech:?}"), 1);
    acc.count("consumer_parks", o.parks);
    acc.count("consumer_wakeups", o.wakeups);
    acc.count("scheduler_steps", o.steps as u64);
    for (k, v) in &o.site_hits {
      acc.count(&format!("site:{k}"), *v);
    }
    let replay = || json!({"case": tag, "scenario": format!("{mech:?}"), "reliable": reliable, "samples": n, "out_of_order": ooo, "lost_then_heartbeat": lost_hb, "schedule_seed": sseed, "pct_depth": pct, "trace": o.trace});
    if let Some(e) = &o.error {
      acc.violate("C13/error:consumer-call-failed", json!({"err": e}), replay());
      return;
    }
    if o.exhausted {
      acc.inconclusive.push(format!("reader schedule {i} exhausted its step budget"));
      return;
    }
    if !o.found_after_final_park.is_empty() {
      acc.violate(format!("C13/lost-wakeup:{mech:?}:consumer-parked-while-samples-available"), json!({"available": o.found_after_final_park, "delivered": o.delivered, "parks": o.parks, "wakeups": o.wakeups}), replay());
    }
    let got: BTreeSet<u32> = o.delivered.iter().chain(o.found_after_final_park.iter()).copied().collect();
    let want: BTreeSet<u32> = o.produced.iter().copied().collect();
    if got != want {
      acc.violate(format!("C13/delivery:{mech:?}:delivered-set-differs-from-produced"), json!({"delivered": o.delivered, "produced": o.produced}), replay());
    }
    if o.delivered.len() != o.delivered.iter().collect::<BTreeSet<_>>().len() {
      acc.violate(format!("C13/delivery:{mech:?}:sample-delivered-twice"), json!({"delivered": o.delivered}), replay());
    }
    if o.parks > 0 {
      acc.distinct.insert(o.schedule_hash);
    }
    if i < 2 {
      acc.sample(replay(), 2);
    }
  });
  // ---- (d) the status channel (carrier of the ack-wait completion and of all async status streams) under real
  // threads: interleavings inside its lock scope, which the baton scheduler cannot cut
  let mut acc = acc;
  if replay_case.is_none() {
    let pairs = (args.threads() / 2).clamp(1, 6) as u64;
    let rounds = args.scale(40_000, 2_000_000);
    let outs: Vec<(u64, rustdds::verif::chanstress::StressOut)> = std::thread::scope(|sc| {
      let hs: Vec<_> = (0..pairs)
        .map(|p| {
          let sd = Rng::derive(seed, 0x1314, p).next();
          sc.spawn(move || (sd, rustdds::verif::chanstress::status_channel_stress(rounds, sd)))
        })
        .collect();
      hs.into_iter().map(|h| h.join().expect("stress pair")).collect()
    });
    for (sd, o) in outs {
      acc.evaluations += 1;
      acc.count("statuschannel_stress_rounds", o.rounds);
      acc.count("statuschannel_stress_ready_at_first_poll", o.ready_at_first_poll);
      acc.count("statuschannel_stress_pending_then_woken", o.pending_then_woken);
      acc.count("statuschannel_stress_pending_observed_while_send_in_flight", o.pending_seen_before_send_returned);
      acc.count("statuschannel_stress_repolled_with_new_waker", o.repolled_with_new_waker);
      let replay = || json!({"case": {"seed": seed, "stream": 0x1314}, "scenario": "status_channel_stress", "pair_seed": sd, "rounds": rounds, "note": "real threads: the round numbers differ from run to run"});
      if let Some((r, st)) = o.lost.first() {
        acc.violate("C13/lost-wakeup:status-stream-pending-after-send-returned-and-latest-waker-not-invoked", json!({"first_round": r, "wakes_of_superseded_wakers_in_that_round": st, "rounds_affected": o.lost.len()}), replay());
      }
      if let Some((r, w)) = o.wrong.first() {
        acc.violate("C13/delivery:status-stream-poll-after-send-did-not-yield-the-message", json!({"first_round": r, "poll_result": w, "rounds_affected": o.wrong.len()}), replay());
      }
    }
  }
  for s in ["site:reader:after-cache-insert", "site:reader:notify:before-waker-take", "site:reader:notify:before-mio08-send", "site:reader:notify:before-mio06-send", "site:stream:poll:after-first-take", "site:stream:poll:after-set-waker", "site:datareader:take:after-drain", "site:datareader:take:after-fill", "site:writer:command:after-recv", "site:consumer:parked"] {
    rep.require(s, 100);
  }
  rep.require("consumer_wakeups", 500);
  rep.require("ackwait_wakeups_through_the_latest_waker", 100);
  rep.require("statuschannel_stress_pending_then_woken", 1000);
  rep.require("statuschannel_stress_ready_at_first_poll", 1000);
  rep.require("ackwait_scenarios_with_unrequested_repolls", 100);
  rep.finish(acc)
}
