//! Counting global allocator (C06 memory oracle). Tracks live bytes, a resettable
//! high-water mark and the largest single request; refuses (reports + exits the
//! process) any single request >= HUGE bytes so that a hostile datagram cannot take
//! the machine down. Overhead: two relaxed atomics per call.
use std::{
  alloc::{GlobalAlloc, Layout, System},
  cell::Cell,
  sync::atomic::{AtomicBool, AtomicUsize, Ordering},
};

pub struct Counting;

static LIVE: AtomicUsize = AtomicUsize::new(1 << 40);
static PEAK: AtomicUsize = AtomicUsize::new(0);
static LARGEST: AtomicUsize = AtomicUsize::new(0);
static GUARD_ON: AtomicBool = AtomicBool::new(false);
/// counting costs two contended atomics per call: only checks that use it switch it on
static COUNTING: AtomicBool = AtomicBool::new(false);
pub const HUGE: usize = 256 << 20;

thread_local! {
  static IN_HOOK: Cell<bool> = const { Cell::new(false) };
  /// only the thread that feeds datagrams is subject to the guard / measurement of LARGEST
  static MEASURED: Cell<bool> = const { Cell::new(false) };
}

pub fn set_measured_thread(on: bool) {
  MEASURED.with(|m| m.set(on));
}
pub fn guard(on: bool) {
  GUARD_ON.store(on, Ordering::SeqCst);
  COUNTING.store(on, Ordering::SeqCst);
}
pub fn live() -> usize {
  LIVE.load(Ordering::Relaxed)
}
/// reset the high-water mark to the current live size; returns live
pub fn reset_peak() -> usize {
  let l = LIVE.load(Ordering::Relaxed);
  PEAK.store(l, Ordering::Relaxed);
  LARGEST.store(0, Ordering::Relaxed);
  l
}
pub fn peak() -> usize {
  PEAK.load(Ordering::Relaxed)
}
pub fn largest() -> usize {
  LARGEST.load(Ordering::Relaxed)
}

#[inline]
fn on_alloc(size: usize) {
  if !COUNTING.load(Ordering::Relaxed) {
    return;
  }
  let l = LIVE.fetch_add(size, Ordering::Relaxed).wrapping_add(size);
  if l > PEAK.load(Ordering::Relaxed) {
    PEAK.store(l, Ordering::Relaxed);
  }
  let measured = MEASURED.try_with(|m| m.get()).unwrap_or(false);
  if measured {
    if size > LARGEST.load(Ordering::Relaxed) {
      LARGEST.store(size, Ordering::Relaxed);
    }
    if size >= HUGE && GUARD_ON.load(Ordering::Relaxed) {
      let reentrant = IN_HOOK.try_with(|h| h.replace(true)).unwrap_or(true);
      if !reentrant {
        // never returns
        crate::shard::fatal_huge_alloc(size);
      }
    }
  }
}

unsafe impl GlobalAlloc for Counting {
  unsafe fn alloc(&self, layout: Layout) -> *mut u8 {
    on_alloc(layout.size());
    System.alloc(layout)
  }
  unsafe fn alloc_zeroed(&self, layout: Layout) -> *mut u8 {
    on_alloc(layout.size());
    System.alloc_zeroed(layout)
  }
  unsafe fn dealloc(&self, ptr: *mut u8, layout: Layout) {
    if COUNTING.load(Ordering::Relaxed) {
      LIVE.fetch_sub(layout.size(), Ordering::Relaxed);
    }
    System.dealloc(ptr, layout)
  }
  unsafe fn realloc(&self, ptr: *mut u8, layout: Layout, new_size: usize) -> *mut u8 {
    if new_size > layout.size() {
      on_alloc(new_size - layout.size());
    } else if COUNTING.load(Ordering::Relaxed) {
      LIVE.fetch_sub(layout.size() - new_size, Ordering::Relaxed);
    }
    System.realloc(ptr, layout, new_size)
  }
}
