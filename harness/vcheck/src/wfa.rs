//! C20: wait_for_acknowledgments (sync on its own thread, async under executor
//! discipline) against a model of "reliable readers matched at the call that have
//! not yet acknowledged everything written before the call".
use std::collections::BTreeSet;
use std::time::{Duration, Instant};

use rustdds::verif::{
  types::VSample,
  wbench::{WbCfg, WriterBench},
};
use serde_json::{json, Value};

use crate::{
  ctx::Acc,
  prng::{fnv64, Rng},
  wire,
  wtr::{reader_guid, reader_port, NREADERS},
};

#[derive(Clone, Debug)]
pub enum FEv {
  Match { r: usize, reliable: bool },
  Unmatch { r: usize },
  Write,
  /// base relative to "last written at that moment": delta 0 = last (not enough), 1 = last+1 (all acked)
  Ack { r: usize, base_delta: i64 },
  /// absolute base
  AckAbs { r: usize, base: i64 },
}

#[derive(Clone, Debug)]
pub struct FCase {
  pub writer_reliable: bool,
  pub pre: Vec<FEv>,
  /// writes issued right before the call whose commands are still queued when the
  /// wait command is sent (drained by the Writer in the same batch); 16 = queue full
  pub deferred_writes: usize,
  pub asynchronous: bool,
  pub post: Vec<FEv>,
  /// asynchronous form: bit i set = the executor polls the still-pending future once more before post event i
  /// without having been woken (a sibling in a select!/join! woke the task), with the task's then-current waker;
  /// Future::poll's contract: only the waker of the most recent poll has to be woken
  pub spurious_polls: u32,
}

pub fn case_json(c: &FCase) -> Value {
  json!({"writer_reliable": c.writer_reliable, "async": c.asynchronous,
    "deferred_writes": c.deferred_writes, "spurious_polls_before_post_events": c.spurious_polls,
    "pre": c.pre.iter().map(|e| format!("{e:?}")).collect::<Vec<_>>(),
    "post": c.post.iter().map(|e| format!("{e:?}")).collect::<Vec<_>>()})
}

fn gen_ev(rng: &mut Rng, matched: &mut [bool; NREADERS], reliable: &mut [bool; NREADERS]) -> FEv {
  let r = rng.below(NREADERS as u64) as usize;
  match rng.below(10) {
    0 | 1 => {
      if matched[r] {
        matched[r] = false;
        FEv::Unmatch { r }
      } else {
        matched[r] = true;
        reliable[r] = rng.chance(3, 4);
        FEv::Match { r, reliable: reliable[r] }
      }
    }
    2 | 3 => FEv::Write,
    4 => FEv::AckAbs { r, base: rng.range(0, 8) },
    _ => FEv::Ack { r, base_delta: *rng.pick(&[1i64, 1, 1, 0, 0, -1, 2]) },
  }
}

pub fn gen_case(rng: &mut Rng) -> FCase {
  let mut matched = [false; NREADERS];
  let mut reliable = [false; NREADERS];
  let npre = rng.below(9);
  let pre = (0..npre).map(|_| gen_ev(rng, &mut matched, &mut reliable)).collect();
  let npost = rng.below(8);
  let post = (0..npost).map(|_| gen_ev(rng, &mut matched, &mut reliable)).collect();
  let deferred_writes = match rng.below(12) {
    0 | 1 | 2 => 1 + rng.below(3) as usize,
    3 => 15,
    4 => 16,
    _ => 0,
  };
  let writer_reliable = !rng.chance(1, 12);
  let asynchronous = rng.chance(1, 2);
  let spurious_polls = if rng.chance(1, 2) { rng.below(256) as u32 } else { 0 };
  FCase { writer_reliable, pre, deferred_writes, asynchronous, post, spurious_polls }
}

#[derive(Default, Clone)]
struct Model {
  matched: [bool; NREADERS],
  reliable: [bool; NREADERS],
  acked: [i64; NREADERS],
  last: i64,
  // set at the call
  waiting: bool,
  wait_until: i64,
  pending: BTreeSet<usize>,
}

impl Model {
  fn apply(&mut self, ev: &FEv) -> Option<(usize, i64)> {
    // returns (reader, absolute base) for acks
    match ev {
      FEv::Match { r, reliable } => {
        self.matched[*r] = true;
        self.reliable[*r] = *reliable;
        self.acked[*r] = 0;
        None
      }
      FEv::Unmatch { r } => {
        self.matched[*r] = false;
        self.pending.remove(r);
        None
      }
      FEv::Write => {
        self.last += 1;
        None
      }
      FEv::Ack { r, base_delta } => {
        let base = self.last + base_delta;
        self.ack(*r, base);
        Some((*r, base))
      }
      FEv::AckAbs { r, base } => {
        self.ack(*r, *base);
        Some((*r, *base))
      }
    }
  }
  fn ack(&mut self, r: usize, base: i64) {
    if self.matched[r] && self.reliable[r] {
      self.acked[r] = base.max(1);
      if self.waiting && base > self.wait_until {
        self.pending.remove(&r);
      }
    }
  }
  fn call(&mut self) {
    self.waiting = true;
    self.wait_until = self.last;
    self.pending = (0..NREADERS).filter(|r| self.matched[*r] && self.reliable[*r] && self.acked[*r] <= self.last).collect();
  }
}

pub struct FOutcome {
  pub sig: u64,
  pub completed_true: bool,
  pub timed_out: bool,
  pub stayed_pending: bool,
  pub boundary_acks: u64,
  pub spurious_polls: u64,
}

fn apply_to_bench(wb: &mut WriterBench, ev: &FEv, abs: Option<(usize, i64)>, counts: &mut [i32; NREADERS], next_id: &mut u32) {
  match ev {
    FEv::Match { r, reliable } => wb.match_reader(reader_guid(*r), *reliable, format!("127.0.0.1:{}", reader_port(*r)).parse().unwrap()),
    FEv::Unmatch { r } => wb.unmatch_reader(reader_guid(*r)),
    FEv::Write => {
      *next_id += 1;
      let _ = wb.write(VSample { key: 1, id: *next_id, blob: vec![1, 2, 3] }, None, None);
    }
    FEv::Ack { .. } | FEv::AckAbs { .. } => {
      let (r, base) = abs.unwrap();
      let g = reader_guid(r);
      let prefix: [u8; 12] = g[0..12].try_into().unwrap();
      let reid: [u8; 4] = g[12..16].try_into().unwrap();
      let mut dg = wire::header(&prefix);
      wire::info_dst(&mut dg, true, &wb.own_prefix);
      counts[r] += 1;
      wire::acknack(&mut dg, true, reid, wb.writer_entity_id(), base, 0, &[], counts[r], true);
      wb.inject(&dg);
    }
  }
}

pub fn run_case(case: &FCase, acc: &mut Acc, tag: &Value) -> FOutcome {
  let mut wb = WriterBench::new(WbCfg { reliable: case.writer_reliable, history: 0, transient_local: false, frag_size: 0, writer_key: [0, 0, 0x41] });
  let mut m = Model::default();
  let mut counts = [0i32; NREADERS];
  let mut next_id = 0u32;
  let replay = || json!({"case": tag, "script": case_json(case)});
  let mut out = FOutcome { sig: 0, completed_true: false, timed_out: false, stayed_pending: false, boundary_acks: 0, spurious_polls: 0 };
  for ev in &case.pre {
    let abs = m.apply(ev);
    apply_to_bench(&mut wb, ev, abs, &mut counts, &mut next_id);
  }
  // writes whose commands are still in the queue when the wait command arrives
  let queue_full = case.writer_reliable && case.deferred_writes >= 16;
  for _ in 0..case.deferred_writes {
    next_id += 1;
    if wb.write_deferred(VSample { key: 1, id: next_id, blob: vec![9] }).is_ok() {
      m.last += 1;
    }
  }
  // predict the outcome to choose the timeout
  let mut sim = m.clone();
  sim.call();
  let mut will_complete = sim.pending.is_empty();
  for ev in &case.post {
    sim.apply(ev);
    if sim.pending.is_empty() {
      will_complete = true;
    }
  }
  if !case.writer_reliable {
    will_complete = true; // best-effort writer: documented to answer yes at once
  }
  if queue_full {
    // The command queue is full: the Writer cannot even learn about the call until it has
    // drained the queue. Sync: must not say yes unless the model allows it; a "no" must not
    // come before the requested time. Use a short timeout; "yes" is accepted only if the
    // model's pending set is (or becomes) empty.
    will_complete = false;
  }
  m.call();
  let sig = fnv64(format!("{:?}", case_json(case)).as_bytes());
  out.sig = sig;

  if !case.asynchronous {
    let timeout_ms: u64 = if will_complete { 8000 } else { 100 + (sig % 60) };
    if queue_full {
      // give the waiter thread time to attempt its send while the queue is still full
      wb.sync_wait_spawn(timeout_ms);
      let t0 = Instant::now();
      while !wb.sync_wait_finished() && t0.elapsed() < Duration::from_millis(30) {
        std::thread::sleep(Duration::from_micros(300));
      }
      // now the Writer drains the queue; a waiter that is still trying gets its command in,
      // and the Writer consumes it before anything else happens (model call point)
      let t1 = Instant::now();
      while t1.elapsed() < Duration::from_millis(60) {
        wb.process_commands();
        if wb.has_ack_waiter() || wb.sync_wait_finished() {
          break;
        }
        std::thread::sleep(Duration::from_micros(300));
      }
      for ev in &case.post {
        let abs = m.apply(ev);
        apply_to_bench(&mut wb, ev, abs, &mut counts, &mut next_id);
        wb.process_commands();
      }
      if let Some((r, el)) = wb.sync_wait_join() {
        let cond = m.pending.is_empty();
        match r {
          Ok(true) if !cond => acc.violate("C20/no-false-yes:sync-success-while-a-matched-reliable-reader-has-not-acknowledged", json!({"when": "command-queue-full", "pending_readers": m.pending, "elapsed_s": el}), replay()),
          Ok(true) => out.completed_true = true,
          Ok(false) => {
            out.timed_out = true;
            if el + 0.005 < timeout_ms as f64 / 1000.0 {
              acc.violate("C20/timeout:sync-returned-before-requested-time:command-queue-full", json!({"elapsed_s": el, "timeout_ms": timeout_ms}), replay());
            }
          }
          Err(e) => acc.violate("C20/error:sync-wait-failed", json!({"err": e}), replay()),
        }
      }
      return out;
    }
    let t_call = Instant::now();
    wb.sync_wait_spawn(timeout_ms);
    // let the Writer pick the command up (what the event loop does on the channel event)
    let mut done = false;
    while t_call.elapsed() < Duration::from_secs(6) {
      wb.process_commands();
      if wb.has_ack_waiter() || wb.sync_wait_finished() {
        break;
      }
      std::thread::sleep(Duration::from_micros(200));
    }
    let mut complete_expected = !case.writer_reliable || m.pending.is_empty();
    let check_early = |wb: &mut WriterBench, m: &Model, acc: &mut Acc, when: &str| -> bool {
      // give a wrongly notified waiter a moment to return
      let t = Instant::now();
      while t.elapsed() < Duration::from_millis(3) {
        if wb.sync_wait_finished() {
          break;
        }
        std::thread::sleep(Duration::from_micros(200));
      }
      if wb.sync_wait_finished() {
        if let Some((r, el)) = wb.sync_wait_join() {
          if r == Ok(true) {
            acc.violate("C20/no-false-yes:sync-success-while-a-matched-reliable-reader-has-not-acknowledged", json!({"when": when, "pending_readers": m.pending, "wait_until": m.wait_until, "elapsed_s": el}), replay());
          } else {
            acc.violate("C20/timeout:sync-returned-early", json!({"when": when, "result": format!("{r:?}"), "elapsed_s": el}), replay());
          }
        }
        return true;
      }
      false
    };
    if !complete_expected {
      done = check_early(&mut wb, &m, acc, "after-call");
    }
    if !done {
      for (i, ev) in case.post.iter().enumerate() {
        if complete_expected {
          break;
        }
        let abs = m.apply(ev);
        if let Some((r, base)) = abs {
          if m.matched[r] && m.reliable[r] && (base == m.wait_until || base == m.wait_until + 1) {
            out.boundary_acks += 1;
          }
        }
        apply_to_bench(&mut wb, ev, abs, &mut counts, &mut next_id);
        if m.pending.is_empty() {
          complete_expected = true;
        } else if check_early(&mut wb, &m, acc, &format!("after-post-event-{i}")) {
          done = true;
          break;
        }
      }
    }
    if !done {
      if let Some((r, el)) = wb.sync_wait_join() {
        if complete_expected {
          match r {
            Ok(true) => {
              out.completed_true = true;
              if el > 5.0 {
                acc.count("sync_completion_slower_than_5s", 1);
              }
            }
            other => acc.violate("C20/prompt:sync-did-not-report-success-although-condition-holds", json!({"result": format!("{other:?}"), "elapsed_s": el, "timeout_ms": timeout_ms, "pending_at_call_empty": sim_pending_at_call_empty(case, &m)}), replay()),
          }
        } else {
          match r {
            Ok(false) => {
              out.timed_out = true;
              if el + 0.005 < timeout_ms as f64 / 1000.0 {
                acc.violate("C20/timeout:sync-returned-before-requested-time", json!({"elapsed_s": el, "timeout_ms": timeout_ms}), replay());
              }
            }
            Ok(true) => acc.violate("C20/no-false-yes:sync-success-while-a-matched-reliable-reader-has-not-acknowledged", json!({"when": "at-end", "pending_readers": m.pending, "wait_until": m.wait_until}), replay()),
            Err(e) => acc.violate("C20/error:sync-wait-failed", json!({"err": e}), replay()),
          }
        }
      }
    }
  } else {
    // ---- asynchronous form under executor discipline
    wb.async_wait_start();
    let mut wakes_seen = wb.async_wake_count();
    let mut result: Option<Result<bool, String>> = wb.async_wait_poll();
    let mut polls = 1;
    let mut judge = |res: &Option<Result<bool, String>>, m: &Model, acc: &mut Acc, when: &str| {
      if let Some(r) = res {
        match r {
          Ok(true) => {
            if case.writer_reliable && !m.pending.is_empty() {
              acc.violate("C20/no-false-yes:async-completed-while-a-matched-reliable-reader-has-not-acknowledged", json!({"when": when, "pending_readers": m.pending}), replay());
            }
          }
          other => acc.violate("C20/async:completed-with-no-or-error", json!({"when": when, "result": format!("{other:?}")}), replay()),
        }
      }
    };
    judge(&result, &m, acc, "first-poll");
    macro_rules! repoll_if_woken {
      ($when:expr) => {
        if result.is_none() {
          let w = wb.async_wake_count();
          if w > wakes_seen {
            wakes_seen = w;
            result = wb.async_wait_poll();
            polls += 1;
            judge(&result, &m, acc, $when);
            // a poll may itself wake (self-wake): follow it a bounded number of times
            let mut guard = 0;
            while result.is_none() && wb.async_wake_count() > wakes_seen && guard < 8 {
              wakes_seen = wb.async_wake_count();
              result = wb.async_wait_poll();
              polls += 1;
              guard += 1;
              judge(&result, &m, acc, $when);
            }
          }
        }
      };
    }
    wb.process_commands();
    repoll_if_woken!("after-writer-processed-command");
    if queue_full {
      // the retried send got the command in only now: let the Writer consume it before
      // any further event, so that "matched at the call" means the same set on both sides
      wb.process_commands();
      repoll_if_woken!("after-writer-processed-late-command");
    }
    for (i, ev) in case.post.iter().enumerate() {
      if result.is_none() && case.spurious_polls >> i & 1 == 1 {
        // every poll hands over a waker of a new generation; wakes of older generations do not count
        wakes_seen = wb.async_wake_count();
        result = wb.async_wait_poll();
        polls += 1;
        out.spurious_polls += 1;
        judge(&result, &m, acc, &format!("spurious-poll-before-post-event-{i}"));
        if result.is_some() {
          break;
        }
      }
      let abs = m.apply(ev);
      if let Some((r, base)) = abs {
        if m.matched[r] && m.reliable[r] && (base == m.wait_until || base == m.wait_until + 1) {
          out.boundary_acks += 1;
        }
      }
      apply_to_bench(&mut wb, ev, abs, &mut counts, &mut next_id);
      wb.process_commands();
      repoll_if_woken!(&format!("after-post-event-{i}"));
      if result.is_some() {
        break;
      }
    }
    let cond_true = !case.writer_reliable || m.pending.is_empty();
    match (&result, cond_true) {
      (Some(Ok(true)), _) => out.completed_true = true,
      (None, true) => {
        acc.violate(
          "C20/async-complete:future-not-woken-after-condition-became-true",
          json!({"polls": polls, "wakes_of_latest_waker": wb.async_wake_count(), "wakes_of_superseded_wakers": wb.async_stale_wake_count(), "condition_true_at_call": sim_pending_at_call_empty(case, &m), "note": "executor discipline: the future is re-polled only when its waker was invoked"}),
          replay(),
        );
      }
      (None, false) => out.stayed_pending = true,
      _ => {}
    }
  }
  out
}

fn sim_pending_at_call_empty(case: &FCase, _m: &Model) -> bool {
  let mut s = Model::default();
  for ev in &case.pre {
    s.apply(ev);
  }
  s.call();
  s.pending.is_empty()
}


// ----------------------------------------------------------------------------
// two application threads waiting on one DataWriter at the same time
// ----------------------------------------------------------------------------

pub struct TwoOutcome {
  pub both_said_no: bool,
  pub acked_in_time: bool,
}

/// One reliable reader that has acknowledged only a prefix (or nothing) of what was written; thread A calls
/// wait_for_acknowledgments, the Writer takes the command, thread B calls it too (the Writer has one waiter slot, so
/// B's command replaces A's), nothing further is acknowledged (or everything is, shortly before the timeouts).
/// Whatever the implementation does with the displaced waiter, neither call may report success while the reader
/// has not acknowledged everything written before that call.
pub fn run_two_waiters(rng: &mut Rng, acc: &mut Acc, tag: &Value) -> TwoOutcome {
  let mut wb = WriterBench::new(WbCfg { reliable: true, history: 0, transient_local: false, frag_size: 0, writer_key: [0, 0, 0x42] });
  let nwrites = 1 + rng.below(5) as i64;
  let acked_prefix = rng.below(nwrites as u64) as i64; // 0..nwrites-1 samples acknowledged before the calls
  let late_ack = rng.chance(1, 3);
  let gap_ms = rng.below(30);
  let replay = || json!({"case": tag, "writes": nwrites, "acknowledged_before_the_calls": acked_prefix, "everything_acknowledged_later": late_ack});
  let mut out = TwoOutcome { both_said_no: false, acked_in_time: false };
  wb.match_reader(reader_guid(0), true, format!("127.0.0.1:{}", reader_port(0)).parse().unwrap());
  for k in 0..nwrites {
    let _ = wb.write(VSample { key: 1, id: 100 + k as u32, blob: vec![7] }, None, None);
  }
  let g = reader_guid(0);
  let prefix: [u8; 12] = g[0..12].try_into().unwrap();
  let reid: [u8; 4] = g[12..16].try_into().unwrap();
  let mut count = 0;
  let mut ack = |wb: &mut WriterBench, base: i64| {
    let mut dg = wire::header(&prefix);
    wire::info_dst(&mut dg, true, &wb.own_prefix);
    count += 1;
    wire::acknack(&mut dg, true, reid, wb.writer_entity_id(), base, 0, &[], count, true);
    wb.inject(&dg);
  };
  ack(&mut wb, acked_prefix + 1);
  let timeout_ms = 160u64;
  wb.sync_wait_spawn(timeout_ms);
  let t0 = Instant::now();
  while t0.elapsed() < Duration::from_millis(500) {
    wb.process_commands();
    if wb.has_ack_waiter() || wb.sync_wait_finished() {
      break;
    }
    std::thread::sleep(Duration::from_micros(200));
  }
  std::thread::sleep(Duration::from_millis(gap_ms));
  wb.sync_wait2_spawn(timeout_ms);
  // the Writer picks up the second command; keep serving its queue while both threads wait
  let t1 = Instant::now();
  let mut acked_at: Option<f64> = None;
  while t1.elapsed() < Duration::from_millis(timeout_ms + 200) {
    wb.process_commands();
    if late_ack && acked_at.is_none() && t1.elapsed() > Duration::from_millis(60) {
      ack(&mut wb, nwrites + 1);
      acked_at = Some(t0.elapsed().as_secs_f64());
      out.acked_in_time = true;
    }
    if wb.sync_wait_finished() && t1.elapsed() > Duration::from_millis(timeout_ms + 40) {
      break;
    }
    std::thread::sleep(Duration::from_micros(300));
  }
  let ra = wb.sync_wait_join();
  let rb = wb.sync_wait2_join();
  let mut nos = 0;
  for (who, r) in [("first", ra), ("second", rb)] {
    match r {
      Some((Ok(true), el)) => {
        // success is legitimate only after everything was acknowledged
        if acked_at.is_none() {
          acc.violate(
            format!("C20/no-false-yes:sync-success-while-a-matched-reliable-reader-has-not-acknowledged:two-concurrent-waits:{who}-caller"),
            json!({"caller": who, "elapsed_s": el, "written": nwrites, "acknowledged": acked_prefix}),
            replay(),
          );
        }
      }
      Some((Ok(false), _)) => nos += 1,
      Some((Err(e), _)) => acc.violate("C20/error:sync-wait-failed:two-concurrent-waits", json!({"caller": who, "err": e}), replay()),
      None => {}
    }
  }
  out.both_said_no = nos == 2;
  out
}
