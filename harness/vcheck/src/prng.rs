//! SplitMix64: every case derives its own sub-seed from (VERIF_SEED, case index).
#[derive(Clone, Debug)]
pub struct Rng(pub u64);

impl Rng {
  pub fn new(seed: u64) -> Rng {
    Rng(seed.wrapping_mul(0x9E3779B97F4A7C15) ^ 0xD1B54A32D192ED03)
  }
  pub fn derive(seed: u64, stream: u64, index: u64) -> Rng {
    let mut r = Rng::new(seed ^ stream.rotate_left(32));
    r.0 = r.0.wrapping_add(index.wrapping_mul(0xBF58476D1CE4E5B9));
    r.next();
    r
  }
  pub fn next(&mut self) -> u64 {
    self.0 = self.0.wrapping_add(0x9E3779B97F4A7C15);
    let mut z = self.0;
    z = (z ^ (z >> 30)).wrapping_mul(0xBF58476D1CE4E5B9);
    z = (z ^ (z >> 27)).wrapping_mul(0x94D049BB133111EB);
    z ^ (z >> 31)
  }
  /// uniform in [0, n)
  pub fn below(&mut self, n: u64) -> u64 {
    if n == 0 {
      0
    } else {
      self.next() % n
    }
  }
  pub fn range(&mut self, lo: i64, hi_incl: i64) -> i64 {
    lo + self.below((hi_incl - lo + 1) as u64) as i64
  }
  pub fn chance(&mut self, num: u64, den: u64) -> bool {
    self.below(den) < num
  }
  pub fn pick<'a, T>(&mut self, v: &'a [T]) -> &'a T {
    &v[self.below(v.len() as u64) as usize]
  }
  pub fn bytes(&mut self, n: usize) -> Vec<u8> {
    (0..n).map(|_| self.next() as u8).collect()
  }
  pub fn shuffle<T>(&mut self, v: &mut [T]) {
    for i in (1..v.len()).rev() {
      let j = self.below(i as u64 + 1) as usize;
      v.swap(i, j);
    }
  }
}

pub fn fnv64(data: &[u8]) -> u64 {
  let mut h: u64 = 0xcbf29ce484222325;
  for b in data {
    h ^= *b as u64;
    h = h.wrapping_mul(0x100000001b3);
  }
  h
}
