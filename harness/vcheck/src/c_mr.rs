//! C17 front end: required protection cannot be bypassed by sending plaintext.
//!
//! The in-crate driver (`rustdds::verif::sec::mr`) owns a `MessageReceiver` with real security
//! plugins configured from the governance document this front end generates, five readers
//! (protected topic, unprotected topic, SPDP, stateless-message, key-exchange) and the acknack
//! channel. This file builds every datagram with the independent wire builder, asks the driver's
//! remote parties to protect pieces of them, remembers for every sample id / ACKNACK count
//! exactly which protection it was sent under, and judges what came out by pure lookup.
use std::collections::{BTreeMap, BTreeSet};

use rustdds::verif::{
  net,
  sec::mr::{Ids, MrBench, MrCfg, Reached, Who, EP_COUNT, EP_OPEN, EP_PROT, EP_SPDP, EP_STATELESS, EP_VOLATILE},
};
use serde_json::{json, Value};

use crate::{
  ctx::{hex, par_cases, Acc, Args, Report},
  prng::{fnv64, Rng},
  wire,
};

const STREAM: u64 = 0x1717;
/// one constant fragment size (the FragmentAssembler fixes it per writer); a DATAFRAG carries all
/// fragments of its sample
const FRAG_SIZE: u16 = 16;

const ID_INFO_SRC: u8 = 0x0c;
const ID_INFO_REPLY: u8 = 0x0f;
const ID_SRTPS_POSTFIX: u8 = 0x34;

const SLOT_NAME: [&str; EP_COUNT] = ["prot", "open", "spdp", "stateless", "volatile"];

// ---------------------------------------------------------------------------------------------
// configuration

#[derive(Clone, Copy, Debug, PartialEq, Eq)]
enum K {
  None,
  Sign,
  Encrypt,
}
impl K {
  fn from(n: u64) -> K {
    match n % 3 {
      0 => K::None,
      1 => K::Sign,
      _ => K::Encrypt,
    }
  }
  fn letter(self) -> char {
    match self {
      K::None => 'N',
      K::Sign => 'S',
      K::Encrypt => 'E',
    }
  }
  fn xml(self, origin_auth: bool) -> &'static str {
    match (self, origin_auth) {
      (K::None, _) => "NONE",
      (K::Sign, false) => "SIGN",
      (K::Sign, true) => "SIGN_WITH_ORIGIN_AUTHENTICATION",
      (K::Encrypt, false) => "ENCRYPT",
      (K::Encrypt, true) => "ENCRYPT_WITH_ORIGIN_AUTHENTICATION",
    }
  }
}

#[derive(Clone, Debug)]
struct Conf {
  rtps: K,
  rtps_oa: bool,
  meta: K,
  meta_oa: bool,
  data: K,
  /// entity id order of the receiver's two user readers
  prot_reader_first: bool,
  governance_xml: String,
}
impl Conf {
  fn tag(&self) -> String {
    format!("{}{}{}", self.rtps.letter(), self.meta.letter(), self.data.letter())
  }
}

const PERMISSIONS_XML: &str = "<?xml version=\"1.0\" encoding=\"UTF-8\"?>\n<dds xmlns:xsi=\"http://www.w3.org/2001/XMLSchema-instance\"\n    xsi:noNamespaceSchemaLocation=\"http://www.omg.org/spec/DDS-Security/20170901/omg_shared_ca_permissions.xsd\">\n  <permissions>\n    <grant name=\"g0\">\n      <subject_name>CN=c17_party,O=verif</subject_name>\n      <validity>\n        <not_before>2020-01-01T00:00:00</not_before>\n        <not_after>2100-01-01T00:00:00</not_after>\n      </validity>\n      <allow_rule>\n        <domains>\n          <id>0</id>\n        </domains>\n        <publish>\n          <topics>\n            <topic>*</topic>\n          </topics>\n        </publish>\n        <subscribe>\n          <topics>\n            <topic>*</topic>\n          </topics>\n        </subscribe>\n      </allow_rule>\n      <default>DENY</default>\n    </grant>\n  </permissions>\n</dds>\n";
const SUBJECT: &str = "CN=c17_party,O=verif";

fn topic_rule(rng: &mut Rng, expr: &str, meta: &str, data: &str) -> String {
  let b = |rng: &mut Rng| if rng.chance(1, 2) { "true" } else { "false" };
  format!(
    "        <topic_rule>\n          <topic_expression>{}</topic_expression>\n          <enable_discovery_protection>{}</enable_discovery_protection>\n          <enable_liveliness_protection>{}</enable_liveliness_protection>\n          <enable_read_access_control>{}</enable_read_access_control>\n          <enable_write_access_control>{}</enable_write_access_control>\n          <metadata_protection_kind>{}</metadata_protection_kind>\n          <data_protection_kind>{}</data_protection_kind>\n        </topic_rule>\n",
    expr,
    b(rng),
    b(rng),
    b(rng),
    b(rng),
    meta,
    data
  )
}

fn domain_rule(rng: &mut Rng, domains: &str, rtps: &str, topic_rules: &str) -> String {
  let kinds = ["ENCRYPT_WITH_ORIGIN_AUTHENTICATION", "SIGN_WITH_ORIGIN_AUTHENTICATION", "ENCRYPT", "SIGN", "NONE"];
  format!(
    "    <domain_rule>\n      <domains>\n{}      </domains>\n      <allow_unauthenticated_participants>false</allow_unauthenticated_participants>\n      <enable_join_access_control>{}</enable_join_access_control>\n      <rtps_protection_kind>{}</rtps_protection_kind>\n      <discovery_protection_kind>{}</discovery_protection_kind>\n      <liveliness_protection_kind>{}</liveliness_protection_kind>\n      <topic_access_rules>\n{}      </topic_access_rules>\n    </domain_rule>\n",
    domains,
    if rng.chance(1, 2) { "true" } else { "false" },
    rtps,
    rng.pick(&kinds),
    rng.pick(&kinds),
    topic_rules
  )
}

/// The governance document of a case: the rule for domain 0 carries the chosen kinds for
/// `vt_prot` and NONE/NONE for `vt_open`; decoys (a rule for another domain in front, a
/// non-matching topic rule in front, a catch-all topic rule with the opposite settings behind)
/// must not matter.
fn gen_conf(rng: &mut Rng, index: u64) -> Conf {
  let c = index % 27;
  let (rtps, meta, data) = (K::from(c / 9), K::from(c / 3), K::from(c));
  let rtps_oa = rtps != K::None && rng.chance(1, 4);
  let meta_oa = meta != K::None && rng.chance(1, 4);
  let basic = |k: K| k.xml(false);
  let mut rules = String::new();
  if rng.chance(1, 2) {
    rules.push_str(&topic_rule(rng, "zz_decoy*", "ENCRYPT", "ENCRYPT"));
  }
  let prot_expr = *rng.pick(&["vt_prot", "vt_pro*", "vt_pr?t", "vt_[p]rot"]);
  let prot = topic_rule(rng, prot_expr, meta.xml(meta_oa), basic(data));
  let open = topic_rule(rng, "vt_open", "NONE", "NONE");
  if rng.chance(1, 2) {
    rules.push_str(&prot);
    rules.push_str(&open);
  } else {
    rules.push_str(&open);
    rules.push_str(&prot);
  }
  if rng.chance(1, 2) {
    // behind the specific rules: the first match decides
    let (m, d) = if meta == K::None { ("ENCRYPT", "ENCRYPT") } else { ("NONE", "NONE") };
    rules.push_str(&topic_rule(rng, "*", m, d));
  }
  let mut s = String::from("<?xml version=\"1.0\" encoding=\"UTF-8\"?>\n<dds xmlns:xsi=\"http://www.w3.org/2001/XMLSchema-instance\"\nxsi:noNamespaceSchemaLocation=\"http://www.omg.org/spec/DDS-SECURITY/20170901/omg_shared_ca_governance.xsd\">\n  <domain_access_rules>\n");
  if rng.chance(1, 3) {
    // a rule for other domains in front, with the opposite rtps setting
    let other_rtps = if rtps == K::None { "ENCRYPT" } else { "NONE" };
    let (m, d) = if meta == K::None { ("SIGN", "SIGN") } else { ("NONE", "NONE") };
    let tr = format!("{}{}", topic_rule(rng, "vt_prot", m, d), topic_rule(rng, "vt_open", "ENCRYPT", "ENCRYPT"));
    s.push_str(&domain_rule(rng, "        <id>7</id>\n        <id_range>\n          <min>20</min>\n          <max>30</max>\n        </id_range>\n", other_rtps, &tr));
  }
  let domains = if rng.chance(1, 2) { "        <id>0</id>\n" } else { "        <id_range>\n          <min>0</min>\n          <max>3</max>\n        </id_range>\n" };
  s.push_str(&domain_rule(rng, domains, rtps.xml(rtps_oa), &rules));
  s.push_str("  </domain_access_rules>\n</dds>\n");
  Conf { rtps, rtps_oa, meta, meta_oa, data, prot_reader_first: (index / 27) % 2 == 0, governance_xml: s }
}

/// what the configuration requires of traffic for an endpoint of a slot
#[derive(Clone, Copy, Debug, PartialEq, Eq)]
struct Req {
  rtps: bool,
  sub: bool,
  pay: bool,
}
fn req_of_unit(conf: &Conf, slot: usize, kind: UKind) -> Req {
  let r = req_of(conf, slot, kind.to_writer());
  Req { pay: r.pay && kind.has_payload(), ..r }
}
fn req_of(conf: &Conf, slot: usize, to_writer: bool) -> Req {
  let r = match slot {
    EP_PROT => Req { rtps: conf.rtps != K::None, sub: conf.meta != K::None, pay: conf.data != K::None },
    EP_OPEN => Req { rtps: conf.rtps != K::None, sub: false, pay: false },
    // DDS Security 8.4.2.4 table 27: no rtps protection for the three bootstrap topics;
    // 7.4.8 / 8.8.8.1: the key-exchange topic is always submessage-encrypted
    EP_VOLATILE => Req { rtps: false, sub: true, pay: false },
    _ => Req { rtps: false, sub: false, pay: false },
  };
  if to_writer {
    Req { pay: false, ..r }
  } else {
    r
  }
}

// ---------------------------------------------------------------------------------------------
// units: one entity submessage each, identified by a sample id or an ACKNACK count

#[derive(Clone, Copy, Debug, PartialEq, Eq)]
enum UKind {
  Data,
  DataFrag,
  Gap,
  AckNack,
  NackFrag,
  Heartbeat,
  HeartbeatFrag,
}
impl UKind {
  fn name(self) -> &'static str {
    match self {
      UKind::Data => "DATA",
      UKind::DataFrag => "DATAFRAG",
      UKind::Gap => "GAP",
      UKind::AckNack => "ACKNACK",
      UKind::NackFrag => "NACKFRAG",
      UKind::Heartbeat => "HEARTBEAT",
      UKind::HeartbeatFrag => "HEARTBEATFRAG",
    }
  }
  fn to_writer(self) -> bool {
    matches!(self, UKind::AckNack | UKind::NackFrag)
  }
  fn has_payload(self) -> bool {
    matches!(self, UKind::Data | UKind::DataFrag)
  }
  /// delivery is visible at the observation points
  fn observable(self) -> bool {
    !matches!(self, UKind::Heartbeat | UKind::HeartbeatFrag)
  }
}

/// who applied a protection layer
#[derive(Clone, Copy, Debug, PartialEq, Eq)]
enum Layer {
  None,
  /// the genuine peer with the keys of the endpoint pair the submessage is addressed to
  Peer,
  /// the genuine peer, but with the keys of another endpoint pair (slot)
  PeerOtherKeys(usize),
  /// the other genuine peer (its keys for the same slot), under the claimed peer's name
  OtherPeer,
  ImpSame,
  ImpOther,
}
impl Layer {
  fn name(self) -> String {
    match self {
      Layer::None => "none".into(),
      Layer::Peer => "peer".into(),
      Layer::PeerOtherKeys(k) => format!("peer-keys-of-{}", SLOT_NAME[k]),
      Layer::OtherPeer => "keys-of-the-other-peer".into(),
      Layer::ImpSame => "imposter-same-prefix".into(),
      Layer::ImpOther => "imposter-unregistered".into(),
    }
  }
  /// `src`: the genuine peer (0, 1) the traffic claims to come from
  fn who(self, src: usize) -> Who {
    let genuine = |i: usize| if i == 0 { Who::Peer } else { Who::Peer2 };
    match self {
      Layer::ImpSame => Who::ImposterSamePrefix,
      Layer::ImpOther => Who::ImposterOtherPrefix,
      Layer::OtherPeer => genuine(1 - src),
      _ => genuine(src),
    }
  }
}

#[derive(Clone, Debug)]
struct Recipe {
  kind: UKind,
  slot: usize,
  unknown_receiver: bool,
  pay: Layer,
  sub: Layer,
  /// reuse this sequence number (probe after a GAP)
  fixed_sn: Option<i64>,
  /// address the unit to the local reader of this slot although its writer id is the one of `slot`
  /// (e.g. a bootstrap writer id in front of a user reader)
  reader_slot: Option<usize>,
}

#[derive(Clone, Debug)]
struct Unit {
  /// sample id (DATA / DATAFRAG), ACKNACK / NACKFRAG count, 0 for unobserved kinds
  id: u32,
  kind: UKind,
  /// which genuine peer (0, 1) the unit claims as its source (RTPS header / INFO_SRC prefix and
  /// that peer's writer / reader entity id for the slot)
  src: usize,
  slot: usize,
  unknown_receiver: bool,
  sn: i64,
  pay: Layer,
  sub: Layer,
  wrap: Layer,
  layout: &'static str,
  /// protection the unit really had when it arrived (genuine keys of its own endpoint pair,
  /// well-formed framing)
  have_rtps: bool,
  have_sub: bool,
  have_pay: bool,
  /// unambiguous case of "keeps flowing": clean datagram, exactly the required protection
  must: bool,
  /// index of the datagram that carried it
  dgram: usize,
  /// for a probe: index of the GAP unit it probes
  probe_of: Option<usize>,
}

impl Unit {
  fn sufficient_for(&self, req: Req, same_endpoint: bool) -> bool {
    (!req.rtps || self.have_rtps) && (!req.sub || (self.have_sub && same_endpoint)) && (!req.pay || (self.have_pay && same_endpoint))
  }
  fn missing(&self, req: Req, same_endpoint: bool) -> String {
    let mut v = vec![];
    if req.rtps && !self.have_rtps {
      v.push("rtps");
    }
    if req.sub && !(self.have_sub && same_endpoint) {
      v.push("submessage");
    }
    if req.pay && !(self.have_pay && same_endpoint) {
      v.push("payload");
    }
    v.join("+")
  }
  fn sent_as(&self) -> String {
    format!("wrap={},sub={},pay={}", self.wrap.name(), self.sub.name(), self.pay.name())
  }
  fn json(&self) -> Value {
    json!({"id": self.id, "kind": self.kind.name(), "claimed_source": if self.src == 0 {"peer1"} else {"peer2"}, "endpoint": SLOT_NAME[self.slot], "to_local_writer": self.kind.to_writer(), "receiver_id": if self.unknown_receiver {"ENTITYID_UNKNOWN"} else {"explicit"},
      "sn": self.sn, "layout": self.layout, "message_level": self.wrap.name(), "submessage_level": self.sub.name(), "payload_level": self.pay.name(),
      "arrived_with": {"rtps": self.have_rtps, "submessage": self.have_sub, "payload": self.have_pay}, "must_flow": self.must, "datagram": self.dgram})
  }
}

fn info_src(out: &mut Vec<u8>, le: bool, prefix: &[u8; 12]) {
  let mut b = vec![0u8; 4];
  b.extend_from_slice(&[2, 4, 0x01, 0x12]);
  b.extend_from_slice(prefix);
  wire::submsg(out, ID_INFO_SRC, 0, le, &b);
}
fn info_reply(out: &mut Vec<u8>, le: bool, port: u32) {
  let mut w = wire::W::new(le);
  w.u32(1);
  w.i32(1); // LOCATOR_KIND_UDPv4
  w.u32(port);
  w.bytes(&[0, 0, 0, 0, 0, 0, 0, 0, 0, 0, 0, 0, 127, 0, 0, 1]);
  // RTPS 9.4.5.9: without the M flag the body ends here. The implementation's reader wants a
  // presence octet for the multicast list even then (a body that ends here makes it reject the
  // whole message, which is not this property's subject), so four zero octets follow; a reader
  // that follows the specification skips them.
  w.u32(0);
  wire::submsg(out, ID_INFO_REPLY, 0, le, &w.buf);
}

/// (offset, id, end) of every submessage of a serialized message
fn frames(wire_bytes: &[u8]) -> Vec<(usize, u8, usize)> {
  let mut v = vec![];
  let mut off = 20;
  while off + 4 <= wire_bytes.len() {
    let (id, flags) = (wire_bytes[off], wire_bytes[off + 1]);
    let l = if flags & 1 == 1 { u16::from_le_bytes([wire_bytes[off + 2], wire_bytes[off + 3]]) } else { u16::from_be_bytes([wire_bytes[off + 2], wire_bytes[off + 3]]) } as usize;
    let end = if l == 0 && id != 0x01 && id != 0x09 { wire_bytes.len() } else { (off + 4 + l).min(wire_bytes.len()) };
    v.push((off, id, end));
    off = end;
  }
  v
}

struct Gen<'a> {
  bench: &'a MrBench,
  ids: Ids,
  conf: &'a Conf,
  rng: Rng,
  next_id: u32,
  /// the genuine peer the datagram under construction claims as its source
  cur_src: usize,
  sn: [[i64; EP_COUNT]; 2],
  units: Vec<Unit>,
  dgrams: Vec<Vec<u8>>,
  errors: Vec<String>,
}

/// a unit not yet placed in a datagram
struct Pending {
  unit: Unit,
  pieces: Vec<Vec<u8>>,
}

impl<'a> Gen<'a> {
  fn le(&mut self) -> bool {
    !self.rng.chance(1, 4)
  }

  fn make(&mut self, r: &Recipe) -> Pending {
    let to_writer = r.kind.to_writer();
    let src = self.cur_src;
    let id = if r.kind.observable() && r.kind != UKind::Gap {
      self.next_id += 1;
      self.next_id
    } else {
      0
    };
    let sn = match r.fixed_sn {
      Some(s) => s,
      None => {
        self.sn[src][r.slot] += 1;
        self.sn[src][r.slot]
      }
    };
    let le = self.le();
    let (reader_id, writer_id) = if to_writer {
      (self.ids.remote_readers[src][r.slot], if r.unknown_receiver { wire::ENTITYID_UNKNOWN } else { self.ids.local_writers[r.slot] })
    } else {
      (if r.unknown_receiver { wire::ENTITYID_UNKNOWN } else { self.ids.local_readers[r.reader_slot.unwrap_or(r.slot)] }, self.ids.remote_writers[src][r.slot])
    };
    // ---- payload level
    let mut pay = Layer::None;
    let mut payload = vec![];
    let mut plain_len = 0;
    if r.kind.has_payload() {
      let blob_len = if self.rng.chance(1, 8) { self.rng.below(180) } else { self.rng.below(24) } as usize;
      let blob = self.rng.bytes(blob_len);
      let ple = self.le();
      let plain = wire::payload(if ple { wire::CDR_LE } else { wire::CDR_BE }, &wire::vsample_cdr(id, id, &blob, ple));
      plain_len = plain.len();
      payload = plain.clone();
      if r.pay != Layer::None {
        match self.bench.protect_payload(r.pay.who(src), r.slot, &plain) {
          Ok(Some(enc)) => {
            payload = enc;
            pay = r.pay;
          }
          Ok(None) => {
            if r.pay == Layer::Peer && req_of(self.conf, r.slot, false).pay {
              self.errors.push(format!("the peer's {} writer did not protect the payload although the configuration requires it", SLOT_NAME[r.slot]));
            }
          }
          Err(e) => self.errors.push(format!("protect_payload: {e}")),
        }
      }
    }
    // ---- the plaintext submessage
    let mut sm = vec![];
    match r.kind {
      UKind::Data => wire::data(&mut sm, le, &wire::DataMsg { reader_id, writer_id, sn, inline_qos: None, payload: Some(payload), key_flag: false }),
      UKind::DataFrag => wire::data_frag(
        &mut sm,
        le,
        &wire::DataFragMsg { reader_id, writer_id, sn, frag_start: 1, frags_in_submsg: ((plain_len + FRAG_SIZE as usize - 1) / FRAG_SIZE as usize) as u16, frag_size: FRAG_SIZE, sample_size: plain_len as u32, inline_qos: None, key_flag: false, bytes: payload },
        true,
      ),
      UKind::Gap => wire::gap(&mut sm, le, reader_id, writer_id, sn, sn + 1, 0, &[]),
      UKind::Heartbeat => {
        let c = self.rng.range(1, 1 << 20) as i32;
        let f = self.rng.chance(1, 2);
        wire::heartbeat(&mut sm, le, reader_id, writer_id, 1, sn, c, f, false)
      }
      UKind::HeartbeatFrag => {
        let c = self.rng.range(1, 1 << 20) as i32;
        wire::heartbeat_frag(&mut sm, le, reader_id, writer_id, sn, 1, c)
      }
      UKind::AckNack => {
        let f = self.rng.chance(1, 2);
        wire::acknack(&mut sm, le, reader_id, writer_id, 1, 0, &[], id as i32, f)
      }
      UKind::NackFrag => wire::nack_frag(&mut sm, le, reader_id, writer_id, 1, 1, 1, &[1], id as i32),
    }
    // ---- submessage level
    let mut sub = Layer::None;
    let mut pieces = vec![sm.clone()];
    if r.sub != Layer::None {
      let key_slot = match r.sub {
        Layer::PeerOtherKeys(k) => k,
        _ => r.slot,
      };
      match self.bench.protect_submessage(r.sub.who(src), key_slot, &sm) {
        Ok(Some([a, b, c])) => {
          pieces = vec![a, b, c];
          sub = r.sub;
        }
        Ok(None) => {
          if r.sub == Layer::Peer && req_of(self.conf, r.slot, to_writer).sub {
            self.errors.push(format!("the peer's {} endpoint did not protect the submessage although the configuration requires it", SLOT_NAME[r.slot]));
          }
        }
        Err(e) => self.errors.push(format!("protect_submessage: {e}")),
      }
    }
    Pending {
      unit: Unit {
        id,
        kind: r.kind,
        src,
        slot: r.slot,
        unknown_receiver: r.unknown_receiver,
        sn,
        pay,
        sub,
        wrap: Layer::None,
        layout: "",
        have_rtps: false,
        have_sub: false,
        have_pay: pay == Layer::Peer,
        must: false,
        dgram: 0,
        probe_of: None,
      },
      pieces,
    }
  }

  /// the recipe that applies exactly the protection the configuration requires
  fn correct(&self, kind: UKind, slot: usize, unknown_receiver: bool) -> Recipe {
    let q = req_of(self.conf, slot, kind.to_writer());
    Recipe { kind, slot, unknown_receiver, pay: if q.pay && kind.has_payload() { Layer::Peer } else { Layer::None }, sub: if q.sub { Layer::Peer } else { Layer::None }, fixed_sn: None, reader_slot: None }
  }
  fn plain(&self, kind: UKind, slot: usize, unknown_receiver: bool) -> Recipe {
    Recipe { kind, slot, unknown_receiver, pay: Layer::None, sub: Layer::None, fixed_sn: None, reader_slot: None }
  }

  fn header(&self, prefix_of: Layer) -> Vec<u8> {
    wire::header(if prefix_of == Layer::ImpOther { &self.ids.other_prefix } else { &self.ids.peer_prefix[self.cur_src] })
  }

  /// Clean layout: [context] unit ... unit, optionally protected as a whole. `spoof`: the RTPS
  /// header names the unregistered participant and an INFO_SRC names the peer.
  fn emit_clean(&mut self, mut pend: Vec<Pending>, wrap: Layer, spoof: bool, layout: &'static str) {
    let le = self.le();
    let header_of = if spoof || wrap == Layer::ImpOther { Layer::ImpOther } else { Layer::Peer };
    let mut d = self.header(header_of);
    let mut source_is_peer = header_of != Layer::ImpOther;
    if self.rng.chance(1, 3) {
      let t = self.rng.next();
      wire::info_ts(&mut d, le, t);
    }
    if spoof {
      let p = self.ids.peer_prefix[self.cur_src];
      info_src(&mut d, le, &p);
      source_is_peer = true;
    }
    match self.rng.below(4) {
      0 => {
        let p = self.ids.local_prefix;
        wire::info_dst(&mut d, le, &p)
      }
      1 => wire::info_dst(&mut d, le, &[0u8; 12]),
      _ => {}
    }
    // (not inside a message that is protected as a whole: encode_message re-serialises every
    // submessage, and the implementation writes INFO_REPLY shorter than it was read)
    if wrap == Layer::None && self.rng.chance(1, 6) {
      info_reply(&mut d, le, 7400);
    }
    for p in &pend {
      for piece in &p.pieces {
        d.extend_from_slice(piece);
      }
    }
    // ---- message level
    let mut applied = Layer::None;
    if wrap != Layer::None {
      match self.bench.protect_message(wrap.who(self.cur_src), &d) {
        Ok(Some(w)) => {
          d = w;
          applied = wrap;
        }
        Ok(None) => {
          if wrap == Layer::Peer && self.conf.rtps != K::None {
            self.errors.push("the peer did not protect the message although the configuration requires rtps protection".into());
          }
        }
        Err(e) => self.errors.push(format!("protect_message: {e} [{}]", hex(&d))),
      }
    }
    let di = self.dgrams.len();
    for p in pend.iter_mut() {
      let u = &mut p.unit;
      u.wrap = applied;
      u.layout = layout;
      u.dgram = di;
      u.have_rtps = applied == Layer::Peer && !spoof;
      u.have_sub = u.sub == Layer::Peer;
      let q = req_of_unit(self.conf, u.slot, u.kind);
      let genuine_only = matches!(u.pay, Layer::None | Layer::Peer) && matches!(u.sub, Layer::None | Layer::Peer) && matches!(applied, Layer::None | Layer::Peer);
      let reachable = source_is_peer || (!u.kind.to_writer() && (u.slot == EP_SPDP || u.slot == EP_STATELESS)) || u.kind.to_writer();
      // an ACKNACK without a writer id has no addressee: never judged
      let addressed = !(u.kind.to_writer() && u.unknown_receiver);
      u.must = layout == "clean" && genuine_only && reachable && addressed && u.kind.observable() && u.sufficient_for(q, true) && !(applied == Layer::Peer && spoof);
    }
    self.dgrams.push(d);
    for p in pend {
      self.units.push(p.unit);
    }
  }

  /// A datagram assembled from raw parts; every unit in it is only judged by the first rule.
  /// `units`: (unit, submessage level intact?, message level intact?). "Intact" = every piece of
  /// the genuine protection (prefix, body, postfix with the MAC) made for this unit is present
  /// in the datagram, in whatever arrangement: a receiver that managed to verify and deliver it
  /// would not have delivered unprotected traffic, so the rule must not object. Not intact = the
  /// piece carrying the MAC or the IV is missing, or the unit never had that protection.
  fn emit_raw(&mut self, header_of: Layer, parts: Vec<Vec<u8>>, units: Vec<(Unit, bool, bool)>, layout: &'static str) {
    let mut d = self.header(header_of);
    for p in parts {
      d.extend_from_slice(&p);
    }
    let di = self.dgrams.len();
    self.dgrams.push(d);
    for (mut u, sub_intact, rtps_intact) in units {
      u.layout = layout;
      u.dgram = di;
      u.have_rtps = u.wrap == Layer::Peer && rtps_intact;
      u.have_sub = u.sub == Layer::Peer && sub_intact;
      u.must = false;
      self.units.push(u);
    }
  }

  fn reader_kind(&mut self) -> UKind {
    match self.rng.below(10) {
      0..=3 => UKind::Data,
      4..=5 => UKind::DataFrag,
      6..=7 => UKind::Gap,
      8 => UKind::Heartbeat,
      _ => UKind::HeartbeatFrag,
    }
  }

  /// a slot on which a GAP has an effect a probe can see (matched writer proxy, stateful reader)
  fn gap_ok(slot: usize) -> bool {
    matches!(slot, EP_PROT | EP_OPEN | EP_VOLATILE)
  }

  fn random_recipe(&mut self, slots: &[usize]) -> Recipe {
    let slot = *self.rng.pick(slots);
    let to_writer = self.rng.chance(1, 4);
    let mut kind = if to_writer {
      if self.rng.chance(2, 3) {
        UKind::AckNack
      } else {
        UKind::NackFrag
      }
    } else {
      self.reader_kind()
    };
    if kind == UKind::Gap && !Self::gap_ok(slot) {
      kind = UKind::Data;
    }
    let q = req_of(self.conf, slot, to_writer);
    let unknown_receiver = self.rng.chance(1, 3);
    let layer = |rng: &mut Rng, required: bool, slot: usize, allow_other_keys: bool| -> Layer {
      if required {
        match rng.below(10) {
          0..=4 => Layer::Peer,
          5..=6 => Layer::None,
          7 => {
            if rng.chance(1, 2) {
              Layer::ImpSame
            } else {
              Layer::OtherPeer
            }
          }
          8 => Layer::ImpOther,
          _ => {
            if allow_other_keys {
              Layer::PeerOtherKeys(if slot == EP_VOLATILE { EP_PROT } else { EP_VOLATILE })
            } else {
              Layer::None
            }
          }
        }
      } else if allow_other_keys && rng.chance(1, 10) {
        Layer::PeerOtherKeys(if slot == EP_VOLATILE { EP_PROT } else { EP_VOLATILE })
      } else {
        Layer::None
      }
    };
    let sub = layer(&mut self.rng, q.sub, slot, true);
    let pay = if kind.has_payload() { layer(&mut self.rng, q.pay, slot, false) } else { Layer::None };
    Recipe { kind, slot, unknown_receiver, pay, sub, fixed_sn: None, reader_slot: None }
  }

  /// a genuine, correctly protected unit whose SEC_PREFIX / body / SEC_POSTFIX are used as raw
  /// material for the wrong sequences
  fn donor(&mut self) -> Option<Pending> {
    let slot = if self.conf.meta != K::None && self.rng.chance(2, 3) { EP_PROT } else { EP_VOLATILE };
    let kind = match self.rng.below(4) {
      0 => UKind::AckNack,
      1 => UKind::DataFrag,
      _ => UKind::Data,
    };
    let unknown = self.rng.chance(1, 4) && !kind.to_writer();
    let r = self.correct(kind, slot, unknown);
    let p = self.make(&r);
    if p.pieces.len() == 3 {
      Some(p)
    } else {
      self.errors.push("donor unit came back without submessage protection".into());
      None
    }
  }

  /// an attack unit: plaintext (or only payload-protected) submessage for the same endpoint
  fn attack_for(&mut self, slot: usize) -> Pending {
    let kind = match self.rng.below(5) {
      0 => UKind::AckNack,
      1 => UKind::DataFrag,
      2 if Self::gap_ok(slot) => UKind::Gap,
      _ => UKind::Data,
    };
    let unknown = self.rng.chance(1, 4) && !kind.to_writer();
    let mut r = self.plain(kind, slot, unknown);
    if kind.has_payload() && req_of(self.conf, slot, false).pay && self.rng.chance(1, 2) {
      r.pay = Layer::Peer;
    }
    self.make(&r)
  }

  fn wrong_sequence(&mut self) {
    self.cur_src = self.rng.below(2) as usize;
    let Some(d) = self.donor() else { return };
    let slot = d.unit.slot;
    let (p, b, z) = (d.pieces[0].clone(), d.pieces[1].clone(), d.pieces[2].clone());
    let a = self.attack_for(slot);
    let a1 = a.pieces[0].clone();
    match self.rng.below(11) {
      0 => self.emit_raw(Layer::Peer, vec![b, a1], vec![(d.unit, false, false), (a.unit, false, false)], "sec-body-alone"),
      1 => self.emit_raw(Layer::Peer, vec![z, a1], vec![(a.unit, false, false)], "sec-postfix-alone"),
      2 => self.emit_raw(Layer::Peer, vec![p, b, a1, z], vec![(d.unit, true, false), (a.unit, false, false)], "sec-prefix-then-two:genuine-first"),
      3 => self.emit_raw(Layer::Peer, vec![p, a1, b, z], vec![(d.unit, true, false), (a.unit, false, false)], "sec-prefix-then-two:plaintext-first"),
      4 => self.emit_raw(Layer::Peer, vec![p, b, a1], vec![(d.unit, false, false), (a.unit, false, false)], "sec-prefix-no-postfix:then-plaintext"),
      5 => {
        let a2 = self.attack_for(slot);
        let a21 = a2.pieces[0].clone();
        self.emit_raw(Layer::Peer, vec![p, a1, a21], vec![(a.unit, false, false), (a2.unit, false, false)], "sec-prefix-then-plaintext-only")
      }
      6 => self.emit_raw(Layer::Peer, vec![p, a1, z], vec![(a.unit, false, false)], "transplant:plaintext-between-genuine-prefix-and-postfix"),
      7 => {
        let order = *self.rng.pick(&[[2usize, 1, 0], [1, 0, 2], [0, 2, 1], [2, 0, 1], [1, 2, 0]]);
        let src = [p, b, z];
        let mut parts: Vec<Vec<u8>> = order.iter().map(|i| src[*i].clone()).collect();
        parts.push(a1);
        self.emit_raw(Layer::Peer, parts, vec![(d.unit, true, false), (a.unit, false, false)], "sec-triple-reordered")
      }
      8 => {
        // nested wrongly: a whole genuine triple inside another one
        let Some(d2) = self.donor() else { return };
        let (p2, b2, z2) = (d2.pieces[0].clone(), d2.pieces[1].clone(), d2.pieces[2].clone());
        self.emit_raw(Layer::Peer, vec![p, p2, b2, z2, z, a1], vec![(d2.unit, true, false), (a.unit, false, false)], "sec-nested")
      }
      9 => {
        // the donor's genuine triple, sent under the name of the unregistered participant
        self.emit_raw(Layer::ImpOther, vec![p, b, z, a1], vec![(d.unit, true, false), (a.unit, false, false)], "genuine-triple-from-unregistered-source")
      }
      _ => {
        // a dangling prefix at the end of one datagram must not carry over into the next
        self.emit_raw(Layer::Peer, vec![p.clone()], vec![], "sec-prefix-alone-at-end");
        self.emit_raw(Layer::Peer, vec![b, z, a1], vec![(d.unit, true, false), (a.unit, false, false)], "sec-body-and-postfix-in-next-datagram")
      }
    }
  }

  /// SRTPS-wrapped content in every wrong place (needs rtps protection in the configuration)
  fn wrong_srtps(&mut self) {
    if self.conf.rtps == K::None {
      return;
    }
    self.cur_src = self.rng.below(2) as usize;
    let n = 1 + self.rng.below(2);
    let mut pend = vec![];
    for _ in 0..n {
      let slot = if self.rng.chance(1, 2) { EP_PROT } else { EP_OPEN };
      let kind = match self.rng.below(4) {
        0 => UKind::AckNack,
        1 => UKind::DataFrag,
        _ => UKind::Data,
      };
      let r = self.correct(kind, slot, false);
      pend.push(self.make(&r));
    }
    let mut plain = self.header(Layer::Peer);
    for p in &pend {
      for piece in &p.pieces {
        plain.extend_from_slice(piece);
      }
    }
    let wrapped = match self.bench.protect_message(Layer::Peer.who(self.cur_src), &plain) {
      Ok(Some(w)) => w,
      Ok(None) => return self.errors.push("protect_message left the message unwrapped although rtps protection is configured".into()),
      Err(e) => return self.errors.push(format!("protect_message: {e}")),
    };
    let fr = frames(&wrapped);
    if fr.len() < 3 {
      return self.errors.push("wrapped message has fewer than 3 submessages".into());
    }
    let piece = |i: usize| wrapped[fr[i].0..fr[i].2].to_vec();
    let all: Vec<Vec<u8>> = (0..fr.len()).map(piece).collect();
    let slot_a = if self.rng.chance(1, 2) { EP_PROT } else { EP_OPEN };
    let a = self.attack_for(slot_a);
    let a1 = a.pieces[0].clone();
    let le = self.le();
    let mut lead = vec![];
    match self.rng.below(3) {
      0 => {
        let t = self.rng.next();
        wire::info_ts(&mut lead, le, t)
      }
      1 => {
        let p = self.ids.local_prefix;
        wire::info_dst(&mut lead, le, &p)
      }
      _ => {}
    }
    let last = all.len() - 1;
    if fr[last].1 != ID_SRTPS_POSTFIX {
      return self.errors.push("wrapped message does not end with SRTPS_POSTFIX".into());
    }
    // the inner units were protected as a whole by the peer; whether that protection is intact
    // depends on the layout
    let inner: Vec<Unit> = pend
      .into_iter()
      .map(|p| {
        let mut u = p.unit;
        u.wrap = Layer::Peer;
        u
      })
      .collect();
    let with_attack = |v: Vec<Unit>, rtps_intact: bool| {
      let mut o: Vec<(Unit, bool, bool)> = v.into_iter().map(|u| (u, true, rtps_intact)).collect();
      o.push((a.unit.clone(), false, false));
      o
    };
    match self.rng.below(6) {
      0 => {
        // something in front of SRTPS_PREFIX: an interpreter submessage, or the plaintext unit
        let mut parts = vec![if lead.is_empty() { a1.clone() } else { lead.clone() }];
        parts.extend(all.clone());
        if !lead.is_empty() {
          parts.push(a1);
        }
        self.emit_raw(Layer::Peer, parts, with_attack(inner, true), "srtps-prefix-not-first")
      }
      1 => {
        let mut parts: Vec<Vec<u8>> = all[..last].to_vec();
        parts.push(a1);
        self.emit_raw(Layer::Peer, parts, with_attack(inner, false), "srtps-without-postfix")
      }
      2 => {
        let mut parts = all.clone();
        parts.push(a1);
        self.emit_raw(Layer::Peer, parts, with_attack(inner, true), "srtps-then-trailing-plaintext")
      }
      3 => {
        // plaintext inserted between SRTPS_PREFIX and the protected content
        let mut parts = vec![all[0].clone(), a1];
        parts.extend(all[1..].iter().cloned());
        self.emit_raw(Layer::Peer, parts, with_attack(inner, true), "srtps-with-inserted-plaintext")
      }
      4 => {
        let mut parts = vec![all[last].clone()];
        parts.extend(all[1..last].iter().cloned());
        parts.push(all[0].clone());
        parts.push(a1);
        self.emit_raw(Layer::Peer, parts, with_attack(inner, true), "srtps-postfix-first-prefix-last")
      }
      _ => {
        // nested wrongly: the protected message inside a submessage-protection prefix
        let Some(d) = self.donor() else { return };
        let mut parts = vec![d.pieces[0].clone()];
        parts.extend(all.clone());
        parts.push(d.pieces[2].clone());
        parts.push(a1);
        self.emit_raw(Layer::Peer, parts, with_attack(inner, true), "srtps-inside-sec-prefix")
      }
    }
  }

  /// units behind an INFO_DST naming somebody else, or an INFO_SRC naming an unknown source
  fn wrong_context(&mut self) {
    self.cur_src = self.rng.below(2) as usize;
    let slots = [EP_PROT, EP_OPEN, EP_SPDP, EP_STATELESS, EP_VOLATILE];
    let r = self.random_recipe(&slots);
    let p = self.make(&r);
    let le = self.le();
    let mut lead = vec![];
    let other = self.ids.other_prefix;
    let layout = if self.rng.chance(1, 2) {
      wire::info_dst(&mut lead, le, &other);
      "after-info-dst-for-another-participant"
    } else {
      info_src(&mut lead, le, &other);
      "after-info-src-naming-unregistered-participant"
    };
    let mut parts = vec![lead];
    parts.extend(p.pieces.iter().cloned());
    self.emit_raw(Layer::Peer, parts, vec![(p.unit, true, false)], layout);
  }

  /// plaintext DATA / DATAFRAG that carries the writer id of one of the three bootstrap topics (exempt from rtps
  /// protection) but names a USER reader explicitly: the exemption belongs to the bootstrap readers, not to
  /// whoever claims a bootstrap writer id. Judged by the first rule only, at the reader it lands in.
  fn bootstrap_writer_id_to_user_reader(&mut self) {
    self.cur_src = self.rng.below(2) as usize;
    let wslot = *self.rng.pick(&[EP_SPDP, EP_STATELESS, EP_VOLATILE]);
    let rslot = *self.rng.pick(&[EP_OPEN, EP_OPEN, EP_PROT]);
    let kind = if self.rng.chance(3, 4) { UKind::Data } else { UKind::DataFrag };
    let r = Recipe { kind, slot: wslot, unknown_receiver: false, pay: Layer::None, sub: Layer::None, fixed_sn: None, reader_slot: Some(rslot) };
    let p = self.make(&r);
    self.emit_raw(Layer::Peer, p.pieces.clone(), vec![(p.unit, false, false)], "bootstrap-writer-id-to-user-reader");
  }

  /// deterministic backbone: every endpoint x observable kind x receiver id form, once in
  /// plaintext and once exactly as the configuration requires, each in its own clean datagram
  fn sweep(&mut self) {
    for src in 0..2 {
      self.cur_src = src;
      self.sweep_one();
    }
  }
  fn sweep_one(&mut self) {
    for slot in 0..EP_COUNT {
      let mut kinds = vec![UKind::Data, UKind::DataFrag, UKind::AckNack, UKind::NackFrag];
      if Self::gap_ok(slot) {
        kinds.push(UKind::Gap);
      }
      for kind in kinds {
        for unknown in [false, true] {
          if kind.to_writer() && unknown && !self.rng.chance(1, 4) {
            continue;
          }
          let q = req_of(self.conf, slot, kind.to_writer());
          // plaintext
          let r = self.plain(kind, slot, unknown);
          let p = self.make(&r);
          self.emit_clean(vec![p], Layer::None, false, "clean");
          // exactly as required (differs from the plaintext only if something is required)
          if q.rtps || q.sub || (q.pay && kind.has_payload()) {
            let r = self.correct(kind, slot, unknown);
            let p = self.make(&r);
            self.emit_clean(vec![p], if q.rtps { Layer::Peer } else { Layer::None }, false, "clean");
          }
        }
      }
    }
  }

  /// clean datagrams with 1..4 random units; protected as a whole (by the peer or an imposter)
  /// when all of its units are subject to rtps protection
  fn random_clean(&mut self) {
    self.cur_src = self.rng.below(2) as usize;
    let wrapable = self.conf.rtps != K::None && self.rng.chance(3, 5);
    let slots: Vec<usize> = if wrapable { vec![EP_PROT, EP_OPEN] } else { vec![EP_PROT, EP_OPEN, EP_SPDP, EP_STATELESS, EP_VOLATILE] };
    let n = 1 + self.rng.below(4);
    let mut pend = vec![];
    for _ in 0..n {
      let r = self.random_recipe(&slots);
      pend.push(self.make(&r));
    }
    let has_key_exchange_triple = pend.iter().any(|p| p.unit.sub == Layer::PeerOtherKeys(EP_VOLATILE));
    let wrap = if wrapable && !has_key_exchange_triple {
      match self.rng.below(10) {
        0..=5 => Layer::Peer,
        6 => Layer::ImpSame,
        7 => Layer::OtherPeer,
        _ => Layer::ImpOther,
      }
    } else {
      Layer::None
    };
    let spoof = wrap == Layer::None && self.rng.chance(1, 8);
    self.emit_clean(pend, wrap, spoof, "clean");
  }

  /// after everything else: one correctly protected DATA per GAP, with the GAP's sequence number
  fn probes(&mut self) {
    let gaps: Vec<(usize, usize, usize, i64)> = self.units.iter().enumerate().filter(|(_, u)| u.kind == UKind::Gap).map(|(i, u)| (i, u.src, u.slot, u.sn)).collect();
    for (gi, src, slot, sn) in gaps {
      self.cur_src = src;
      let mut r = self.correct(UKind::Data, slot, false);
      r.fixed_sn = Some(sn);
      let mut p = self.make(&r);
      p.unit.probe_of = Some(gi);
      let q = req_of(self.conf, slot, false);
      self.emit_clean(vec![p], if q.rtps { Layer::Peer } else { Layer::None }, false, "clean");
    }
  }
}

// ---------------------------------------------------------------------------------------------
// judging

struct Outcome {
  delivered: u64,
  withheld: u64,
  sig: u64,
}

fn endpoint_name(slot: usize, to_writer: bool) -> String {
  format!("{}-{}", SLOT_NAME[slot], if to_writer { "writer" } else { "reader" })
}

fn run_case(seed: u64, index: u64, acc: &mut Acc) -> Option<Outcome> {
  let mut rng = Rng::derive(seed, STREAM, index);
  let conf = gen_conf(&mut rng, index);
  let case = json!({"seed": seed, "stream": STREAM, "index": index});
  let cfg = MrCfg { governance_xml: conf.governance_xml.clone(), permissions_xml: PERMISSIONS_XML.to_string(), subject_name: SUBJECT.to_string(), domain_id: 0, fab_seed: rng.next(), prot_reader_first: conf.prot_reader_first };
  let mut bench = match MrBench::new(&cfg) {
    Ok(b) => b,
    Err(e) => {
      if acc.inconclusive.len() < 5 {
        acc.inconclusive.push(format!("case {index} ({}): driver could not be configured: {e}", conf.tag()));
      }
      return None;
    }
  };
  let ids = bench.ids();
  let answers = bench.answers();
  let (units, dgrams, errors) = {
    let mut g = Gen { bench: &bench, ids: ids.clone(), conf: &conf, rng, next_id: 0, cur_src: 0, sn: [[0; EP_COUNT]; 2], units: vec![], dgrams: vec![], errors: vec![] };
    g.sweep();
    let extra = 10 + g.rng.below(8);
    for _ in 0..extra {
      match g.rng.below(10) {
        0..=3 => g.random_clean(),
        4..=6 => g.wrong_sequence(),
        7..=8 => g.wrong_srtps(),
        _ => g.wrong_context(),
      }
    }
    for _ in 0..2 {
      g.bootstrap_writer_id_to_user_reader();
    }
    // the order of arrival is random, the probes come last
    let mut order: Vec<usize> = (0..g.dgrams.len()).collect();
    g.rng.shuffle(&mut order);
    // keep "sec-prefix-alone-at-end" directly in front of its continuation
    let pairs: Vec<usize> = g.units.iter().filter(|u| u.layout == "sec-body-and-postfix-in-next-datagram").map(|u| u.dgram).collect::<BTreeSet<_>>().into_iter().collect();
    for second in pairs {
      let first = second - 1;
      let (pf, ps) = (order.iter().position(|x| *x == first).unwrap(), order.iter().position(|x| *x == second).unwrap());
      order.remove(pf);
      let ps = if pf < ps { ps - 1 } else { ps };
      order.insert(ps, first);
    }
    let n_before = g.dgrams.len();
    g.probes();
    order.extend(n_before..g.dgrams.len());
    (g.units, (g.dgrams, order), g.errors)
  };
  let (dgrams, order) = dgrams;
  if !errors.is_empty() {
    if acc.inconclusive.len() < 5 {
      acc.inconclusive.push(format!("case {index} ({}): generator/driver error: {}", conf.tag(), errors[0]));
    }
    return None;
  }
  for i in &order {
    bench.inject(&dgrams[*i]);
  }
  let reached: Reached = bench.what_reached();

  // ---- lookup tables
  let mut by_sample: BTreeMap<u32, usize> = BTreeMap::new();
  let mut by_count: BTreeMap<u32, usize> = BTreeMap::new();
  // (claimed peer, slot of the sending writer, sequence number) -> DATA / DATAFRAG unit
  let mut by_sn: BTreeMap<(usize, usize, i64), Vec<usize>> = BTreeMap::new();
  for (i, u) in units.iter().enumerate() {
    if u.id == 0 {
      continue;
    }
    if u.kind.to_writer() {
      by_count.insert(u.id, i);
    } else {
      by_sample.insert(u.id, i);
      by_sn.entry((u.src, u.slot, u.sn)).or_default().push(i);
    }
  }
  let tag = conf.tag();
  let witness = |u: &Unit| -> Value {
    json!({"case": case, "configuration": {"rtps_protection_kind": conf.rtps.xml(conf.rtps_oa), "metadata_protection_kind(vt_prot)": conf.meta.xml(conf.meta_oa), "data_protection_kind(vt_prot)": conf.data.xml(false)},
      "unit": u.json(), "datagram_hex": hex(&dgrams[u.dgram]), "arrival_position": order.iter().position(|x| *x == u.dgram),
      "local_prefix": hex(&ids.local_prefix), "peer1_prefix": hex(&ids.peer_prefix[0]), "peer2_prefix": hex(&ids.peer_prefix[1]),
      "receiver_reader_entity_ids": {"prot": hex(&ids.local_readers[EP_PROT]), "open": hex(&ids.local_readers[EP_OPEN])},
      "claimed_writer_or_reader_entity_id": hex(if u.kind.to_writer() { &ids.remote_readers[u.src][u.slot] } else { &ids.remote_writers[u.src][u.slot] }), "governance_xml": conf.governance_xml})
  };
  let mut delivered_units: BTreeSet<usize> = BTreeSet::new();
  let mut out = Outcome { delivered: 0, withheld: 0, sig: 0 };
  let mut sigbuf: Vec<u8> = tag.as_bytes().to_vec();

  let judge_delivery = |acc: &mut Acc, ui: usize, actual_slot: usize, delivered_units: &mut BTreeSet<usize>| {
    let u = &units[ui];
    delivered_units.insert(ui);
    if u.probe_of.is_some() {
      return;
    }
    let to_writer = u.kind.to_writer();
    let q = req_of_unit(&conf, actual_slot, u.kind);
    let same = actual_slot == u.slot;
    if !u.sufficient_for(q, same) {
      let signature = format!(
        "C17/no-plaintext-to-protected:{}->{}:missing={}:layout={}:sent-as[{}]{}",
        u.kind.name(),
        endpoint_name(actual_slot, to_writer),
        u.missing(q, same),
        u.layout,
        u.sent_as(),
        if same { "" } else { ":addressed-to-another-endpoint" }
      );
      acc.violate(signature, json!({"delivered_to": endpoint_name(actual_slot, to_writer), "required": {"rtps": q.rtps, "submessage": q.sub, "payload": q.pay}, "unit": u.json()}), witness(u));
    } else {
      acc.count("delivered", 1);
      acc.count(&format!("cfg_{tag}_delivered"), 1);
      let any_req = q.rtps || q.sub || q.pay;
      acc.count(if any_req { "delivered_under_required_protection" } else { "delivered_plaintext_nothing_required" }, 1);
      if q.rtps {
        acc.count("delivered_rtps_protected", 1);
      }
      if q.sub {
        acc.count("delivered_submessage_protected", 1);
      }
      if q.pay {
        acc.count("delivered_payload_protected", 1);
      }
      if u.unknown_receiver {
        acc.count("delivered_with_entityid_unknown", 1);
        if !to_writer && (u.slot == EP_PROT || u.slot == EP_OPEN) {
          // the writer's entity id is shared by a writer of the other peer on the other topic, so
          // the fan-out for ENTITYID_UNKNOWN had both user readers as candidates
          let order = if conf.prot_reader_first { "prot-reader-first" } else { "open-reader-first" };
          acc.count(&format!("delivered_unknown_receiver_two_candidates_{order}"), 1);
          if u.slot == EP_OPEN && conf.meta != K::None && u.sub == Layer::None {
            acc.count(&format!("delivered_plaintext_to_open-reader_next_to_protected_candidate_{order}"), 1);
          }
        }
      }
      acc.count(&format!("delivered_from_peer{}", u.src + 1), 1);
      acc.count(&format!("delivered_{}", u.kind.name()), 1);
      acc.count(&format!("delivered_to_{}", endpoint_name(actual_slot, to_writer)), 1);
    }
  };

  // what the Readers put into their caches (complete), then what take handed over (must be in there)
  for (slot, seen) in reached.cache.iter().enumerate() {
    for c in seen {
      // the id the payload carries, if it is an intact VSample of the harness (key == id)
      let id_in_payload = if c.is_data && c.payload.len() >= 12 {
        let le = c.payload[1] == 1;
        let rd = |o: usize| {
          let b = [c.payload[o], c.payload[o + 1], c.payload[o + 2], c.payload[o + 3]];
          if le {
            u32::from_le_bytes(b)
          } else {
            u32::from_be_bytes(b)
          }
        };
        if rd(4) == rd(8) {
          Some(rd(4))
        } else {
          None
        }
      } else {
        None
      };
      // the writer GUID the Reader recorded: which peer, which of its writers
      let writer_slot = ids.peer_prefix.iter().position(|p| p[..] == c.writer[0..12]).and_then(|src| ids.remote_writers[src].iter().position(|w| w[..] == c.writer[12..16]).map(|slot| (src, slot)));
      let by_payload = id_in_payload.and_then(|id| by_sample.get(&id).copied());
      let candidates: Vec<usize> = match by_payload {
        Some(ui) => vec![ui],
        // payload is not a plain VSample (e.g. handed on undecoded): identify by writer and number
        None => writer_slot.and_then(|(src, ws)| by_sn.get(&(src, ws, c.sn)).cloned()).unwrap_or_default(),
      };
      if by_payload.is_none() {
        acc.count("cache_entry_payload_not_a_plain_sample", 1);
      }
      match candidates.as_slice() {
        [ui] => judge_delivery(acc, *ui, slot, &mut delivered_units),
        _ => acc.inconclusive.push(format!("case {index}: reader {} holds a change the harness cannot attribute (writer {} sn {})", SLOT_NAME[slot], hex(&c.writer), c.sn)),
      }
    }
  }
  for (slot, t) in reached.taken.iter().enumerate() {
    match t {
      Ok(taken_ids) => {
        acc.count("samples_taken_through_datareader", taken_ids.len() as u64);
        for id in taken_ids {
          match by_sample.get(id) {
            Some(ui) if delivered_units.contains(ui) => {}
            Some(ui) => judge_delivery(acc, *ui, slot, &mut delivered_units),
            None => acc.inconclusive.push(format!("case {index}: reader {} handed over an id the harness never sent ({id})", SLOT_NAME[slot])),
          }
        }
      }
      Err(_) => acc.count("datareader_take_failed", 1),
    }
  }
  for a in &reached.acks {
    let Some(ui) = by_count.get(&(a.count as u32)).copied() else {
      acc.inconclusive.push(format!("case {index}: acknack channel carried a count the harness never sent ({})", a.count));
      continue;
    };
    match ids.local_writers.iter().position(|w| *w == a.writer_id) {
      Some(slot) => judge_delivery(acc, ui, slot, &mut delivered_units),
      None => {
        // addressed to no writer of ours (ENTITYID_UNKNOWN): nothing was delivered to an endpoint
        delivered_units.insert(ui);
        acc.count("acknack_without_addressee_on_channel", 1);
      }
    }
  }

  if std::env::var("VERIF_C17_DEBUG").is_ok() {
    for (ui, u) in units.iter().enumerate() {
      eprintln!(
        "{} dgram={} pos={:?} {} {} peer{} {} unk={} [{}] have={}{}{} must={} delivered={} len={}",
        tag,
        u.dgram,
        order.iter().position(|x| *x == u.dgram),
        u.layout,
        u.kind.name(),
        u.src + 1,
        SLOT_NAME[u.slot],
        u.unknown_receiver,
        u.sent_as(),
        u.have_rtps as u8,
        u.have_sub as u8,
        u.have_pay as u8,
        u.must,
        delivered_units.contains(&ui),
        dgrams[u.dgram].len()
      );
    }
  }
  // ---- what did not arrive
  for (ui, u) in units.iter().enumerate() {
    sigbuf.extend_from_slice(u.layout.as_bytes());
    sigbuf.extend_from_slice(&[u.kind as u8, u.src as u8, u.slot as u8, u.unknown_receiver as u8, u.have_rtps as u8, u.have_sub as u8, u.have_pay as u8]);
    sigbuf.extend_from_slice(u.sent_as().as_bytes());
    if !u.kind.observable() || u.probe_of.is_some() {
      continue;
    }
    let to_writer = u.kind.to_writer();
    let q = req_of_unit(&conf, u.slot, u.kind);
    let sufficient = u.sufficient_for(q, true);
    if u.kind == UKind::Gap {
      // observed through its effect: the probe (same sequence number, correctly protected)
      let Some((pi, _)) = units.iter().enumerate().find(|(_, p)| p.probe_of == Some(ui)) else { continue };
      if !units[pi].must {
        // the probe itself is not an unambiguous "must arrive" case: nothing can be concluded
        acc.count("gap_probe_not_usable", 1);
        continue;
      }
      let probe_delivered = delivered_units.contains(&pi);
      if !probe_delivered && !sufficient {
        let signature = format!("C17/no-plaintext-to-protected:GAP->{}:missing={}:layout={}:sent-as[{}]:took-effect", endpoint_name(u.slot, false), u.missing(q, true), u.layout, u.sent_as());
        acc.violate(
          signature,
          json!({"observation": "the correctly protected DATA sent afterwards with the GAP's sequence number was not handed over", "gap": u.json(), "probe": units[pi].json(), "probe_datagram_hex": hex(&dgrams[units[pi].dgram])}),
          witness(u),
        );
      } else if probe_delivered && u.must {
        let signature = format!("C17/unprotected-flows:GAP->{}:{}:had-no-effect", endpoint_name(u.slot, false), if q.rtps || q.sub { "correctly-protected" } else { "plaintext-nothing-required" });
        acc.violate(signature, json!({"observation": "DATA with the GAP's sequence number was still handed over", "gap": u.json(), "probe": units[pi].json()}), witness(u));
      } else if !sufficient {
        out.withheld += 1;
        acc.count("withheld", 1);
        acc.count(&format!("cfg_{tag}_withheld"), 1);
        acc.count("withheld_GAP", 1);
      } else if !probe_delivered {
        out.delivered += 1;
        acc.count("delivered", 1);
        acc.count(&format!("cfg_{tag}_delivered"), 1);
        acc.count("delivered_GAP", 1);
      }
      continue;
    }
    if delivered_units.contains(&ui) {
      out.delivered += 1;
      continue;
    }
    if u.must {
      let protected = q.rtps || q.sub || (q.pay && u.kind.has_payload());
      let signature = format!(
        "C17/unprotected-flows:{}->{}:{}:not-delivered:receiver-id={}",
        u.kind.name(),
        endpoint_name(u.slot, to_writer),
        if protected { format!("correctly-protected[{}]", u.sent_as()) } else { "plaintext-nothing-required".to_string() },
        if !u.unknown_receiver {
          "explicit".to_string()
        } else if !to_writer && (u.slot == EP_PROT || u.slot == EP_OPEN) {
          // both user readers know a writer with this entity id: the order of the candidates matters
          format!("unknown:candidates={}", if conf.prot_reader_first { "prot-reader,open-reader" } else { "open-reader,prot-reader" })
        } else {
          "unknown".to_string()
        }
      );
      acc.violate(signature, json!({"required": {"rtps": q.rtps, "submessage": q.sub, "payload": q.pay}, "unit": u.json()}), witness(u));
    } else if !sufficient {
      out.withheld += 1;
      acc.count("withheld", 1);
      acc.count(&format!("cfg_{tag}_withheld"), 1);
      acc.count(&format!("withheld_{}", u.kind.name()), 1);
      acc.count(&format!("withheld_from_{}", endpoint_name(u.slot, to_writer)), 1);
      acc.count(&format!("withheld_from_peer{}", u.src + 1), 1);
      acc.count(&format!("withheld_layout_{}", u.layout), 1);
      if u.unknown_receiver {
        acc.count("withheld_with_entityid_unknown", 1);
      }
      let class = if u.wrap == Layer::None && u.sub == Layer::None && u.pay == Layer::None {
        "withheld_class_plaintext".to_string()
      } else if [u.wrap, u.sub, u.pay].iter().any(|l| matches!(l, Layer::ImpSame)) {
        "withheld_class_wrong-keys".to_string()
      } else if [u.wrap, u.sub, u.pay].iter().any(|l| matches!(l, Layer::ImpOther)) {
        "withheld_class_unregistered-sender".to_string()
      } else if [u.wrap, u.sub, u.pay].iter().any(|l| matches!(l, Layer::OtherPeer)) {
        "withheld_class_keys-of-another-participant".to_string()
      } else if matches!(u.sub, Layer::PeerOtherKeys(_)) {
        "withheld_class_keys-of-another-endpoint".to_string()
      } else {
        "withheld_class_partially-protected-or-malformed".to_string()
      };
      acc.count(&class, 1);
    } else {
      acc.count("not_delivered_not_judged", 1);
    }
  }
  out.sig = fnv64(&sigbuf);
  acc.count("datagrams_injected", order.len() as u64);
  acc.count("units_sent", units.len() as u64);
  acc.count("spdp_liveness_notifications", reached.spdp_liveness as u64);
  if index < 2 {
    acc.sample(
      json!({"case": case, "configuration": tag, "plugins_answer": {"rtps_not_protected": answers.rtps_not_protected, "reader_submessage_not_protected": answers.reader_submessage_not_protected,
        "reader_payload_not_protected": answers.reader_payload_not_protected, "writer_submessage_not_protected": answers.writer_submessage_not_protected},
        "datagrams": order.len(), "units": units.len(), "delivered": out.delivered, "withheld": out.withheld, "first_units": units.iter().take(4).map(|u| u.json()).collect::<Vec<_>>()}),
      2,
    );
  }
  Some(out)
}

pub fn run_c17(args: &Args) -> i32 {
  net::set_policy_drop_all();
  let mut rep = Report::new(
    args,
    "each case = one governance document (case index mod 27 enumerates rtps x metadata x data protection kind in {NONE,SIGN,ENCRYPT}; origin authentication, decoy rules, expression spelling random) from which real plugins for the receiver, two genuine peers and two imposters are configured (peer2's user writers/readers carry the entity ids of peer1's endpoints on the other topic, so both of the receiver's user readers know a writer with each entity id; (case index / 27) mod 2 chooses which of the two user readers has the smaller entity id), and 130-200 datagrams built by the independent wire builder: a sweep per genuine peer (every endpoint {protected, unprotected, SPDP, stateless, key-exchange} x {DATA, DATAFRAG, GAP, ACKNACK, NACKFRAG} x {explicit receiver id, ENTITYID_UNKNOWN}, once as plaintext and once protected exactly as required) plus random clean datagrams (1-4 units, each required level independently present / absent / made by an imposter with wrong keys / by an unregistered participant / with the keys of another endpoint / by the other genuine peer, HEARTBEAT and HEARTBEATFRAG and INFO_TS/DST/SRC/REPLY mixed in) plus wrong secure sequences (SEC_BODY alone, SEC_POSTFIX alone, prefix + two submessages, prefix without postfix then plaintext, reordered and nested triples, plaintext transplanted between a genuine prefix and postfix, prefix carried over to the next datagram, SRTPS_PREFIX not first / without postfix / trailing or inserted plaintext / inside a SEC_PREFIX, INFO_DST for another participant) plus two plaintext DATA/DATAFRAG per case that carry a bootstrap writer id (SPDP, stateless, key exchange) but name a user reader explicitly, injected in random order; GAPs are observed through a correctly protected probe DATA with the GAP's sequence number sent last; distinct/non-trivial = hash of (configuration, every unit's layout, kind, endpoint, receiver-id form and protection) of a case in which at least one id was delivered and at least one was withheld",
  );
  rep.assume("observation points: the TopicCache of each of the five readers (every change the Reader stored; attributed by the id in the payload, or by writer and sequence number when the payload is not a plain sample), then DataReader::take on each (best-effort, KeepAll), and the acknack channel; HEARTBEAT / HEARTBEATFRAG / INFO_* are injected but not observed (a best-effort reader ignores heartbeats); a GAP is observed only through its effect on a later DATA");
  rep.assume("access control state is built from an unsigned governance document through the C18 hook (signature checking is C18's subject); authentication is a stand-in that supplies identity handles and a shared secret; cryptography and access control attribute answers are the real builtin plugins reached through SecurityPlugins");
  rep.assume("the key-exchange endpoints (DCPSParticipantVolatileMessageSecure) are exempt from rtps protection like the other two bootstrap topics, but are judged as requiring submessage protection under every configuration (DDS Security 7.4.8: always submessage-encrypted)");
  rep.assume("'keeps flowing' is judged only for clean datagrams ([INFO_TS] [INFO_SRC peer] [INFO_DST own/unknown] [INFO_REPLY] then well-formed units) whose unit carries exactly the protection the configuration requires, made by the genuine peer; units in malformed sequences, behind foreign INFO_DST / INFO_SRC, or with layers from imposters are judged by the first rule only; an ACKNACK whose writer id is ENTITYID_UNKNOWN is never judged");
  rep.assume("DATA without payload (dispose by key hash) is not generated: payload protection has nothing to protect there");
  let ncases = args.scale(108_000, 3_240_000);
  let seed = args.seed;
  let replay_case = crate::replay_index(args);
  let acc = par_cases(args.threads(), ncases, |i, acc| {
    if let Some(rc) = replay_case {
      if i != rc {
        return;
      }
    }
    acc.evaluations += 1;
    if let Some(o) = run_case(seed, i, acc) {
      if o.delivered > 0 && o.withheld > 0 {
        acc.distinct.insert(o.sig);
      }
      acc.count("cases_completed", 1);
    }
  });
  let per_cfg = if args.thorough() { 200_000 } else { 8_000 };
  for c in 0..27u64 {
    let tag = format!("{}{}{}", K::from(c / 9).letter(), K::from(c / 3).letter(), K::from(c).letter());
    rep.require(&format!("cfg_{tag}_delivered"), per_cfg);
    rep.require(&format!("cfg_{tag}_withheld"), per_cfg);
  }
  for k in [
    "delivered_plaintext_nothing_required",
    "delivered_rtps_protected",
    "delivered_submessage_protected",
    "delivered_payload_protected",
    "delivered_with_entityid_unknown",
    "delivered_DATA",
    "delivered_DATAFRAG",
    "delivered_GAP",
    "delivered_ACKNACK",
    "delivered_NACKFRAG",
    "withheld_DATA",
    "withheld_DATAFRAG",
    "withheld_GAP",
    "withheld_ACKNACK",
    "withheld_NACKFRAG",
    "withheld_with_entityid_unknown",
    "withheld_class_plaintext",
    "withheld_class_wrong-keys",
    "withheld_class_unregistered-sender",
    "withheld_class_keys-of-another-endpoint",
    "withheld_class_keys-of-another-participant",
    "delivered_from_peer1",
    "delivered_from_peer2",
    "withheld_from_peer1",
    "withheld_from_peer2",
    "delivered_unknown_receiver_two_candidates_prot-reader-first",
    "delivered_unknown_receiver_two_candidates_open-reader-first",
    "delivered_plaintext_to_open-reader_next_to_protected_candidate_prot-reader-first",
    "delivered_plaintext_to_open-reader_next_to_protected_candidate_open-reader-first",
    "withheld_class_partially-protected-or-malformed",
    "delivered_to_spdp-reader",
    "delivered_to_stateless-reader",
    "delivered_to_volatile-reader",
    "delivered_to_open-reader",
    "delivered_to_prot-reader",
    "delivered_to_prot-writer",
    "withheld_from_prot-reader",
    "withheld_from_open-reader",
    "withheld_from_volatile-reader",
    "withheld_from_prot-writer",
  ] {
    rep.require(k, if args.thorough() { 100_000 } else { 4_000 });
  }
  rep.finish(acc)
}
