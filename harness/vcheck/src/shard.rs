//! Subprocess shards with a CPU-time hang watchdog.
//! Used where "did not return" is itself the refuting observation (C06, C09):
//! the hang holds locks / spins forever, so the case must be abandoned together
//! with its process. The parent restarts the shard after the culprit.
use std::{
  io::Write,
  process::Command,
  sync::{Arc, Mutex},
  time::{Duration, Instant},
};

use serde_json::{json, Value};

use crate::ctx::{Acc, Args};

pub struct Bracket {
  inner: Arc<Mutex<BracketState>>,
}
struct BracketState {
  in_op: Option<(String, Instant, f64)>, // label, wall start, thread cpu at start
  case: Value,
  thread: libc::pthread_t,
}

fn thread_cpu_now() -> f64 {
  let mut ts = libc::timespec { tv_sec: 0, tv_nsec: 0 };
  unsafe { libc::clock_gettime(libc::CLOCK_THREAD_CPUTIME_ID, &mut ts) };
  ts.tv_sec as f64 + ts.tv_nsec as f64 * 1e-9
}
fn thread_cpu_of(t: libc::pthread_t) -> Option<f64> {
  let mut cid: libc::clockid_t = 0;
  if unsafe { libc::pthread_getcpuclockid(t, &mut cid) } != 0 {
    return None;
  }
  let mut ts = libc::timespec { tv_sec: 0, tv_nsec: 0 };
  if unsafe { libc::clock_gettime(cid, &mut ts) } != 0 {
    return None;
  }
  Some(ts.tv_sec as f64 + ts.tv_nsec as f64 * 1e-9)
}

impl Bracket {
  pub fn set_case(&self, case: Value) {
    self.inner.lock().unwrap().case = case;
  }
  /// Some(label) = entering a call into the code under test; None = returned.
  pub fn mark(&self, label: Option<&str>) {
    let mut g = self.inner.lock().unwrap();
    g.in_op = label.map(|l| (l.to_string(), Instant::now(), thread_cpu_now()));
  }
}

struct FatalCtx {
  acc: Arc<Mutex<Acc>>,
  progress: Arc<Mutex<u64>>,
  br: Arc<Mutex<BracketState>>,
  outp: String,
  prefix: String,
}
static FATAL: std::sync::OnceLock<FatalCtx> = std::sync::OnceLock::new();

/// first frames of the current backtrace that belong to the library under test
pub fn repo_frames(max: usize) -> Vec<String> {
  let bt = std::backtrace::Backtrace::force_capture().to_string();
  let mut v = vec![];
  for l in bt.lines() {
    let l = l.trim();
    if let Some(pos) = l.find("rustdds::") {
      let f = &l[pos..];
      if f.starts_with("rustdds::verif::") {
        continue;
      }
      // strip the hash suffix ::h0123...
      let f = match f.rfind("::h") {
        Some(i) if f.len() - i == 19 => &f[..i],
        _ => f,
      };
      if v.last().map_or(true, |x: &String| x != f) {
        v.push(f.to_string());
      }
      if v.len() >= max {
        break;
      }
    }
  }
  v
}

/// Called from the allocator when one request is >= alloc::HUGE. Records a violation
/// with the allocating call site, writes the shard report and ends the process.
pub fn fatal_huge_alloc(size: usize) -> ! {
  let frames = repo_frames(4);
  let site = frames.first().cloned().unwrap_or_else(|| "unknown".into());
  if let Some(cx) = FATAL.get() {
    let idx = *cx.progress.lock().unwrap();
    let (label, case) = {
      let g = cx.br.lock().unwrap();
      (g.in_op.as_ref().map(|x| x.0.clone()).unwrap_or_default(), g.case.clone())
    };
    cx.acc.lock().unwrap().violate(
      format!("{}/memory:single-allocation-of-{}MiB-or-more@{}", cx.prefix, crate::alloc::HUGE >> 20, site),
      json!({"case_index": idx, "request_bytes": size, "call": label, "frames": frames}),
      json!({"case": case}),
    );
    let a = std::mem::take(&mut *cx.acc.lock().unwrap());
    let so = ShardOut { acc: a, next_index: idx + 1, hang: Some(json!({"huge_alloc": size})) };
    let tmp = format!("{}.tmp", cx.outp);
    let _ = std::fs::write(&tmp, serde_json::to_string(&so).unwrap());
    let _ = std::fs::rename(&tmp, &cx.outp);
  }
  unsafe { libc::_exit(3) }
}

/// Every stack check gets its own range of domain ids (= UDP port ranges), so that two checks running at the
/// same time on one box do not discover each other's participants; and within its range one of three slots of
/// 16 ids, claimed with a lock file for the life of the process, so that two runs of the SAME check (say quick
/// and thorough) keep apart too. Domain ids go up to 232 (port = 7400 + 250 * id).
fn domain_base(id: &str) -> usize {
  let range = match id {
    "C11" => 10,
    "C12" => 58,
    "C07" => 106,
    _ => 154,
  };
  static SLOT: std::sync::OnceLock<(usize, Option<std::fs::File>)> = std::sync::OnceLock::new();
  let (slot, _) = SLOT.get_or_init(|| {
    use std::os::unix::io::AsRawFd;
    for slot in 0..3usize {
      let path = std::env::temp_dir().join(format!("verif-domains-{id}-{slot}.lock"));
      if let Ok(f) = std::fs::OpenOptions::new().create(true).write(true).truncate(false).open(&path) {
        if unsafe { libc::flock(f.as_raw_fd(), libc::LOCK_EX | libc::LOCK_NB) } == 0 {
          return (slot, Some(f));
        }
      }
    }
    (0, None)
  });
  range + 16 * slot
}

pub const CPU_BUDGET_S: f64 = 2.0;
pub const WALL_STALL_S: f64 = 90.0;

fn child_args(args: &Args) -> Option<(u64, u64, String)> {
  let e = &args.extra;
  let i = e.iter().position(|a| a == "--shard-range")?;
  let a = e.get(i + 1)?.parse().ok()?;
  let b = e.get(i + 2)?.parse().ok()?;
  let o = e.iter().position(|a| a == "--shard-out").and_then(|j| e.get(j + 1))?.clone();
  Some((a, b, o))
}

#[derive(serde::Serialize, serde::Deserialize, Default)]
struct ShardOut {
  acc: Acc,
  next_index: u64,
  hang: Option<Value>,
}

/// Runs cases [0, ncases) in subprocess shards. `f(index, acc, bracket)`.
/// `hang_sig(prefix)` names the violation signature for a hang given the label.
pub fn run_sharded<F>(args: &Args, ncases: u64, nshards: usize, hang_prefix: &str, f: F) -> Acc
where
  F: Fn(u64, &mut Acc, &Bracket) + Send + Sync + 'static,
{
  run_sharded_with(args, ncases, nshards, hang_prefix, None, f)
}

/// `leg`: Some((name, executable)) runs the shards in another build of this harness (e.g. the
/// overflow-checked profile); the children see the name in VERIF_LEG.
pub fn run_sharded_with<F>(args: &Args, ncases: u64, nshards: usize, hang_prefix: &str, leg: Option<(String, std::path::PathBuf)>, f: F) -> Acc
where
  F: Fn(u64, &mut Acc, &Bracket) + Send + Sync + 'static,
{
  if let Some((from, to, outp)) = child_args(args) {
    child(from, to, &outp, hang_prefix, f);
    std::process::exit(0);
  }
  let (leg_name, exe) = match leg {
    Some((n, e)) => (n, e),
    None => (String::new(), std::env::current_exe().expect("current_exe")),
  };
  let tmpdir = std::env::temp_dir().join(format!("vcheck-{}-{}{}", args.id, std::process::id(), leg_name));
  let _ = std::fs::create_dir_all(&tmpdir);
  // replay: a single case, a single shard
  let (ncases, nshards, replay_from) = match crate::replay_index(args) {
    Some(rc) => (rc + 1, 1usize, rc),
    None => (ncases, nshards, 0),
  };
  let per = (ncases + nshards as u64 - 1) / nshards as u64;
  let total = Mutex::new(Acc::default());
  std::thread::scope(|s| {
    for k in 0..nshards {
      let from0 = (k as u64 * per).max(replay_from);
      let to = ((k as u64 + 1) * per).min(ncases);
      if from0 >= to {
        continue;
      }
      let exe = exe.clone();
      let leg_name = leg_name.clone();
      let tmpdir = tmpdir.clone();
      let total = &total;
      s.spawn(move || {
        let mut from = from0;
        let mut restarts = 0;
        while from < to {
          let outp = tmpdir.join(format!("shard-{k}-{from}.json"));
          let status = Command::new(&exe)
            .arg(&args.id)
            .arg("--tier")
            .arg(&args.tier)
            .args(args.extra.iter())
            .args(args.replay.iter().flat_map(|p| ["--replay".to_string(), p.clone()]))
            .arg("--shard-range")
            .arg(from.to_string())
            .arg(to.to_string())
            .arg("--shard-out")
            .arg(&outp)
            .env("VERIF_SEED", args.seed.to_string())
            .env("VERIF_LEG", &leg_name)
            .env("VERIF_DOMAIN", (domain_base(&args.id) + k).to_string())
            .status();
          let parsed: Option<ShardOut> = std::fs::read_to_string(&outp).ok().and_then(|s| serde_json::from_str(&s).ok());
          let _ = std::fs::remove_file(&outp);
          match parsed {
            Some(so) => {
              let next = so.next_index;
              total.lock().unwrap().merge(so.acc);
              if next <= from {
                total.lock().unwrap().inconclusive.push(format!("shard {k} made no progress at {from}"));
                break;
              }
              from = next;
            }
            None => {
              // crashed without a report (abort, OOM kill, ...): journal tells the case
              let j = std::fs::read_to_string(outp.with_extension("journal")).unwrap_or_default();
              let last: Option<u64> = j.lines().last().and_then(|l| l.trim().parse().ok());
              let mut t = total.lock().unwrap();
              match last {
                Some(ci) => {
                  t.violate(
                    format!("{hang_prefix}/crash:process-died"),
                    json!({"case_index": ci, "exit": format!("{status:?}")}),
                    json!({"case": {"seed": args.seed, "index": ci}}),
                  );
                  from = ci + 1;
                }
                None => {
                  t.inconclusive.push(format!("shard {k} died before its first case: {status:?}"));
                  break;
                }
              }
            }
          }
          let _ = std::fs::remove_file(outp.with_extension("journal"));
          restarts += 1;
          if restarts > 12 {
            total.lock().unwrap().inconclusive.push(format!("shard {k}: too many restarts"));
            break;
          }
        }
      });
    }
  });
  let _ = std::fs::remove_dir_all(&tmpdir);
  total.into_inner().unwrap()
}

fn child<F>(from: u64, to: u64, outp: &str, hang_prefix: &str, f: F)
where
  F: Fn(u64, &mut Acc, &Bracket) + Send + Sync + 'static,
{
  let acc = Arc::new(Mutex::new(Acc::default()));
  let progress = Arc::new(Mutex::new(from));
  let br_state = Arc::new(Mutex::new(BracketState { in_op: None, case: Value::Null, thread: unsafe { libc::pthread_self() } }));
  let outp = outp.to_string();
  let _ = FATAL.set(FatalCtx { acc: acc.clone(), progress: progress.clone(), br: br_state.clone(), outp: outp.clone(), prefix: hang_prefix.to_string() });
  let journal_path = std::path::Path::new(&outp).with_extension("journal");
  let write_out = {
    let acc = acc.clone();
    let outp = outp.clone();
    move |next: u64, hang: Option<Value>| {
      let a = std::mem::take(&mut *acc.lock().unwrap());
      let so = ShardOut { acc: a, next_index: next, hang };
      let tmp = format!("{outp}.tmp");
      std::fs::write(&tmp, serde_json::to_string(&so).unwrap()).unwrap();
      std::fs::rename(&tmp, &outp).unwrap();
    }
  };
  let worker = {
    let acc = acc.clone();
    let progress = progress.clone();
    let br_state = br_state.clone();
    let journal_path = journal_path.clone();
    std::thread::Builder::new()
      .stack_size(16 << 20)
      .spawn(move || {
        br_state.lock().unwrap().thread = unsafe { libc::pthread_self() };
        let br = Bracket { inner: br_state };
        let mut journal = std::fs::File::create(&journal_path).ok();
        for i in from..to {
          if let Some(j) = journal.as_mut() {
            let _ = writeln!(j, "{i}");
            let _ = j.flush();
          }
          *progress.lock().unwrap() = i;
          // the worker owns a private Acc per case and merges it under the lock,
          // so the watchdog can always take the shared one
          let mut local = Acc::default();
          f(i, &mut local, &br);
          acc.lock().unwrap().merge_all(local);
        }
        *progress.lock().unwrap() = to;
      })
      .unwrap()
  };
  // watchdog loop
  let hang_prefix = hang_prefix.to_string();
  loop {
    if worker.is_finished() {
      let _ = worker.join();
      let p = *progress.lock().unwrap();
      write_out(p.max(from), None);
      return;
    }
    std::thread::sleep(Duration::from_millis(100));
    let (info, thread, case) = {
      let g = br_state.lock().unwrap();
      (g.in_op.clone(), g.thread, g.case.clone())
    };
    if let Some((label, wall0, cpu0)) = info {
      let wall = wall0.elapsed().as_secs_f64();
      if wall < CPU_BUDGET_S {
        continue;
      }
      let cpu = thread_cpu_of(thread).map(|c| c - cpu0).unwrap_or(0.0);
      let idx = *progress.lock().unwrap();
      if cpu > CPU_BUDGET_S {
        let kind = label.split(|c: char| !c.is_alphanumeric() && c != '_' && c != '-').next().unwrap_or("op").to_string();
        acc.lock().unwrap().violate(
          format!("{hang_prefix}/hang:call-did-not-return:{kind}"),
          json!({"case_index": idx, "call": label, "thread_cpu_s": cpu, "wall_s": wall}),
          json!({"case": case}),
        );
        write_out(idx + 1, Some(json!({"index": idx, "label": label})));
        std::process::exit(3);
      } else if wall > WALL_STALL_S {
        acc.lock().unwrap().inconclusive.push(format!("case {idx}: call {label} blocked {wall:.0}s wall with {cpu:.2}s cpu (watchdog)"));
        write_out(idx + 1, Some(json!({"index": idx, "label": label, "blocked": true})));
        std::process::exit(3);
      }
    }
  }
}
