//! Independent RTPS wire builder and walker (written from RTPS 2.3/2.5 ch. 8.3 / 9.4),
//! not sharing code with the implementation under test.

pub const ID_PAD: u8 = 0x01;
pub const ID_ACKNACK: u8 = 0x06;
pub const ID_HEARTBEAT: u8 = 0x07;
pub const ID_GAP: u8 = 0x08;
pub const ID_INFO_TS: u8 = 0x09;
pub const ID_INFO_SRC: u8 = 0x0c;
pub const ID_INFO_REPLY_IP4: u8 = 0x0d;
pub const ID_INFO_DST: u8 = 0x0e;
pub const ID_INFO_REPLY: u8 = 0x0f;
pub const ID_NACK_FRAG: u8 = 0x12;
pub const ID_HEARTBEAT_FRAG: u8 = 0x13;
pub const ID_DATA: u8 = 0x15;
pub const ID_DATA_FRAG: u8 = 0x16;

pub const PID_SENTINEL: u16 = 0x0001;
pub const PID_KEY_HASH: u16 = 0x0070;
pub const PID_STATUS_INFO: u16 = 0x0071;

pub const ENTITYID_UNKNOWN: [u8; 4] = [0, 0, 0, 0];

#[derive(Clone, Debug)]
pub struct W {
  pub buf: Vec<u8>,
  pub le: bool,
}

impl W {
  pub fn new(le: bool) -> W {
    W { buf: vec![], le }
  }
  pub fn u8(&mut self, v: u8) {
    self.buf.push(v);
  }
  pub fn u16(&mut self, v: u16) {
    if self.le {
      self.buf.extend_from_slice(&v.to_le_bytes());
    } else {
      self.buf.extend_from_slice(&v.to_be_bytes());
    }
  }
  pub fn u32(&mut self, v: u32) {
    if self.le {
      self.buf.extend_from_slice(&v.to_le_bytes());
    } else {
      self.buf.extend_from_slice(&v.to_be_bytes());
    }
  }
  pub fn i32(&mut self, v: i32) {
    self.u32(v as u32);
  }
  pub fn sn(&mut self, v: i64) {
    self.i32((v >> 32) as i32);
    self.u32(v as u32);
  }
  pub fn bytes(&mut self, b: &[u8]) {
    self.buf.extend_from_slice(b);
  }
  pub fn pad4(&mut self) {
    while self.buf.len() % 4 != 0 {
      self.buf.push(0);
    }
  }
}

pub fn header(prefix: &[u8; 12]) -> Vec<u8> {
  let mut v = Vec::with_capacity(20);
  v.extend_from_slice(b"RTPS");
  v.extend_from_slice(&[2, 4]); // protocol version
  v.extend_from_slice(&[0x01, 0x12]); // vendor id (RustDDS's own)
  v.extend_from_slice(prefix);
  v
}

/// Append a submessage with the given body; sets the E flag from `le`.
/// `last_zero_len`: write octetsToNextHeader = 0 (allowed for the last submessage).
pub fn submsg(out: &mut Vec<u8>, id: u8, flags_wo_e: u8, le: bool, body: &[u8]) {
  out.push(id);
  out.push(flags_wo_e | if le { 1 } else { 0 });
  let l = body.len() as u16;
  if le {
    out.extend_from_slice(&l.to_le_bytes());
  } else {
    out.extend_from_slice(&l.to_be_bytes());
  }
  out.extend_from_slice(body);
}

pub fn info_ts(out: &mut Vec<u8>, le: bool, ticks: u64) {
  let mut w = W::new(le);
  w.u32((ticks >> 32) as u32);
  w.u32(ticks as u32);
  submsg(out, ID_INFO_TS, 0, le, &w.buf);
}
pub fn info_ts_invalidate(out: &mut Vec<u8>, le: bool) {
  submsg(out, ID_INFO_TS, 0x02, le, &[]);
}
pub fn info_dst(out: &mut Vec<u8>, le: bool, prefix: &[u8; 12]) {
  submsg(out, ID_INFO_DST, 0, le, prefix);
}

#[derive(Clone, Debug, Default)]
pub struct InlineQos {
  pub key_hash: Option<[u8; 16]>,
  /// status info flags byte (0x01 disposed, 0x02 unregistered)
  pub status_info: Option<u8>,
  /// extra (pid, value) parameters
  pub extra: Vec<(u16, Vec<u8>)>,
}

pub fn param_list(w: &mut W, q: &InlineQos) {
  if let Some(kh) = &q.key_hash {
    w.u16(PID_KEY_HASH);
    w.u16(16);
    w.bytes(kh);
  }
  if let Some(si) = q.status_info {
    w.u16(PID_STATUS_INFO);
    w.u16(4);
    w.bytes(&[0, 0, 0, si]);
  }
  for (pid, val) in &q.extra {
    w.u16(*pid);
    let padded = (val.len() + 3) / 4 * 4;
    w.u16(padded as u16);
    w.bytes(val);
    for _ in val.len()..padded {
      w.u8(0);
    }
  }
  w.u16(PID_SENTINEL);
  w.u16(0);
}

/// Serialized payload = 2-byte representation id, 2-byte options, data.
pub fn payload(rep_id: [u8; 2], data: &[u8]) -> Vec<u8> {
  let mut v = Vec::with_capacity(4 + data.len());
  v.extend_from_slice(&rep_id);
  v.extend_from_slice(&[0, 0]);
  v.extend_from_slice(data);
  v
}
pub const CDR_LE: [u8; 2] = [0, 1];
pub const CDR_BE: [u8; 2] = [0, 0];

#[derive(Clone, Debug)]
pub struct DataMsg {
  pub reader_id: [u8; 4],
  pub writer_id: [u8; 4],
  pub sn: i64,
  pub inline_qos: Option<InlineQos>,
  /// whole serialized payload (with encapsulation header) if any
  pub payload: Option<Vec<u8>>,
  /// true: payload is a key (K flag) instead of data (D flag)
  pub key_flag: bool,
}

pub fn data(out: &mut Vec<u8>, le: bool, d: &DataMsg) {
  let mut w = W::new(le);
  w.u16(0); // extraFlags
  w.u16(16); // octetsToInlineQos
  w.bytes(&d.reader_id);
  w.bytes(&d.writer_id);
  w.sn(d.sn);
  let mut flags = 0u8;
  if let Some(q) = &d.inline_qos {
    flags |= 0x02;
    param_list(&mut w, q);
  }
  if let Some(p) = &d.payload {
    flags |= if d.key_flag { 0x08 } else { 0x04 };
    w.bytes(p);
    w.pad4();
  }
  submsg(out, ID_DATA, flags, le, &w.buf);
}

#[derive(Clone, Debug)]
pub struct DataFragMsg {
  pub reader_id: [u8; 4],
  pub writer_id: [u8; 4],
  pub sn: i64,
  pub frag_start: u32,
  pub frags_in_submsg: u16,
  pub frag_size: u16,
  pub sample_size: u32,
  pub inline_qos: Option<InlineQos>,
  pub key_flag: bool,
  pub bytes: Vec<u8>,
}

pub fn data_frag(out: &mut Vec<u8>, le: bool, d: &DataFragMsg, pad: bool) {
  let mut w = W::new(le);
  w.u16(0);
  w.u16(28);
  w.bytes(&d.reader_id);
  w.bytes(&d.writer_id);
  w.sn(d.sn);
  w.u32(d.frag_start);
  w.u16(d.frags_in_submsg);
  w.u16(d.frag_size);
  w.u32(d.sample_size);
  let mut flags = 0u8;
  if let Some(q) = &d.inline_qos {
    flags |= 0x02;
    param_list(&mut w, q);
  }
  if d.key_flag {
    flags |= 0x04;
  }
  w.bytes(&d.bytes);
  if pad {
    w.pad4();
  }
  submsg(out, ID_DATA_FRAG, flags, le, &w.buf);
}

thread_local! {
  /// What a case wants in the bits of the last bitmap word that lie beyond numBits. RTPS leaves them undefined,
  /// RustDDS writes zeros, other implementations need not. Set per case (thread) by the front ends.
  static PAD_GARBAGE: std::cell::Cell<u32> = const { std::cell::Cell::new(0) };
}
pub fn set_pad_garbage(g: u32) {
  PAD_GARBAGE.with(|c| c.set(g));
}
/// the per-case padding choice: a third of the cases carry random bits there (own PRNG stream, so the case itself
/// is the one the same index always had)
pub fn choose_pad_garbage(seed: u64, stream: u64, index: u64) -> u32 {
  let mut r = crate::prng::Rng::derive(seed, stream ^ 0x9ad0_0000, index);
  let g = if r.chance(1, 3) { r.next() as u32 | 1 } else { 0 };
  set_pad_garbage(g);
  g
}
fn dirty_padding(bm: &mut [u32], num_bits: u32) {
  let used = num_bits % 32;
  if used != 0 {
    if let Some(last) = bm.last_mut() {
      *last |= PAD_GARBAGE.with(|c| c.get()) & (u32::MAX >> used);
    }
  }
}

/// Number set: base + explicit bit count + members (offsets from base).
pub fn sn_set(w: &mut W, base: i64, num_bits: u32, members: &[i64]) {
  w.sn(base);
  w.u32(num_bits);
  let words = ((num_bits + 31) / 32) as usize;
  let mut bm = vec![0u32; words];
  for m in members {
    let off = m - base;
    if off >= 0 && (off as u64) < num_bits as u64 {
      bm[(off / 32) as usize] |= 1u32 << (31 - (off % 32));
    }
  }
  dirty_padding(&mut bm, num_bits);
  for x in bm {
    w.u32(x);
  }
}
pub fn fn_set(w: &mut W, base: u32, num_bits: u32, members: &[u32]) {
  w.u32(base);
  w.u32(num_bits);
  let words = ((num_bits + 31) / 32) as usize;
  let mut bm = vec![0u32; words];
  for m in members {
    if *m >= base && ((*m - base) as u64) < num_bits as u64 {
      let off = m - base;
      bm[(off / 32) as usize] |= 1u32 << (31 - (off % 32));
    }
  }
  dirty_padding(&mut bm, num_bits);
  for x in bm {
    w.u32(x);
  }
}

pub fn heartbeat(
  out: &mut Vec<u8>,
  le: bool,
  reader_id: [u8; 4],
  writer_id: [u8; 4],
  first: i64,
  last: i64,
  count: i32,
  final_flag: bool,
  liveliness: bool,
) {
  let mut w = W::new(le);
  w.bytes(&reader_id);
  w.bytes(&writer_id);
  w.sn(first);
  w.sn(last);
  w.i32(count);
  let f = if final_flag { 0x02 } else { 0 } | if liveliness { 0x04 } else { 0 };
  submsg(out, ID_HEARTBEAT, f, le, &w.buf);
}

pub fn gap(
  out: &mut Vec<u8>,
  le: bool,
  reader_id: [u8; 4],
  writer_id: [u8; 4],
  gap_start: i64,
  list_base: i64,
  num_bits: u32,
  members: &[i64],
) {
  let mut w = W::new(le);
  w.bytes(&reader_id);
  w.bytes(&writer_id);
  w.sn(gap_start);
  sn_set(&mut w, list_base, num_bits, members);
  submsg(out, ID_GAP, 0, le, &w.buf);
}

pub fn acknack(
  out: &mut Vec<u8>,
  le: bool,
  reader_id: [u8; 4],
  writer_id: [u8; 4],
  base: i64,
  num_bits: u32,
  members: &[i64],
  count: i32,
  final_flag: bool,
) {
  let mut w = W::new(le);
  w.bytes(&reader_id);
  w.bytes(&writer_id);
  sn_set(&mut w, base, num_bits, members);
  w.i32(count);
  submsg(out, ID_ACKNACK, if final_flag { 0x02 } else { 0 }, le, &w.buf);
}

pub fn nack_frag(
  out: &mut Vec<u8>,
  le: bool,
  reader_id: [u8; 4],
  writer_id: [u8; 4],
  sn: i64,
  base: u32,
  num_bits: u32,
  members: &[u32],
  count: i32,
) {
  let mut w = W::new(le);
  w.bytes(&reader_id);
  w.bytes(&writer_id);
  w.sn(sn);
  fn_set(&mut w, base, num_bits, members);
  w.i32(count);
  submsg(out, ID_NACK_FRAG, 0, le, &w.buf);
}

pub fn heartbeat_frag(
  out: &mut Vec<u8>,
  le: bool,
  reader_id: [u8; 4],
  writer_id: [u8; 4],
  sn: i64,
  last_frag: u32,
  count: i32,
) {
  let mut w = W::new(le);
  w.bytes(&reader_id);
  w.bytes(&writer_id);
  w.sn(sn);
  w.u32(last_frag);
  w.i32(count);
  submsg(out, ID_HEARTBEAT_FRAG, 0, le, &w.buf);
}

// ----------------------------------------------------------------------------
// Walker
// ----------------------------------------------------------------------------

#[derive(Clone, Debug, PartialEq)]
pub enum Sub {
  /// (kind, port, 16 address bytes) per locator; multicast list present iff the M flag (0x02) is set (RTPS 9.4.5.9)
  InfoReply { unicast: Vec<(i32, u32, [u8; 16])>, multicast: Option<Vec<(i32, u32, [u8; 16])>> },
  InfoTs { ticks: Option<u64> },
  InfoDst { prefix: [u8; 12] },
  InfoSrc { prefix: [u8; 12] },
  Data {
    reader_id: [u8; 4],
    writer_id: [u8; 4],
    sn: i64,
    flags: u8,
    inline_qos: Option<Vec<(u16, Vec<u8>)>>,
    /// raw serialized payload bytes (with encapsulation header, incl. padding)
    payload: Vec<u8>,
  },
  DataFrag {
    reader_id: [u8; 4],
    writer_id: [u8; 4],
    sn: i64,
    flags: u8,
    frag_start: u32,
    frags_in_submsg: u16,
    frag_size: u16,
    sample_size: u32,
    inline_qos: Option<Vec<(u16, Vec<u8>)>>,
    bytes: Vec<u8>,
  },
  Heartbeat { reader_id: [u8; 4], writer_id: [u8; 4], first: i64, last: i64, count: i32, flags: u8 },
  Gap { reader_id: [u8; 4], writer_id: [u8; 4], gap_start: i64, base: i64, num_bits: u32, members: Vec<i64> },
  AckNack { reader_id: [u8; 4], writer_id: [u8; 4], base: i64, num_bits: u32, members: Vec<i64>, count: i32, flags: u8 },
  NackFrag { reader_id: [u8; 4], writer_id: [u8; 4], sn: i64, base: u32, num_bits: u32, members: Vec<u32>, count: i32 },
  HeartbeatFrag { reader_id: [u8; 4], writer_id: [u8; 4], sn: i64, last_frag: u32, count: i32 },
  Other { id: u8, flags: u8, body: Vec<u8> },
}

#[derive(Clone, Debug)]
pub struct Msg {
  pub version: [u8; 2],
  pub vendor: [u8; 2],
  pub prefix: [u8; 12],
  pub subs: Vec<Sub>,
  /// (offset of submessage header, id, flags, declared length, actual body length used)
  pub frames: Vec<(usize, u8, u8, u16, usize)>,
}

struct R<'a> {
  b: &'a [u8],
  p: usize,
  le: bool,
}
impl<'a> R<'a> {
  fn left(&self) -> usize {
    self.b.len() - self.p
  }
  fn take(&mut self, n: usize) -> Result<&'a [u8], String> {
    if self.left() < n {
      return Err(format!("short read: want {n} have {}", self.left()));
    }
    let s = &self.b[self.p..self.p + n];
    self.p += n;
    Ok(s)
  }
  fn u16(&mut self) -> Result<u16, String> {
    let s = self.take(2)?;
    Ok(if self.le { u16::from_le_bytes([s[0], s[1]]) } else { u16::from_be_bytes([s[0], s[1]]) })
  }
  fn u32(&mut self) -> Result<u32, String> {
    let s = self.take(4)?;
    let a = [s[0], s[1], s[2], s[3]];
    Ok(if self.le { u32::from_le_bytes(a) } else { u32::from_be_bytes(a) })
  }
  fn sn(&mut self) -> Result<i64, String> {
    let hi = self.u32()? as i32 as i64;
    let lo = self.u32()? as i64;
    Ok((hi << 32) | lo)
  }
  fn id4(&mut self) -> Result<[u8; 4], String> {
    let s = self.take(4)?;
    Ok([s[0], s[1], s[2], s[3]])
  }
  fn sn_set(&mut self) -> Result<(i64, u32, Vec<i64>), String> {
    let base = self.sn()?;
    let nb = self.u32()?;
    if nb > 256 {
      return Err(format!("numBits {nb} > 256"));
    }
    let words = (nb + 31) / 32;
    let mut members = vec![];
    for wi in 0..words {
      let x = self.u32()?;
      for bit in 0..32u32 {
        let off = wi * 32 + bit;
        if off < nb && (x >> (31 - bit)) & 1 == 1 {
          members.push(base + off as i64);
        }
      }
    }
    Ok((base, nb, members))
  }
  fn fn_set(&mut self) -> Result<(u32, u32, Vec<u32>), String> {
    let base = self.u32()?;
    let nb = self.u32()?;
    if nb > 256 {
      return Err(format!("numBits {nb} > 256"));
    }
    let words = (nb + 31) / 32;
    let mut members = vec![];
    for wi in 0..words {
      let x = self.u32()?;
      for bit in 0..32u32 {
        let off = wi * 32 + bit;
        if off < nb && (x >> (31 - bit)) & 1 == 1 {
          members.push(base.wrapping_add(off));
        }
      }
    }
    Ok((base, nb, members))
  }
  fn plist(&mut self) -> Result<Vec<(u16, Vec<u8>)>, String> {
    let mut v = vec![];
    loop {
      let pid = self.u16()?;
      let len = self.u16()? as usize;
      if pid == PID_SENTINEL {
        break;
      }
      let val = self.take(len)?.to_vec();
      v.push((pid, val));
    }
    Ok(v)
  }
}

pub fn parse(msg: &[u8]) -> Result<Msg, String> {
  if msg.len() < 20 {
    return Err("shorter than header".into());
  }
  if &msg[0..4] != b"RTPS" {
    return Err("bad magic".into());
  }
  let mut prefix = [0u8; 12];
  prefix.copy_from_slice(&msg[8..20]);
  let mut m = Msg {
    version: [msg[4], msg[5]],
    vendor: [msg[6], msg[7]],
    prefix,
    subs: vec![],
    frames: vec![],
  };
  let mut p = 20;
  while p < msg.len() {
    if msg.len() - p < 4 {
      return Err(format!("trailing {} bytes, not a submessage header", msg.len() - p));
    }
    let id = msg[p];
    let flags = msg[p + 1];
    let le = flags & 1 == 1;
    let l = if le {
      u16::from_le_bytes([msg[p + 2], msg[p + 3]])
    } else {
      u16::from_be_bytes([msg[p + 2], msg[p + 3]])
    };
    let body_start = p + 4;
    let body_end = if l == 0 && id != ID_PAD && id != ID_INFO_TS {
      // zero = extends to end of message (only legal for the last submessage)
      msg.len()
    } else {
      body_start + l as usize
    };
    if body_end > msg.len() {
      return Err(format!("submessage id {id:#x} at {p} overruns message: len {l}"));
    }
    let body = &msg[body_start..body_end];
    m.frames.push((p, id, flags, l, body.len()));
    let mut r = R { b: body, p: 0, le };
    let sub = match id {
      ID_INFO_TS => {
        if flags & 0x02 != 0 {
          Sub::InfoTs { ticks: None }
        } else {
          let s = r.u32()? as u64;
          let f = r.u32()? as u64;
          Sub::InfoTs { ticks: Some((s << 32) | f) }
        }
      }
      ID_INFO_REPLY => {
        let list = |r: &mut R| -> Result<Vec<(i32, u32, [u8; 16])>, String> {
          let n = r.u32()? as usize;
          if n > 1000 {
            return Err(format!("INFO_REPLY with {n} locators"));
          }
          let mut v = vec![];
          for _ in 0..n {
            let kind = r.u32()? as i32;
            let port = r.u32()?;
            let a = r.take(16)?;
            let mut addr = [0u8; 16];
            addr.copy_from_slice(a);
            v.push((kind, port, addr));
          }
          Ok(v)
        };
        let unicast = list(&mut r)?;
        let multicast = if flags & 0x02 != 0 { Some(list(&mut r)?) } else { None };
        if r.p != body.len() {
          return Err(format!("INFO_REPLY body has {} bytes beyond what its flags announce", body.len() - r.p));
        }
        Sub::InfoReply { unicast, multicast }
      }
      ID_INFO_DST => {
        let s = r.take(12)?;
        let mut a = [0u8; 12];
        a.copy_from_slice(s);
        Sub::InfoDst { prefix: a }
      }
      ID_INFO_SRC => {
        r.take(8)?;
        let s = r.take(12)?;
        let mut a = [0u8; 12];
        a.copy_from_slice(s);
        Sub::InfoSrc { prefix: a }
      }
      ID_DATA => {
        let _extra = r.u16()?;
        let o2q = r.u16()? as usize;
        let after_o2q = r.p;
        let reader_id = r.id4()?;
        let writer_id = r.id4()?;
        let sn = r.sn()?;
        // skip to inline qos as octetsToInlineQos says
        let target = after_o2q + o2q;
        if target < r.p || target > body.len() {
          return Err(format!("DATA octetsToInlineQos {o2q} inconsistent"));
        }
        r.p = target;
        let inline_qos = if flags & 0x02 != 0 { Some(r.plist()?) } else { None };
        let payload = if flags & 0x0c != 0 { body[r.p..].to_vec() } else { vec![] };
        Sub::Data { reader_id, writer_id, sn, flags, inline_qos, payload }
      }
      ID_DATA_FRAG => {
        let _extra = r.u16()?;
        let o2q = r.u16()? as usize;
        let after_o2q = r.p;
        let reader_id = r.id4()?;
        let writer_id = r.id4()?;
        let sn = r.sn()?;
        let frag_start = r.u32()?;
        let frags_in_submsg = r.u16()?;
        let frag_size = r.u16()?;
        let sample_size = r.u32()?;
        let target = after_o2q + o2q;
        if target < r.p || target > body.len() {
          return Err(format!("DATAFRAG octetsToInlineQos {o2q} inconsistent"));
        }
        r.p = target;
        let inline_qos = if flags & 0x02 != 0 { Some(r.plist()?) } else { None };
        let bytes = body[r.p..].to_vec();
        Sub::DataFrag {
          reader_id,
          writer_id,
          sn,
          flags,
          frag_start,
          frags_in_submsg,
          frag_size,
          sample_size,
          inline_qos,
          bytes,
        }
      }
      ID_HEARTBEAT => {
        let reader_id = r.id4()?;
        let writer_id = r.id4()?;
        let first = r.sn()?;
        let last = r.sn()?;
        let count = r.u32()? as i32;
        Sub::Heartbeat { reader_id, writer_id, first, last, count, flags }
      }
      ID_GAP => {
        let reader_id = r.id4()?;
        let writer_id = r.id4()?;
        let gap_start = r.sn()?;
        let (base, num_bits, members) = r.sn_set()?;
        Sub::Gap { reader_id, writer_id, gap_start, base, num_bits, members }
      }
      ID_ACKNACK => {
        let reader_id = r.id4()?;
        let writer_id = r.id4()?;
        let (base, num_bits, members) = r.sn_set()?;
        let count = r.u32()? as i32;
        Sub::AckNack { reader_id, writer_id, base, num_bits, members, count, flags }
      }
      ID_NACK_FRAG => {
        let reader_id = r.id4()?;
        let writer_id = r.id4()?;
        let sn = r.sn()?;
        let (base, num_bits, members) = r.fn_set()?;
        let count = r.u32()? as i32;
        Sub::NackFrag { reader_id, writer_id, sn, base, num_bits, members, count }
      }
      ID_HEARTBEAT_FRAG => {
        let reader_id = r.id4()?;
        let writer_id = r.id4()?;
        let sn = r.sn()?;
        let last_frag = r.u32()?;
        let count = r.u32()? as i32;
        Sub::HeartbeatFrag { reader_id, writer_id, sn, last_frag, count }
      }
      _ => Sub::Other { id, flags, body: body.to_vec() },
    };
    m.subs.push(sub);
    p = body_end;
  }
  Ok(m)
}

// ----------------------------------------------------------------------------
// Sample encodings shared with /verif/incrate/types.rs
// ----------------------------------------------------------------------------

/// CDR-LE body of VSample { key, id, blob }
pub fn vsample_cdr(key: u32, id: u32, blob: &[u8], le: bool) -> Vec<u8> {
  let mut w = W::new(le);
  w.u32(key);
  w.u32(id);
  w.u32(blob.len() as u32);
  w.bytes(blob);
  w.buf
}
pub fn vnokey_cdr(id: u32, blob: &[u8], le: bool) -> Vec<u8> {
  let mut w = W::new(le);
  w.u32(id);
  w.u32(blob.len() as u32);
  w.bytes(blob);
  w.buf
}
/// CDR body of the key of VSample (a u32)
pub fn vkey_cdr(key: u32, le: bool) -> Vec<u8> {
  let mut w = W::new(le);
  w.u32(key);
  w.buf
}
/// RTPS 9.6.3.8 key hash for a u32 key: big-endian CDR of the key, zero padded.
pub fn vkey_hash(key: u32) -> [u8; 16] {
  let mut h = [0u8; 16];
  h[0..4].copy_from_slice(&key.to_be_bytes());
  h
}

/// Independent fragmenter (RTPS 8.3.8.3): returns (fragment number from 1, bytes).
pub fn fragment(payload: &[u8], frag_size: usize) -> Vec<(u32, Vec<u8>)> {
  let mut v = vec![];
  let mut n = 1u32;
  let mut p = 0;
  while p < payload.len() {
    let e = (p + frag_size).min(payload.len());
    v.push((n, payload[p..e].to_vec()));
    n += 1;
    p = e;
  }
  v
}
