pub mod alloc;
pub mod ctx;
pub mod prng;
pub mod rdr;
pub mod wire;
pub mod c_rdr;
pub mod sib;
pub mod api;
pub mod c_api;
pub mod shard;
pub mod wtr;
pub mod c_wtr;
pub mod link;
pub mod c_link;
pub mod wfa;
pub mod c_wfa;
pub mod qosref;
pub mod c_qos;
pub mod c_codec;
#[cfg(feature = "security")]
pub mod c_crypto;
pub mod c_plcdr;
#[cfg(feature = "security")]
pub mod c_auth;
#[cfg(feature = "security")]
pub mod c_access;
#[cfg(feature = "security")]
pub mod c_mr;
pub mod hostile;
pub mod c_hostile;
pub mod stk;
pub mod c_stack;
pub mod c_lease;
pub mod c_sched;
pub mod stk2;
pub mod c_e2e;

use std::path::PathBuf;

use ctx::Args;

#[global_allocator]
static GLOBAL: alloc::Counting = alloc::Counting;

pub fn parse_args() -> Args {
  let mut it = std::env::args().skip(1);
  let id = it.next().unwrap_or_else(|| {
    eprintln!("usage: vcheck <Cxx> [--tier quick|thorough] [--replay file]");
    std::process::exit(2)
  });
  let mut tier = std::env::var("VERIF_TIER").unwrap_or_else(|_| "quick".to_string());
  let mut tier_given = false;
  let mut replay: Option<String> = None;
  let mut extra = vec![];
  while let Some(a) = it.next() {
    match a.as_str() {
      "--tier" => {
        tier = it.next().unwrap_or(tier.clone());
        tier_given = true;
      }
      "--replay" => replay = it.next(),
      _ => extra.push(a),
    }
  }
  let mut seed = std::env::var("VERIF_SEED").ok().and_then(|s| s.parse().ok()).unwrap_or(1u64);
  // a replay file knows the tier and the seed it was found with (the case index only means something for those)
  if let Some(doc) = replay.as_ref().and_then(|p| std::fs::read_to_string(p).ok()).and_then(|s| serde_json::from_str::<serde_json::Value>(&s).ok()) {
    if !tier_given {
      if let Some(t) = doc["tier"].as_str() {
        tier = t.to_string();
      }
    }
    if std::env::var("VERIF_SEED").is_err() {
      if let Some(sd) = doc["seed"].as_u64() {
        seed = sd;
      }
    }
  }
  let verif_dir = PathBuf::from(std::env::var("RUSTDDS_VERIF_DIR").unwrap_or_else(|_| "/verif".to_string()));
  Args { id, tier, seed, replay, verif_dir, extra }
}

pub fn main_entry() -> i32 {
  let args = parse_args();
  match args.id.as_str() {
    "C01" | "C03" | "C05" => c_rdr::run(&args),
    "C02" => c_link::run_c02(&args),
    "C04" => c_wtr::run_c04(&args),
    "C06" => c_hostile::run_c06(&args),
    "C07" => c_e2e::run_c07(&args),
    "C07probe" => c_e2e::run_probe(&args),
    "C08" => c_api::run_c08(&args),
    "C10" => c_qos::run_c10(&args),
    "C11" => c_stack::run_c11(&args),
    "C12" => c_lease::run_c12(&args),
    "C13" => c_sched::run_c13(&args),
    "C14" => c_codec::run_c14(&args),
    "C15" => c_plcdr::run_c15(&args),
    #[cfg(feature = "security")]
    "C19" => c_auth::run_c19(&args),
    #[cfg(feature = "security")]
    "C18" => c_access::run_c18(&args),
    "C20" => c_wfa::run_c20(&args),
    "C09" => c_api::run_c09(&args),
    #[cfg(feature = "security")]
    "C16" => c_crypto::run_c16(&args),
    #[cfg(feature = "security")]
    "C17" => c_mr::run_c17(&args),
    other => {
      eprintln!("unknown check {other}");
      2
    }
  }
}

/// case index recorded in a replay file (all engines store it under replay.case.index)
/// the "leg" recorded in a replay file's case tag, if any
pub fn replay_leg(args: &Args) -> Option<String> {
  let p = args.replay.as_ref()?;
  let s = std::fs::read_to_string(p).ok()?;
  let v: serde_json::Value = serde_json::from_str(&s).ok()?;
  Some(v["replay"]["case"]["leg"].as_str().or_else(|| v["replay"]["case"]["case"]["leg"].as_str()).unwrap_or("").to_string())
}

pub fn replay_index(args: &Args) -> Option<u64> {
  let p = args.replay.as_ref()?;
  let s = std::fs::read_to_string(p).ok()?;
  let v: serde_json::Value = serde_json::from_str(&s).ok()?;
  v["replay"]["case"]["index"].as_u64().or_else(|| v["replay"]["case"]["case"]["index"].as_u64())
}
