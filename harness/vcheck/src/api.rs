//! E-API: reference model of DDS 1.4 §2.2.2.5.1 (sample/view/instance state,
//! generation counts, KeepLast) run in lock-step with a real DataReader that is fed
//! wire DATA through the ReaderBench.  Serves C08 (full model) and C09 (bad changes).
use std::collections::{BTreeMap, BTreeSet};

use rustdds::verif::rbench::{Flavor, Obs, ObsVal, RbCfg, ReadOp, ReaderBench};
use serde_json::{json, Value};

use crate::{
  ctx::Acc,
  prng::{fnv64, Rng},
  wire::{self, DataMsg, InlineQos},
};

#[derive(Clone, Debug, PartialEq)]
pub enum Inj {
  Value { key: u32, id: u32, blob_len: usize },
  DisposeKey { key: u32 },
  DisposeHash { key: u32 },
  /// undecodable CDR body under a known representation id
  BadCdr { id: u32 },
  /// unknown representation identifier
  BadRepId { id: u32 },
  /// dispose naming a key hash the reader has never seen (payload-less DATA)
  UnknownKeyHash { key: u32 },
  /// payload-less DATA with a never-seen key hash whose StatusInfo says neither disposed nor unregistered:
  /// absent, 0, or FILTERED (4) only. Legal on the wire (a writer-side content filter sends the last one), not a sample.
  OddStatus { key: u32, status: Option<u32> },
}

#[derive(Clone, Debug)]
pub enum AStep {
  Inject { w: usize, inj: Inj },
  /// two consecutive changes of one writer whose datagrams arrive in the opposite order (the earlier one was lost
  /// and re-sent): a reliable reader makes them available in sequence-number order once both are there
  InjectSwapped { w: usize, first: Inj, second: Inj },
  Op(ReadOp),
}

#[derive(Clone, Debug)]
pub struct ApiCase {
  pub flavor: Flavor,
  pub reliable: bool,
  pub history: i32,
  pub nwriters: usize,
  pub steps: Vec<AStep>,
}

pub fn case_json(c: &ApiCase) -> Value {
  json!({
    "flavor": format!("{:?}", c.flavor), "reliable": c.reliable, "history": c.history, "writers": c.nwriters,
    "steps": c.steps.iter().map(|s| match s {
      AStep::Inject{w, inj} => json!({"inject": format!("w{w} {inj:?}")}),
      AStep::InjectSwapped{w, first, second} => json!({"inject_arriving_swapped": format!("w{w} {first:?} then {second:?}")}),
      AStep::Op(op) => json!({"op": format!("{op:?}")}),
    }).collect::<Vec<_>>()
  })
}

fn wguid(w: usize, keyed: bool) -> [u8; 16] {
  let mut g = [0u8; 16];
  g[0] = 0xEE;
  g[1] = 0x20 + w as u8;
  g[11] = w as u8 + 1;
  g[13] = 0x20;
  g[14] = w as u8 + 1;
  g[15] = if keyed { 0x02 } else { 0x03 };
  g
}

pub fn gen_op_full(rng: &mut Rng, flavor: Flavor, nkeys: u32) -> ReadOp {
  let max = *rng.pick(&[0usize, 1, 2, 3, usize::MAX, usize::MAX]);
  let nr = rng.chance(1, 2);
  match flavor {
    Flavor::Keyed => match rng.below(14) {
      0 | 1 => ReadOp::Take { max, not_read_only: nr },
      2 | 3 => ReadOp::Read { max, not_read_only: nr },
      4 => ReadOp::TakeNext,
      5 => ReadOp::ReadNext,
      6 => ReadOp::IterRead { not_read_only: rng.chance(1, 2) },
      7 => ReadOp::IterTake { not_read_only: rng.chance(1, 2) },
      8 | 9 => ReadOp::TakeInstance {
        max,
        not_read_only: nr,
        key: if rng.chance(1, 5) { None } else { Some(rng.below(nkeys as u64 + 1) as u32) },
        next: rng.chance(1, 2),
      },
      10 | 11 => ReadOp::ReadInstance {
        max,
        not_read_only: nr,
        key: if rng.chance(1, 5) { None } else { Some(rng.below(nkeys as u64 + 1) as u32) },
        next: rng.chance(1, 2),
      },
      _ => ReadOp::Read { max: usize::MAX, not_read_only: false },
    },
    Flavor::NoKey => match rng.below(8) {
      0 | 1 => ReadOp::Take { max, not_read_only: nr },
      2 | 3 => ReadOp::Read { max, not_read_only: nr },
      4 => ReadOp::TakeNext,
      5 => ReadOp::ReadNext,
      6 => ReadOp::IterRead { not_read_only: true },
      _ => ReadOp::IterTake { not_read_only: true },
    },
    _ => {
      if rng.chance(1, 2) {
        ReadOp::SimpleTakeOne
      } else {
        ReadOp::StreamPoll
      }
    }
  }
}

pub fn gen_case_c08(rng: &mut Rng, max_steps: u64) -> ApiCase {
  let flavor = if rng.chance(1, 5) { Flavor::NoKey } else { Flavor::Keyed };
  let keyed = flavor == Flavor::Keyed;
  let reliable = rng.chance(2, 3);
  let history = *rng.pick(&[-1, 1, 2, 3, 5, 0, 0]);
  let nwriters = 1 + rng.below(2) as usize;
  let nkeys = 1 + rng.below(4) as u32;
  let nsteps = 3 + rng.below(max_steps);
  let op_rate = 1 + rng.below(6);
  let mut steps = vec![];
  let mut next_id = 1u32;
  // keys a given writer has sent a value/dispose-by-key for (so a key-hash dispose is resolvable)
  let mut known_by_writer: Vec<BTreeSet<u32>> = vec![BTreeSet::new(); nwriters];
  let mut known_ingested: BTreeSet<u32> = BTreeSet::new();
  let mut pending_known: BTreeSet<u32> = BTreeSet::new();
  for _ in 0..nsteps {
    if rng.below(10) < op_rate {
      steps.push(AStep::Op(gen_op_full(rng, flavor, nkeys)));
      known_ingested.extend(pending_known.iter().copied());
      pending_known.clear();
    } else {
      let w = rng.below(nwriters as u64) as usize;
      let key = if keyed { rng.below(nkeys as u64) as u32 } else { 0 };
      let roll = rng.below(10);
      let inj = if keyed && roll < 2 {
        Inj::DisposeKey { key }
      } else if keyed && roll < 4 && (known_by_writer[w].contains(&key) || known_ingested.contains(&key)) {
        Inj::DisposeHash { key }
      } else {
        let id = next_id;
        next_id += 1;
        Inj::Value { key, id, blob_len: rng.below(9) as usize }
      };
      if !matches!(inj, Inj::DisposeHash { .. }) {
        known_by_writer[w].insert(key);
        pending_known.insert(key);
      }
      if reliable && !matches!(inj, Inj::DisposeHash { .. }) && rng.chance(1, 5) {
        // a second change, usually of the same instance, that overtakes this one on the wire
        let key2 = if keyed && rng.chance(1, 4) { rng.below(nkeys as u64) as u32 } else { key };
        let second = if keyed && rng.chance(1, 3) {
          Inj::DisposeKey { key: key2 }
        } else {
          let id = next_id;
          next_id += 1;
          Inj::Value { key: key2, id, blob_len: rng.below(9) as usize }
        };
        known_by_writer[w].insert(key2);
        pending_known.insert(key2);
        steps.push(AStep::InjectSwapped { w, first: inj, second });
        continue;
      }
      steps.push(AStep::Inject { w, inj });
    }
  }
  ApiCase { flavor, reliable, history, nwriters, steps }
}

// ----------------------------------------------------------------------------
// Reference model
// ----------------------------------------------------------------------------

#[derive(Clone, Debug)]
struct MSample {
  uid: usize,
  w: usize,
  sn: i64,
  key: u32,
  dispose: bool,
  id: u32,
  disposed_gen: i32,
  read: bool,
}

#[derive(Clone, Debug, Default)]
struct MInst {
  alive: bool,
  known: bool,
  latest_disposed_gen: i32,
  highest_accessed: i32, // -1 = never accessed
  samples: Vec<usize>,   // uids of all arrivals of this instance, in arrival order
}

#[derive(Default)]
struct Model {
  depth: Option<usize>,
  insts: BTreeMap<u32, MInst>,
  samples: BTreeMap<usize, MSample>,
  next_uid: usize,
  taken: BTreeSet<usize>,
  evicted: BTreeSet<usize>,
}

impl Model {
  fn arrive(&mut self, w: usize, sn: i64, key: u32, dispose: bool, id: u32) {
    let inst = self.insts.entry(key).or_insert_with(|| MInst { alive: !dispose, known: false, latest_disposed_gen: 0, highest_accessed: -1, samples: vec![] });
    if inst.known {
      if !inst.alive && !dispose {
        inst.latest_disposed_gen += 1;
      }
    }
    inst.known = true;
    inst.alive = !dispose;
    let uid = self.next_uid;
    self.next_uid += 1;
    self.samples.insert(uid, MSample { uid, w, sn, key, dispose, id, disposed_gen: inst.latest_disposed_gen, read: false });
    inst.samples.push(uid);
    // KeepLast(d): only the d most recent changes of the instance may remain available,
    // whether or not newer ones have been taken meanwhile.
    if let Some(d) = self.depth {
      if inst.samples.len() > d {
        let ev = inst.samples[inst.samples.len() - d - 1];
        if self.samples.remove(&ev).is_some() {
          self.evicted.insert(ev);
        }
      }
    }
  }

  fn selection(&self, not_read_only: bool, inst_key: Option<u32>) -> Vec<usize> {
    self
      .samples
      .values()
      .filter(|s| (!not_read_only || !s.read) && inst_key.map_or(true, |k| s.key == k))
      .map(|s| s.uid)
      .collect()
  }
}

pub struct ApiOutcome {
  pub results: u64,
  pub samples_seen: u64,
  pub sig: u64,
  pub view_judged: u64,
  pub multi_gen: bool,
  pub swapped_arrivals: u64,
}

fn build_data(w: usize, keyed: bool, sn: i64, inj: &Inj, reader_eid: [u8; 4], ts: u64, rng: &mut Rng) -> Vec<u8> {
  let g = wguid(w, keyed);
  let prefix: [u8; 12] = g[0..12].try_into().unwrap();
  let weid: [u8; 4] = g[12..16].try_into().unwrap();
  let le = !rng.chance(1, 5);
  let rep = if le { wire::CDR_LE } else { wire::CDR_BE };
  let mut out = wire::header(&prefix);
  wire::info_ts(&mut out, le, ts);
  let d = match inj {
    Inj::Value { key, id, blob_len } => {
      let blob: Vec<u8> = (0..*blob_len).map(|i| (*id as usize + i) as u8).collect();
      let body = if keyed { wire::vsample_cdr(*key, *id, &blob, le) } else { wire::vnokey_cdr(*id, &blob, le) };
      DataMsg { reader_id: reader_eid, writer_id: weid, sn, inline_qos: None, payload: Some(wire::payload(rep, &body)), key_flag: false }
    }
    Inj::DisposeKey { key } => DataMsg {
      reader_id: reader_eid,
      writer_id: weid,
      sn,
      inline_qos: Some(InlineQos { key_hash: Some(wire::vkey_hash(*key)), status_info: Some(1), extra: vec![] }),
      payload: Some(wire::payload(rep, &wire::vkey_cdr(*key, le))),
      key_flag: true,
    },
    Inj::DisposeHash { key } | Inj::UnknownKeyHash { key } => DataMsg {
      reader_id: reader_eid,
      writer_id: weid,
      sn,
      inline_qos: Some(InlineQos { key_hash: Some(wire::vkey_hash(*key)), status_info: Some(1), extra: vec![] }),
      payload: None,
      key_flag: false,
    },
    Inj::OddStatus { key, status } => DataMsg {
      reader_id: reader_eid,
      writer_id: weid,
      sn,
      inline_qos: Some(InlineQos { key_hash: Some(wire::vkey_hash(*key)), status_info: status.map(|s| s as u8), extra: vec![] }),
      payload: None,
      key_flag: false,
    },
    Inj::BadCdr { id } => {
      // declares a 1000-byte blob but carries 3 bytes
      let mut body = vec![];
      if keyed {
        body.extend_from_slice(&7u32.to_le_bytes());
      }
      body.extend_from_slice(&id.to_le_bytes());
      body.extend_from_slice(&1000u32.to_le_bytes());
      body.extend_from_slice(&[1, 2, 3]);
      DataMsg { reader_id: reader_eid, writer_id: weid, sn, inline_qos: None, payload: Some(wire::payload(wire::CDR_LE, &body)), key_flag: false }
    }
    Inj::BadRepId { id } => {
      let body = if keyed { wire::vsample_cdr(1, *id, &[], true) } else { wire::vnokey_cdr(*id, &[], true) };
      DataMsg { reader_id: reader_eid, writer_id: weid, sn, inline_qos: None, payload: Some(wire::payload([0x00, 0x99], &body)), key_flag: false }
    }
  };
  wire::data(&mut out, le, &d);
  out
}

fn ts_for(w: usize, sn: i64) -> u64 {
  ((1_600_000_000u64 + (w as u64) * 100_000 + sn as u64) << 32) | 0x8000_0000
}

pub fn run_case_c08(case: &ApiCase, acc: &mut Acc, tag: &Value, rng: &mut Rng) -> ApiOutcome {
  let keyed = case.flavor == Flavor::Keyed;
  let mut rb = ReaderBench::new(RbCfg { flavor: case.flavor, reliable: case.reliable, history: case.history, max_samples: 0, reader_key: [0, 0, 8] });
  let reader_eid = rb.reader_entity_id();
  for w in 0..case.nwriters {
    rb.match_writer(wguid(w, keyed), true, format!("127.0.0.1:{}", 21000 + w).parse().unwrap());
  }
  let by_guid: BTreeMap<[u8; 16], usize> = (0..case.nwriters).map(|w| (wguid(w, keyed), w)).collect();
  let mut model = Model {
    depth: match case.history {
      0 => None,
      n if n > 0 => Some(n as usize),
      _ => Some(1),
    },
    ..Default::default()
  };
  let mut sn_next = vec![1i64; case.nwriters];
  let mut out = ApiOutcome { results: 0, samples_seen: 0, sig: 0, view_judged: 0, multi_gen: false, swapped_arrivals: 0 };
  let mut sigbuf: Vec<u8> = vec![];
  let replay = || json!({"case": tag, "script": case_json(case)});
  let debug = std::env::var("VERIF_DEBUG").is_ok();
  let v0 = acc.violations.len() + acc.counters.get("violations_beyond_cap").copied().unwrap_or(0) as usize;

  for (step_no, step) in case.steps.iter().enumerate() {
    // one witness per case: after the first violation the model is no longer in step
    if acc.violations.len() + acc.counters.get("violations_beyond_cap").copied().unwrap_or(0) as usize > v0 {
      break;
    }
    match step {
      AStep::Inject { w, inj } => {
        let sn = sn_next[*w];
        sn_next[*w] += 1;
        let bytes = build_data(*w, keyed, sn, inj, reader_eid, ts_for(*w, sn), rng);
        rb.inject(&bytes);
        if debug {
          eprintln!("step {step_no} inject w{w} sn{sn} {inj:?}");
        }
        match inj {
          Inj::Value { key, id, .. } => model.arrive(*w, sn, *key, false, *id),
          Inj::DisposeKey { key } | Inj::DisposeHash { key } => model.arrive(*w, sn, *key, true, 0),
          _ => {}
        }
        sigbuf.push(match inj {
          Inj::Value { key, .. } => 0x10 | *key as u8,
          Inj::DisposeKey { key } => 0x20 | *key as u8,
          Inj::DisposeHash { key } => 0x30 | *key as u8,
          _ => 0x40,
        });
      }
      AStep::InjectSwapped { w, first, second } => {
        let sn_a = sn_next[*w];
        let sn_b = sn_a + 1;
        sn_next[*w] += 2;
        let bytes_b = build_data(*w, keyed, sn_b, second, reader_eid, ts_for(*w, sn_b), rng);
        let bytes_a = build_data(*w, keyed, sn_a, first, reader_eid, ts_for(*w, sn_a), rng);
        rb.inject(&bytes_b);
        // reception timestamps have the resolution of the clock: make sure they differ
        std::thread::sleep(std::time::Duration::from_micros(50));
        rb.inject(&bytes_a);
        out.swapped_arrivals += 1;
        for (sn, inj) in [(sn_a, first), (sn_b, second)] {
          match inj {
            Inj::Value { key, id, .. } => model.arrive(*w, sn, *key, false, *id),
            Inj::DisposeKey { key } | Inj::DisposeHash { key } => model.arrive(*w, sn, *key, true, 0),
            _ => {}
          }
        }
        sigbuf.push(0x50);
      }
      AStep::Op(op) => {
        sigbuf.push(0x80 | (fnv64(format!("{op:?}").as_bytes()) as u8 & 0x7f));
        let res = rb.op(op);
        let obs = match res {
          Ok(v) => v,
          Err(e) => {
            acc.violate("C08/error:read-or-take-failed-on-valid-data", json!({"step": step_no, "op": format!("{op:?}"), "err": e}), replay());
            continue;
          }
        };
        out.results += 1;
        out.samples_seen += obs.len() as u64;
        if debug {
          eprintln!("step {step_no} {op:?} ->");
          for o in &obs {
            eprintln!("    {:?} sn={:?} w={:?} info={:?}", o.val, o.sn, o.writer.map(|g| g[1]), o.info);
          }
          eprintln!("  model available: {:?}", model.samples.values().map(|s| (s.uid, s.w, s.sn, s.key, s.dispose, s.read)).collect::<Vec<_>>());
        }
        // --- expected selection
        let (max, not_read_only, inst_key, removing, with_info): (usize, bool, Option<Option<u32>>, bool, bool) = match op {
          ReadOp::Take { max, not_read_only } => (*max, *not_read_only, None, true, true),
          ReadOp::Read { max, not_read_only } => (*max, *not_read_only, None, false, true),
          ReadOp::TakeNext => (1, true, None, true, true),
          ReadOp::ReadNext => (1, true, None, false, true),
          ReadOp::IterRead { not_read_only } => (usize::MAX, *not_read_only || case.flavor == Flavor::NoKey, None, false, false),
          ReadOp::IterTake { not_read_only } => (usize::MAX, *not_read_only || case.flavor == Flavor::NoKey, None, true, false),
          ReadOp::TakeInstance { max, not_read_only, key, next } | ReadOp::ReadInstance { max, not_read_only, key, next } => {
            // instance selection as documented: This = that key; Next = smallest known key greater; None = first instance
            let known: Vec<u32> = model.insts.iter().filter(|(_, i)| i.known).map(|(k, _)| *k).collect();
            let sel = match key {
              Some(k) => {
                if *next {
                  known.iter().copied().find(|x| x > k)
                } else {
                  Some(*k)
                }
              }
              None => known.first().copied(),
            };
            (*max, *not_read_only, Some(sel), matches!(op, ReadOp::TakeInstance { .. }), true)
          }
          _ => continue,
        };
        let selection: Vec<usize> = match inst_key {
          Some(None) => vec![],
          Some(Some(k)) => model.selection(not_read_only, Some(k)),
          None => model.selection(not_read_only, None),
        };
        let want = selection.len().min(max);
        // --- identify observed samples in the model
        let mut got_uids: Vec<usize> = vec![];
        let mut bad = false;
        if !with_info {
          // bare iterators carry neither writer nor SN: compare as multisets (value ids,
          // dispose count per key); they are never truncated, so the whole selection is expected
          let mut exp_vals: Vec<u32> = selection.iter().filter(|u| !model.samples[*u].dispose).map(|u| model.samples[u].id).collect();
          let mut exp_disp: Vec<u32> = selection.iter().filter(|u| model.samples[*u].dispose).map(|u| model.samples[u].key).collect();
          let mut got_vals: Vec<u32> = obs.iter().filter_map(|o| if let ObsVal::Value { id, .. } = &o.val { Some(*id) } else { None }).collect();
          let mut got_disp: Vec<u32> = obs.iter().filter_map(|o| if let ObsVal::Dispose { key } = &o.val { Some(*key) } else { None }).collect();
          // per-writer SN order among values (identified by unique id)
          let mut last_sn: BTreeMap<usize, i64> = BTreeMap::new();
          for id in &got_vals {
            if let Some(ms) = model.samples.values().find(|s| !s.dispose && s.id == *id) {
              if let Some(p) = last_sn.get(&ms.w) {
                if ms.sn <= *p {
                  acc.violate("C08/order:writer-samples-not-in-sn-order-within-result", json!({"step": step_no, "op": format!("{op:?}"), "writer": ms.w, "sn": ms.sn, "after": p}), replay());
                }
              }
              last_sn.insert(ms.w, ms.sn);
            }
          }
          exp_vals.sort();
          exp_disp.sort();
          got_vals.sort();
          got_disp.sort();
          if exp_vals != got_vals || exp_disp != got_disp {
            acc.violate("C08/selection:iterator-result-differs-from-reference", json!({"step": step_no, "op": format!("{op:?}"), "expected_values": exp_vals, "got_values": got_vals, "expected_disposes": exp_disp, "got_disposes": got_disp, "history": case.history}), replay());
            continue;
          }
          for u in &selection {
            let (key, gen) = {
              let ms = model.samples.get_mut(u).unwrap();
              ms.read = true;
              (ms.key, ms.disposed_gen)
            };
            let inst = model.insts.get_mut(&key).unwrap();
            inst.highest_accessed = inst.highest_accessed.max(gen);
          }
          if removing {
            for u in &selection {
              model.samples.remove(u);
              model.taken.insert(*u);
            }
          }
          continue;
        }
        for o in &obs {
          let cand: Vec<&MSample> = match (&o.writer, o.sn) {
            (Some(g), Some(sn)) => {
              let w = by_guid.get(g).copied();
              model.samples.values().filter(|s| Some(s.w) == w && s.sn == sn).collect()
            }
            _ => match &o.val {
              ObsVal::Value { id, .. } => model.samples.values().filter(|s| !s.dispose && s.id == *id).collect(),
              ObsVal::Dispose { key } => model.samples.values().filter(|s| s.dispose && s.key == *key && selection.contains(&s.uid) && !got_uids.contains(&s.uid)).take(1).collect(),
            },
          };
          match cand.first() {
            None => {
              // not available in the model: taken before, evicted by KeepLast, or never sent
              let why = match (&o.writer, o.sn) {
                (Some(g), Some(sn)) => {
                  let w = by_guid.get(g).copied();
                  if model.taken.iter().any(|_| false) { "" } else { "" };
                  let _ = (w, sn);
                  "sample-not-available-in-reference-model (taken earlier, beyond History depth, or never sent)"
                }
                _ => "sample-not-available-in-reference-model",
              };
              acc.violate("C08/selection:returned-sample-that-should-not-be-available", json!({"step": step_no, "op": format!("{op:?}"), "obs": format!("{o:?}"), "why": why, "history": case.history}), replay());
              bad = true;
            }
            Some(ms) => {
              // value check
              let ok = match &o.val {
                ObsVal::Value { key, id, .. } => !ms.dispose && *key == ms.key && *id == ms.id,
                ObsVal::Dispose { key } => ms.dispose && *key == ms.key,
              };
              if !ok {
                acc.violate("C08/value:sample-content-differs", json!({"step": step_no, "obs": format!("{o:?}"), "model": format!("{ms:?}")}), replay());
              }
              if got_uids.contains(&ms.uid) {
                acc.violate("C08/selection:sample-twice-in-one-result", json!({"step": step_no, "obs": format!("{o:?}")}), replay());
              }
              got_uids.push(ms.uid);
            }
          }
        }
        if bad {
          continue;
        }
        // subset + size
        for u in &got_uids {
          if !selection.contains(u) {
            let ms = &model.samples[u];
            acc.violate("C08/condition:returned-sample-not-matching-condition-or-instance", json!({"step": step_no, "op": format!("{op:?}"), "sample": format!("{ms:?}")}), replay());
          }
        }
        if got_uids.len() != want {
          acc.violate(
            if got_uids.len() < want { "C08/selection:fewer-samples-than-available" } else { "C08/selection:more-samples-than-max" },
            json!({"step": step_no, "op": format!("{op:?}"), "got": got_uids.len(), "expected": want, "selection": selection.len(), "history": case.history}),
            replay(),
          );
        }
        // per-writer SN order within the result
        let mut last_sn: BTreeMap<usize, i64> = BTreeMap::new();
        for u in &got_uids {
          let ms = &model.samples[u];
          if let Some(p) = last_sn.get(&ms.w) {
            if ms.sn <= *p {
              acc.violate("C08/order:writer-samples-not-in-sn-order-within-result", json!({"step": step_no, "op": format!("{op:?}"), "writer": ms.w, "sn": ms.sn, "after": p}), replay());
            }
          }
          last_sn.insert(ms.w, ms.sn);
        }
        // sample info
        if with_info {
          // most recent sample of each instance within the result
          let mut most_recent: BTreeMap<u32, usize> = BTreeMap::new();
          for u in &got_uids {
            let ms = &model.samples[u];
            let e = most_recent.entry(ms.key).or_insert(*u);
            if *u > *e {
              *e = *u;
            }
          }
          for (o, u) in obs.iter().zip(got_uids.iter()) {
            let ms = &model.samples[u];
            let inst = &model.insts[&ms.key];
            let info = match &o.info {
              Some(i) => i,
              None => continue,
            };
            if info.read != ms.read {
              acc.violate("C08/sample-state:read-flag-wrong", json!({"step": step_no, "op": format!("{op:?}"), "sample": format!("{ms:?}"), "reported_read": info.read}), replay());
            }
            let exp_inst = if inst.alive { 0 } else { 1 };
            if info.inst != exp_inst {
              acc.violate("C08/instance-state:wrong", json!({"step": step_no, "op": format!("{op:?}"), "sample": format!("{ms:?}"), "reported": info.inst, "expected": exp_inst, "writers": case.nwriters, "reliable": case.reliable}), replay());
            }
            if info.disposed_gen != ms.disposed_gen || info.no_writers_gen != 0 {
              acc.violate("C08/generation:counts-wrong", json!({"step": step_no, "op": format!("{op:?}"), "sample": format!("{ms:?}"), "reported": [info.disposed_gen, info.no_writers_gen], "writers": case.nwriters, "reliable": case.reliable}), replay());
            }
            if most_recent.get(&ms.key) == Some(u) && ms.disposed_gen == inst.latest_disposed_gen {
              // judged only when the sample belongs to the instance's latest generation,
              // where all readings of the spec text coincide
              let exp_new = inst.latest_disposed_gen > inst.highest_accessed;
              out.view_judged += 1;
              if info.view_new != exp_new {
                acc.violate("C08/view-state:wrong-on-most-recent-sample", json!({"step": step_no, "op": format!("{op:?}"), "sample": format!("{ms:?}"), "reported_new": info.view_new, "expected_new": exp_new, "highest_generation_accessed": inst.highest_accessed}), replay());
              }
            }
            if ms.disposed_gen > 0 {
              out.multi_gen = true;
            }
          }
        }
        // --- model update
        for u in &got_uids {
          let (key, gen) = {
            let ms = model.samples.get_mut(u).unwrap();
            ms.read = true;
            (ms.key, ms.disposed_gen)
          };
          let inst = model.insts.get_mut(&key).unwrap();
          inst.highest_accessed = inst.highest_accessed.max(gen);
        }
        if removing {
          for u in &got_uids {
            let ms = model.samples.remove(u).unwrap();
            model.taken.insert(*u);
            let _ = ms;
          }
        }
      }
    }
  }
  out.sig = fnv64(&sigbuf);
  out
}

// ----------------------------------------------------------------------------
// C09
// ----------------------------------------------------------------------------

pub fn gen_case_c09(rng: &mut Rng) -> ApiCase {
  let flavor = *rng.pick(&[Flavor::Keyed, Flavor::Keyed, Flavor::NoKey, Flavor::Simple, Flavor::SimpleNoKey]);
  let keyed = matches!(flavor, Flavor::Keyed | Flavor::Simple);
  let reliable = rng.chance(1, 2);
  let nwriters = 1 + rng.below(2) as usize;
  let n = 2 + rng.below(14);
  let nbad = 1 + rng.below(3);
  let mut bad_pos: BTreeSet<u64> = BTreeSet::new();
  // head, tail and middle positions
  for _ in 0..nbad {
    bad_pos.insert(match rng.below(4) {
      0 => 0,
      1 => n - 1,
      _ => rng.below(n),
    });
  }
  let mut steps = vec![];
  let mut id = 1u32;
  let op_rate = rng.below(5);
  for i in 0..n {
    let w = rng.below(nwriters as u64) as usize;
    let inj = if bad_pos.contains(&i) {
      match rng.below(if keyed { 4 } else { 2 }) {
        0 => Inj::BadCdr { id: 0xBAD0 + i as u32 },
        1 => Inj::BadRepId { id: 0xBAD0 + i as u32 },
        2 => Inj::UnknownKeyHash { key: 0x7000 + i as u32 },
        _ => Inj::OddStatus { key: 0x7000 + i as u32, status: *rng.pick(&[None, Some(0u32), Some(4)]) },
      }
    } else {
      id += 1;
      if keyed && rng.chance(1, 6) {
        Inj::DisposeKey { key: 0x100 + id }
      } else {
        Inj::Value { key: id % 3, id, blob_len: rng.below(6) as usize }
      }
    };
    steps.push(AStep::Inject { w, inj });
    if rng.below(10) < op_rate {
      steps.push(AStep::Op(gen_op_drain(rng, flavor)));
    }
  }
  ApiCase { flavor, reliable, history: 0, nwriters, steps }
}

fn gen_op_drain(rng: &mut Rng, flavor: Flavor) -> ReadOp {
  match flavor {
    Flavor::Keyed | Flavor::NoKey => match rng.below(4) {
      0 => ReadOp::TakeNext,
      1 => ReadOp::IterTake { not_read_only: true },
      2 => ReadOp::Take { max: 2, not_read_only: false },
      _ => ReadOp::Take { max: usize::MAX, not_read_only: false },
    },
    _ => {
      if rng.chance(1, 2) {
        ReadOp::SimpleTakeOne
      } else {
        ReadOp::StreamPoll
      }
    }
  }
}

pub struct C09Outcome {
  pub odd_status_injected: u64,
  pub errors_reported: u64,
  pub bad_injected: u64,
  pub delivered: u64,
  pub sig: u64,
}

/// `on_op(begin)`: callback bracketing each reader call for the hang watchdog.
pub fn run_case_c09(case: &ApiCase, acc: &mut Acc, tag: &Value, rng: &mut Rng, bracket: &dyn Fn(Option<&str>)) -> C09Outcome {
  let keyed = matches!(case.flavor, Flavor::Keyed | Flavor::Simple);
  let mut rb = ReaderBench::new(RbCfg { flavor: case.flavor, reliable: case.reliable, history: 0, max_samples: 100_000, reader_key: [0, 0, 9] });
  let reader_eid = rb.reader_entity_id();
  for w in 0..case.nwriters {
    rb.match_writer(wguid(w, keyed), true, format!("127.0.0.1:{}", 22000 + w).parse().unwrap());
  }
  let replay = || json!({"case": tag, "script": case_json(case)});
  let mut sn_next = vec![1i64; case.nwriters];
  // expected deliveries: value ids and dispose keys, each exactly once
  let mut expect_vals: BTreeMap<u32, u32> = BTreeMap::new(); // id -> times delivered
  let mut expect_disp: BTreeMap<u32, u32> = BTreeMap::new();
  let mut out = C09Outcome { odd_status_injected: 0, errors_reported: 0, bad_injected: 0, delivered: 0, sig: 0 };
  let mut reportable_bad = 0u64; // BadCdr / BadRepId injected
  let mut maybe_reportable = 0u64; // OddStatus injected
  let mut sigbuf = vec![];
  let mut do_op = |rb: &mut ReaderBench, op: &ReadOp, acc: &mut Acc, out: &mut C09Outcome, expect_vals: &mut BTreeMap<u32, u32>, expect_disp: &mut BTreeMap<u32, u32>, step_no: usize| -> usize {
    let label = format!("{op:?}");
    bracket(Some(&label));
    let res = rb.op(op);
    bracket(None);
    match res {
      Err(e) => {
        if e.starts_with("UNSUPPORTED") {
          acc.inconclusive.push(e);
          return 0;
        }
        out.errors_reported += 1;
        1 // progress: an error report consumed one bad change
      }
      Ok(v) => {
        for o in &v {
          match &o.val {
            ObsVal::Value { id, .. } => match expect_vals.get_mut(id) {
              Some(c) => {
                *c += 1;
                if *c > 1 {
                  acc.violate("C09/once:intelligible-sample-delivered-twice", json!({"step": step_no, "id": id}), replay());
                }
              }
              None => acc.violate("C09/phantom:delivered-sample-never-sent", json!({"step": step_no, "obs": format!("{o:?}")}), replay()),
            },
            ObsVal::Dispose { key } => match expect_disp.get_mut(key) {
              Some(c) => {
                *c += 1;
                if *c > 1 {
                  acc.violate("C09/once:intelligible-sample-delivered-twice", json!({"step": step_no, "dispose": key}), replay());
                }
              }
              None => acc.violate("C09/phantom:delivered-sample-never-sent", json!({"step": step_no, "obs": format!("{o:?}")}), replay()),
            },
          }
          out.delivered += 1;
        }
        v.len()
      }
    }
  };
  for (step_no, step) in case.steps.iter().enumerate() {
    match step {
      AStep::Inject { w, inj } => {
        let sn = sn_next[*w];
        sn_next[*w] += 1;
        let bytes = build_data(*w, keyed, sn, inj, reader_eid, ts_for(*w, sn), rng);
        bracket(Some("inject"));
        rb.inject(&bytes);
        bracket(None);
        match inj {
          Inj::Value { id, .. } => {
            expect_vals.insert(*id, 0);
            sigbuf.push(1);
          }
          Inj::DisposeKey { key } => {
            expect_disp.insert(*key, 0);
            sigbuf.push(2);
          }
          Inj::BadCdr { .. } => {
            reportable_bad += 1;
            out.bad_injected += 1;
            sigbuf.push(3);
          }
          Inj::BadRepId { .. } => {
            reportable_bad += 1;
            out.bad_injected += 1;
            sigbuf.push(4);
          }
          Inj::UnknownKeyHash { .. } => {
            out.bad_injected += 1;
            sigbuf.push(5);
          }
          Inj::OddStatus { status, .. } => {
            // reported or skipped: both are fine, so it adds to the allowance without being owed
            maybe_reportable += 1;
            out.bad_injected += 1;
            out.odd_status_injected += 1;
            sigbuf.push(6 + status.map_or(0, |s| 1 + s as u8));
          }
          _ => {}
        }
      }
      AStep::InjectSwapped { .. } => {} // not generated for C09
      AStep::Op(op) => {
        sigbuf.push(0x80 | (fnv64(format!("{op:?}").as_bytes()) as u8 & 0x7f));
        do_op(&mut rb, op, acc, &mut out, &mut expect_vals, &mut expect_disp, step_no);
      }
    }
  }
  // drain: keep taking while there is progress (a returned sample or a reported error)
  let drain = match case.flavor {
    Flavor::Keyed | Flavor::NoKey => ReadOp::Take { max: usize::MAX, not_read_only: false },
    _ => ReadOp::SimpleTakeOne,
  };
  let mut idle = 0;
  let mut guard = 0;
  while idle < 2 && guard < 10_000 {
    let n = do_op(&mut rb, &drain, acc, &mut out, &mut expect_vals, &mut expect_disp, usize::MAX);
    if n == 0 {
      idle += 1;
    } else {
      idle = 0;
    }
    guard += 1;
  }
  if out.errors_reported > reportable_bad + maybe_reportable {
    acc.violate("C09/report:bad-change-reported-more-than-once", json!({"errors": out.errors_reported, "bad_changes": reportable_bad + maybe_reportable}), replay());
  }
  for (id, c) in &expect_vals {
    if *c == 0 {
      acc.violate("C09/blocked:intelligible-change-never-delivered", json!({"value_id": id, "flavor": format!("{:?}", case.flavor), "reliable": case.reliable}), replay());
      break;
    }
  }
  for (k, c) in &expect_disp {
    if *c == 0 {
      acc.violate("C09/blocked:intelligible-change-never-delivered", json!({"dispose_key": k, "flavor": format!("{:?}", case.flavor), "reliable": case.reliable}), replay());
      break;
    }
  }
  out.sig = fnv64(&sigbuf);
  out
}
