//! C12: lease expiry. DiscoveryDB leg (synchronous, real monotonic time, short leases,
//! every call bracketed; only cases decided by the measured intervals are judged) and
//! the stack leg (real participant, fake remote participants that go silent).
use std::collections::{BTreeMap, BTreeSet};

use rustdds::verif::{ddb::DbBench, net};
use serde_json::{json, Value};

use crate::{
  c_stack,
  ctx::{par_cases, Acc, Args, Report},
  prng::{fnv64, Rng},
  stk::SProp,
};

#[derive(Clone, Debug)]
enum Op {
  Update { p: u8 },
  Alive { p: u8 },
  Cleanup,
  Dispose { p: u8 },
  Sleep { ms: u64 },
  AddEp { p: u8, writer: bool, e: u8, topic: u8 },
}

#[derive(Clone, Debug)]
struct PModel {
  lease: Option<f64>, // None absent (=100 s default), inf, or seconds
  known: bool,
  // interval in which the DB took its timestamp of the last life sign
  sig: (f64, f64),
  endpoints: BTreeSet<(bool, u8, u8)>, // (writer, e, topic) learned and not disposed
  timed_out: bool,
}

fn run_db_case(seed: u64, i: u64, acc: &mut Acc) {
  let mut rng = Rng::derive(seed, 0x1212, i);
  let np = 1 + rng.below(3) as u8;
  let leases: Vec<Option<f64>> = (0..np)
    .map(|_| match rng.below(8) {
      0 => None,
      1 => Some(f64::INFINITY),
      _ => Some(*rng.pick(&[0.04, 0.08, 0.15, 0.25, 0.4])),
    })
    .collect();
  let nops = 6 + rng.below(24);
  let mut ops = vec![];
  for _ in 0..nops {
    let p = rng.below(np as u64) as u8;
    ops.push(match rng.below(20) {
      0..=3 => Op::Update { p },
      4..=6 => Op::Alive { p },
      7..=10 => Op::Cleanup,
      11 => Op::Dispose { p },
      12..=16 => Op::Sleep { ms: *rng.pick(&[5u64, 20, 45, 90, 160, 300]) },
      _ => Op::AddEp { p, writer: rng.chance(1, 2), e: rng.below(3) as u8, topic: rng.below(2) as u8 },
    });
  }
  let tag = json!({"seed": seed, "stream": 0x1212, "index": i, "engine": "discovery-db"});
  let replay = || json!({"case": tag, "leases": leases, "ops": ops.iter().map(|o| format!("{o:?}")).collect::<Vec<_>>()});
  let mut db = DbBench::new();
  let mut m: BTreeMap<u8, PModel> = BTreeMap::new();
  let topics = ["ta", "tb"];
  let mut sig = vec![];
  for (k, op) in ops.iter().enumerate() {
    match op {
      Op::Sleep { ms } => {
        std::thread::sleep(std::time::Duration::from_millis(*ms));
        sig.push(1u8);
      }
      Op::Update { p } => {
        let (was_new, a, b) = db.update_participant(*p, leases[*p as usize]);
        let e = m.entry(*p).or_insert(PModel { lease: leases[*p as usize], known: false, sig: (a, b), endpoints: BTreeSet::new(), timed_out: false });
        if was_new == e.known {
          acc.violate("C12/update:was-new-flag-wrong", json!({"op": k, "was_new": was_new, "model_known": e.known}), replay());
        }
        let reappeared_after_timeout = !e.known && e.timed_out;
        e.known = true;
        e.sig = (a, b);
        e.timed_out = false;
        acc.count("db_updates", 1);
        if reappeared_after_timeout {
          // endpoints learned earlier become known again
          for t in 0..2u8 {
            let (r, w) = db.endpoints(*p, topics[t as usize]);
            let exp_r: Vec<u8> = e.endpoints.iter().filter(|x| !x.0 && x.2 == t).map(|x| x.1).collect();
            let exp_w: Vec<u8> = e.endpoints.iter().filter(|x| x.0 && x.2 == t).map(|x| x.1).collect();
            acc.count("db_attic_restore_checks", 1);
            if r != exp_r || w != exp_w {
              acc.violate("C12/attic-restore:endpoints-of-reappearing-participant-not-known-again", json!({"op": k, "participant": p, "topic": t, "readers": r, "writers": w, "expected_readers": exp_r, "expected_writers": exp_w}), replay());
            }
          }
        }
        sig.push(2);
      }
      Op::Alive { p } => {
        let (a, b) = db.alive(*p);
        if let Some(e) = m.get_mut(p) {
          if e.known {
            e.sig = (a, b);
          }
        }
        sig.push(3);
      }
      Op::AddEp { p, writer, e, topic } => {
        if m.get(p).map_or(false, |x| x.known) {
          if *writer {
            db.add_writer(*p, *e, topics[*topic as usize]);
          } else {
            db.add_reader(*p, *e, topics[*topic as usize]);
          }
          // same entity key on another topic replaces the earlier announcement
          let pm = m.get_mut(p).unwrap();
          pm.endpoints.retain(|x| !(x.0 == *writer && x.1 == *e));
          pm.endpoints.insert((*writer, *e, *topic));
        }
        sig.push(4);
      }
      Op::Dispose { p } => {
        db.dispose(*p);
        if let Some(e) = m.get_mut(p) {
          e.known = false;
          e.timed_out = false;
          e.endpoints.clear();
        }
        acc.count("db_disposes", 1);
        if db.known(*p) {
          acc.violate("C12/dispose-immediate:disposed-participant-still-known", json!({"op": k, "participant": p}), replay());
        }
        for t in 0..2 {
          let (r, w) = db.endpoints(*p, topics[t]);
          if !r.is_empty() || !w.is_empty() {
            acc.violate("C12/dispose-immediate:endpoints-of-disposed-participant-still-listed", json!({"op": k, "participant": p, "readers": r, "writers": w}), replay());
          }
        }
        sig.push(5);
      }
      Op::Cleanup => {
        let (lost, c_lo, c_hi) = db.cleanup();
        acc.count("db_cleanups", 1);
        let lost_set: BTreeSet<u8> = lost.iter().map(|l| l.participant).collect();
        for (p, e) in m.iter_mut() {
          if !e.known {
            if lost_set.contains(p) {
              acc.violate("C12/cleanup:unknown-participant-reported-lost", json!({"op": k, "participant": p}), replay());
            }
            continue;
          }
          let lease = match e.lease {
            None => 100.0,
            Some(l) => l,
          };
          let max_elapsed = c_hi - e.sig.0;
          let min_elapsed = c_lo - e.sig.1;
          let dropped = lost_set.contains(p);
          if max_elapsed <= lease {
            acc.count("db_determinate_must_keep", 1);
            if dropped {
              acc.violate("C12/no-early-drop:participant-dropped-within-its-lease", json!({"op": k, "participant": p, "lease_s": lease, "silence_at_most_s": max_elapsed, "reported": format!("{:?}", lost.iter().find(|l| l.participant == *p))}), replay());
            }
          } else if min_elapsed > lease {
            acc.count("db_determinate_must_drop", 1);
            if !dropped {
              acc.violate("C12/drop-after:silent-participant-not-dropped-by-cleanup", json!({"op": k, "participant": p, "lease_s": lease, "silence_at_least_s": min_elapsed}), replay());
            }
          } else {
            acc.count("db_indeterminate", 1);
          }
          if dropped {
            e.known = false;
            e.timed_out = true;
            if db.known(*p) {
              acc.violate("C12/drop-after:dropped-participant-still-known", json!({"op": k, "participant": p}), replay());
            }
            // endpoints of a timed-out participant are not listed while it is gone
            for t in 0..2 {
              let (r, w) = db.endpoints(*p, topics[t]);
              if !r.is_empty() || !w.is_empty() {
                acc.violate("C12/drop-after:endpoints-of-lost-participant-still-listed", json!({"op": k, "participant": p, "readers": r, "writers": w}), replay());
              }
            }
          }
        }
        sig.push(6);
      }
    }
  }
  acc.evaluations += 1;
  if sig.iter().filter(|x| **x == 6).count() >= 2 && sig.contains(&1) {
    acc.distinct.insert(fnv64(&sig) ^ fnv64(format!("{leases:?}").as_bytes()));
  }
  if i < 2 {
    acc.sample(replay(), 2);
  }
}

pub fn run_c12(args: &Args) -> i32 {
  net::set_policy_drop_all();
  let mut rep = Report::new(
    args,
    "DiscoveryDB leg: random scripts of update_participant / participant_is_alive / participant_cleanup / dispose / endpoint announcements / real sleeps (5-300 ms) over 1-3 participants with leases 40-400 ms, infinite and absent, every call bracketed by Instant::now(); stack leg: real participant against fake remote participants with 2 s leases that are kept alive (half of them address SPDP to ENTITYID_UNKNOWN, half repeat the announcement with the same sequence number, as stateless SPDP writers of other implementations do), go silent, get disposed and reappear; distinct = hash of the op-kind sequence and leases; non-trivial = >=2 cleanups and >=1 sleep (DB leg), >=2 set changes (stack leg)",
  );
  rep.assume("DB leg: a cleanup verdict is judged only when the measured brackets decide it: must-keep if the largest possible silence <= lease, must-drop if the smallest possible silence > lease; straddling cases are counted as indeterminate");
  rep.assume("stack leg: not-dropped-early judged on (time the loss was observed - time before the last announcement was sent) >= lease; the upper bound (lease + cleanup period 2 s + slack) is a watchdog: 12 s beyond the lease, else violation drop-after; a loss while the harness itself paused > 60% of the lease between keep-alives is inconclusive");
  let seed = args.seed;
  let ncases = args.scale(600, 30_000);
  let replay_case = crate::replay_index(args);
  let replay_is_stack = args.replay.as_ref().and_then(|p| std::fs::read_to_string(p).ok()).map_or(false, |s| s.contains("stack-fake-participants"));
  let mut acc = Acc::default();
  if !replay_is_stack {
    // threads mostly sleep: oversubscribe
    acc = par_cases(args.threads() * 4, ncases, |i, acc| {
      if replay_case.map_or(false, |rc| rc != i) {
        return;
      }
      run_db_case(seed, i, acc);
    });
  }
  if replay_case.is_none() || replay_is_stack {
    let sacc = c_stack::stack_cases(args, SProp::C12, args.scale(32, 1200), 0x1213, true, 10);
    acc.merge(sacc);
  }
  rep.require("db_determinate_must_keep", 200);
  rep.require("db_determinate_must_drop", 100);
  rep.require("db_attic_restore_checks", 20);
  rep.require("stack_losses_by_timeout", 5);
  rep.finish(acc)
}

#[allow(dead_code)]
fn unused(_: Value) {}
