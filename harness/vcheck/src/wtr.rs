//! E-WIRE writer-side engine (C04): a real Writer + DataWriter against scripted
//! populations of fake readers. Everything the writer sends is captured per
//! destination locator and decoded by the independent walker; the shadow model
//! knows only what was written and which ACKNACKs were injected.
use std::collections::{BTreeMap, BTreeSet};

use rustdds::verif::{
  net::Sent,
  types::VSample,
  wbench::{WbCfg, WriterBench},
};
use serde_json::{json, Value};

use crate::{
  ctx::Acc,
  prng::{fnv64, Rng},
  wire::{self, Sub},
};

#[derive(Clone, Debug)]
pub enum WEv {
  Write { blob_len: usize, to_single: Option<usize> },
  Dispose { key: u32 },
  AckNack { r: usize, base: i64, nbits: u32, members: Vec<i64>, fin: bool },
  /// tl: the reader requests TransientLocal (only meaningful when the writer offers it)
  Match { r: usize, reliable: bool, tl: bool },
  Unmatch { r: usize },
  HbTick,
  Clean,
  Repair,
}

#[derive(Clone, Debug)]
pub struct WCase {
  pub cfg: WbCfg,
  pub evs: Vec<WEv>,
}

pub fn case_json(c: &WCase) -> Value {
  json!({"reliable": c.cfg.reliable, "history": c.cfg.history, "transient_local": c.cfg.transient_local, "frag_size": c.cfg.frag_size,
    "events": c.evs.iter().map(|e| format!("{e:?}")).collect::<Vec<_>>()})
}

pub const NREADERS: usize = 3;

pub fn reader_guid(r: usize) -> [u8; 16] {
  let mut g = [0u8; 16];
  g[0] = 0xDD;
  g[1] = r as u8 + 1;
  g[11] = 0x40 + r as u8;
  g[13] = 0x30;
  g[14] = r as u8 + 1;
  g[15] = 0x07; // reader with key, user defined
  g
}
pub fn reader_port(r: usize) -> u16 {
  30000 + r as u16
}

pub fn gen_case(rng: &mut Rng, max_events: u64) -> WCase {
  let history = *rng.pick(&[-1, 1, 3, 40, 0, 0]);
  let cfg = WbCfg {
    reliable: true,
    history,
    transient_local: rng.chance(1, 2),
    frag_size: *rng.pick(&[0usize, 0, 64, 96, 200]),
    writer_key: [0, 0, 0x21],
  };
  // population style
  let style = rng.below(5); // 0 none, 1 best-effort only, 2 one reliable, 3 mixed, 4 churn
  let mut evs = vec![];
  let mut matched = [false; NREADERS];
  let mut reliable = [false; NREADERS];
  match style {
    0 => {}
    1 => {
      evs.push(WEv::Match { r: 0, reliable: false, tl: cfg.transient_local });
      matched[0] = true;
    }
    2 => {
      evs.push(WEv::Match { r: 0, reliable: true, tl: cfg.transient_local });
      matched[0] = true;
      reliable[0] = true;
    }
    _ => {
      for r in 0..NREADERS {
        if rng.chance(2, 3) {
          let rel = rng.chance(2, 3);
          evs.push(WEv::Match { r, reliable: rel, tl: cfg.transient_local && !rng.chance(1, 3) });
          matched[r] = true;
          reliable[r] = rel;
        }
      }
    }
  }
  let n = 4 + rng.below(max_events);
  let mut last = 0i64;
  let mut acked = [0i64; NREADERS];
  for _ in 0..n {
    let roll = rng.below(100);
    if roll < 40 {
      let to_single = if rng.chance(1, 6) { Some(rng.below(NREADERS as u64) as usize) } else { None };
      let blob_len = if cfg.frag_size > 0 && rng.chance(1, 3) { cfg.frag_size + rng.below(4 * cfg.frag_size as u64) as usize } else { rng.below(30) as usize };
      evs.push(WEv::Write { blob_len, to_single });
      last += 1;
    } else if roll < 43 {
      evs.push(WEv::Dispose { key: rng.below(3) as u32 });
      last += 1;
    } else if roll < 68 {
      let cands: Vec<usize> = (0..NREADERS).filter(|r| matched[*r] && reliable[*r]).collect();
      if cands.is_empty() {
        continue;
      }
      let r = *rng.pick(&cands);
      // honest-ish reader: base moves forward, sometimes lies high/low
      let base = match rng.below(10) {
        0 => 1,
        1 => last + 1 + rng.below(3) as i64, // claims more than was written
        2 => rng.range(0, last + 1),         // may step backwards
        _ => {
          let lo = acked[r].max(1).min(last + 1);
          rng.range(lo, last + 1)
        }
      };
      acked[r] = acked[r].max(base);
      let mut members = vec![];
      if rng.chance(2, 3) {
        let k = rng.below(5);
        for _ in 0..k {
          let span = if rng.chance(1, 10) { 256 } else { (last - base + 2).max(1) as u64 };
          members.push(base + rng.below(span) as i64);
        }
        members.sort();
        members.dedup();
      }
      let nbits = members.iter().map(|m| (m - base + 1) as u32).max().unwrap_or(0);
      evs.push(WEv::AckNack { r, base, nbits, members, fin: rng.chance(1, 2) });
      if rng.chance(3, 4) {
        evs.push(WEv::Repair);
      }
    } else if roll < 75 {
      let r = rng.below(NREADERS as u64) as usize;
      if style >= 3 || !matched[r] {
        if matched[r] {
          evs.push(WEv::Unmatch { r });
          matched[r] = false;
        } else if style != 0 {
          let rel = if style == 1 { false } else { rng.chance(2, 3) };
          evs.push(WEv::Match { r, reliable: rel, tl: cfg.transient_local && !rng.chance(1, 3) });
          matched[r] = true;
          reliable[r] = rel;
          acked[r] = 0;
        }
      }
    } else if roll < 85 {
      evs.push(WEv::HbTick);
    } else if roll < 95 {
      evs.push(WEv::Clean);
    } else {
      evs.push(WEv::Repair);
    }
  }
  evs.push(WEv::Clean);
  evs.push(WEv::HbTick);
  WCase { cfg, evs }
}

#[derive(Default, Clone)]
struct RShadow {
  matched: bool,
  reliable: bool,
  acked_base: i64, // as last told to the writer since the match (0 = nothing yet)
}

struct Written {
  payload: Option<Vec<u8>>, // expected serialized payload (None for dispose: bytes not judged)
  to_single: Option<usize>,
}

pub struct WOutcome {
  pub datagrams: u64,
  pub heartbeats: u64,
  pub answers_checked: u64,
  pub cleanings: u64,
  pub sig: u64,
}

fn limit_of(history: i32) -> usize {
  match history {
    0 => 32,
    n if n > 0 => (n as usize).min(32),
    _ => 1,
  }
}

/// decode everything sent, grouped by reader index (by destination port)
fn decode(sent: &[Sent]) -> Vec<(Option<usize>, Vec<Sub>)> {
  sent
    .iter()
    .map(|s| {
      let r = s.dst.and_then(|a| {
        let p = a.port();
        if p >= 30000 && (p as usize) < 30000 + NREADERS {
          Some(p as usize - 30000)
        } else {
          None
        }
      });
      (r, wire::parse(&s.bytes).map(|m| m.subs).unwrap_or_else(|e| vec![Sub::Other { id: 0xFF, flags: 0, body: e.into_bytes() }]))
    })
    .collect()
}

pub fn run_case(case: &WCase, acc: &mut Acc, tag: &Value) -> WOutcome {
  let mut wb = WriterBench::new(case.cfg.clone());
  let weid = wb.writer_entity_id();
  let own_prefix = wb.own_prefix;
  let mut rs: Vec<RShadow> = vec![RShadow::default(); NREADERS];
  let mut history_floor: Vec<i64> = vec![0; NREADERS];
  let mut written: BTreeMap<i64, Written> = BTreeMap::new();
  let mut last_written = 0i64;
  let mut out = WOutcome { datagrams: 0, heartbeats: 0, answers_checked: 0, cleanings: 0, sig: 0 };
  let limit = limit_of(case.cfg.history);
  let replay = || json!({"case": tag, "script": case_json(case)});
  let mut sigbuf = vec![];
  let v0 = acc.violations.len();
  let mut acknack_counts = [0i32; NREADERS];
  let frag_size = if case.cfg.frag_size == 0 { 1024 } else { case.cfg.frag_size };

  // requests awaiting an answer: (reader, sn) -> event index of the request
  let mut open_requests: BTreeMap<(usize, i64), usize> = BTreeMap::new();
  // per reader fragment collection for answers
  let mut frag_acc: BTreeMap<(usize, i64), (u32, BTreeMap<u32, Vec<u8>>)> = BTreeMap::new();

  let mut prev_hist: BTreeSet<i64> = BTreeSet::new();
  for (ei, ev) in case.evs.iter().enumerate() {
    if acc.violations.len() > v0 {
      break;
    }
    let sent: Vec<Sent> = match ev {
      WEv::Write { blob_len, to_single } => {
        let id = last_written as u32 + 1;
        let blob: Vec<u8> = (0..*blob_len).map(|i| (id as usize * 7 + i) as u8).collect();
        let key = id % 3;
        let (r, sent) = wb.write(VSample { key, id, blob: blob.clone() }, to_single.map(reader_guid), Some(((1_650_000_000u64 + id as u64) << 32) | 0x4000_0000));
        match r {
          Ok(sn) => {
            if sn != last_written + 1 {
              acc.violate("C04/sn:sequence-numbers-not-consecutive", json!({"event": ei, "sn": sn, "expected": last_written + 1}), replay());
            }
            last_written = sn;
            written.insert(sn, Written { payload: Some(wire::payload(wire::CDR_LE, &wire::vsample_cdr(key, id, &blob, true))), to_single: *to_single });
          }
          Err(e) => {
            acc.inconclusive.push(format!("write failed: {e}"));
          }
        }
        sigbuf.push(if to_single.is_some() { 2 } else { 1 });
        sent
      }
      WEv::Dispose { key } => {
        let (r, sent) = wb.dispose(*key, None);
        if r.is_ok() {
          last_written += 1;
          written.insert(last_written, Written { payload: None, to_single: None });
        }
        sigbuf.push(3);
        sent
      }
      WEv::Match { r, reliable, tl } => {
        wb.match_reader_d(reader_guid(*r), *reliable, *tl, format!("127.0.0.1:{}", reader_port(*r)).parse().unwrap());
        rs[*r] = RShadow { matched: true, reliable: *reliable, acked_base: 0 };
        // what existed when the reader joined may be declared unavailable to it unless both sides are TransientLocal
        history_floor[*r] = if *tl && case.cfg.transient_local { 0 } else { last_written };
        sigbuf.push(0x10 | *r as u8 | if *reliable { 8 } else { 0 });
        vec![]
      }
      WEv::Unmatch { r } => {
        wb.unmatch_reader(reader_guid(*r));
        rs[*r].matched = false;
        open_requests.retain(|(rr, _), _| rr != r);
        sigbuf.push(0x20 | *r as u8);
        vec![]
      }
      WEv::AckNack { r, base, nbits, members, fin } => {
        let g = reader_guid(*r);
        let prefix: [u8; 12] = g[0..12].try_into().unwrap();
        let reid: [u8; 4] = g[12..16].try_into().unwrap();
        let mut dg = wire::header(&prefix);
        wire::info_dst(&mut dg, true, &own_prefix);
        acknack_counts[*r] += 1;
        wire::acknack(&mut dg, true, reid, weid, *base, *nbits, members, acknack_counts[*r], *fin);
        let sent = wb.inject(&dg);
        if rs[*r].matched && rs[*r].reliable {
          rs[*r].acked_base = (*base).max(1);
          // everything below base is acknowledged: requests for it are moot
          open_requests.retain(|(rr, sn), _| !(rr == r && *sn < *base));
          for m in members {
            if *m >= 1 && *m <= last_written && *m >= *base {
              open_requests.insert((*r, *m), ei);
              frag_acc.remove(&(*r, *m));
            }
          }
        }
        sigbuf.push(0x30 | *r as u8);
        sent
      }
      WEv::HbTick => {
        sigbuf.push(4);
        wb.heartbeat_tick()
      }
      WEv::Clean => {
        wb.cache_cleaning();
        out.cleanings += 1;
        sigbuf.push(5);
        // ---- C04/bound
        let hist = wb.history_sns();
        let unacked = hist.iter().filter(|sn| rs.iter().any(|r| r.matched && r.reliable && r.acked_base <= **sn)).count();
        if hist.len() > limit + unacked {
          let pop: Vec<String> = rs.iter().enumerate().filter(|(_, r)| r.matched).map(|(i, r)| format!("r{i}:{}", if r.reliable { "reliable" } else { "besteffort" })).collect();
          let kind = if pop.is_empty() {
            "no-readers"
          } else if rs.iter().all(|r| !r.matched || !r.reliable) {
            "best-effort-readers-only"
          } else if rs.iter().any(|r| r.matched && !r.reliable) {
            "mixed-readers"
          } else {
            "reliable-readers"
          };
          acc.violate(
            format!("C04/bound:history-exceeds-limit-plus-unacked:{kind}"),
            json!({"event": ei, "held": hist.len(), "limit": limit, "unacked_by_matched_reliable": unacked, "readers": pop, "history": case.cfg.history}),
            replay(),
          );
        }
        vec![]
      }
      WEv::Repair => {
        sigbuf.push(6);
        let mut all = vec![];
        let mut steps = 0;
        loop {
          let (s, pending) = wb.repair_step();
          all.extend(s);
          steps += 1;
          if !pending || steps > 400 {
            if pending {
              acc.count("repair_not_quiescent_after_400_steps", 1);
            }
            break;
          }
        }
        all
      }
    };
    out.datagrams += sent.len() as u64;
    // ---- observe what was sent
    for (dst_r, subs) in decode(&sent) {
      for sub in &subs {
        match sub {
          Sub::Other { id: 0xFF, body, .. } => {
            acc.violate("C04/format:writer-datagram-does-not-parse", json!({"event": ei, "err": String::from_utf8_lossy(body)}), replay());
          }
          Sub::Heartbeat { first, last, .. } => {
            out.heartbeats += 1;
            let hist = wb.history_sns();
            let exp_first = hist.first().copied().unwrap_or(last_written + 1);
            if *first != exp_first || *last != last_written {
              acc.violate("C04/heartbeat:does-not-advertise-lowest-held-and-highest-written", json!({"event": ei, "hb": [first, last], "expected": [exp_first, last_written]}), replay());
            }
          }
          Sub::Data { sn, payload, .. } => {
            if let Some(w) = written.get(sn) {
              // privacy
              if let (Some(t), Some(d)) = (w.to_single, dst_r) {
                if t != d {
                  acc.violate("C04/private:single-reader-sample-sent-to-other-reader", json!({"event": ei, "sn": sn, "meant_for": t, "sent_to": d, "via": "DATA"}), replay());
                }
              }
              if let (Some(exp), Some(d)) = (&w.payload, dst_r) {
                let ok = payload.len() >= exp.len() && payload.len() <= exp.len() + 3 && payload[..exp.len()] == exp[..] && payload[exp.len()..].iter().all(|b| *b == 0);
                if !ok {
                  acc.violate("C04/answer:data-bytes-differ-from-written", json!({"event": ei, "sn": sn, "to": d}), replay());
                }
              }
              if let Some(d) = dst_r {
                if open_requests.remove(&(d, *sn)).is_some() {
                  out.answers_checked += 1;
                }
              }
            } else {
              acc.violate("C04/answer:data-for-sn-never-written", json!({"event": ei, "sn": sn}), replay());
            }
          }
          Sub::DataFrag { sn, frag_start, frags_in_submsg, frag_size: fs, sample_size, bytes, .. } => {
            if let Some(w) = written.get(sn) {
              if let (Some(t), Some(d)) = (w.to_single, dst_r) {
                if t != d {
                  acc.violate("C04/private:single-reader-sample-sent-to-other-reader", json!({"event": ei, "sn": sn, "meant_for": t, "sent_to": d, "via": "DATAFRAG"}), replay());
                }
              }
              if let (Some(exp), Some(d)) = (&w.payload, dst_r) {
                // byte-for-byte against the independent fragmenter
                let from = (*frag_start as usize - 1) * frag_size;
                let to = (from + *frags_in_submsg as usize * frag_size).min(exp.len());
                let good = *fs as usize == frag_size && *sample_size as usize == exp.len() && from < exp.len() && bytes.len() >= to - from && bytes[..to - from] == exp[from..to] && bytes[to - from..].iter().all(|b| *b == 0) && bytes.len() <= to - from + 3;
                if !good {
                  acc.violate("C04/answer:datafrag-differs-from-independent-fragmenter", json!({"event": ei, "sn": sn, "frag_start": frag_start, "count": frags_in_submsg, "frag_size": fs, "sample_size": sample_size, "expected_sample_size": exp.len(), "expected_frag_size": frag_size}), replay());
                }
                let total = ((exp.len() + frag_size - 1) / frag_size) as u32;
                let e = frag_acc.entry((d, *sn)).or_insert((total, BTreeMap::new()));
                for k in 0..*frags_in_submsg as u32 {
                  e.1.insert(frag_start + k, vec![]);
                }
                if e.1.len() as u32 >= total {
                  frag_acc.remove(&(d, *sn));
                  if open_requests.remove(&(d, *sn)).is_some() {
                    out.answers_checked += 1;
                  }
                }
              } else if let Some(d) = dst_r {
                open_requests.remove(&(d, *sn));
              }
            }
          }
          Sub::Gap { gap_start, base, members, .. } => {
            if let Some(d) = dst_r {
              let covered: Vec<(usize, i64)> = open_requests.keys().filter(|(r, sn)| *r == d && ((*sn >= *gap_start && *sn < *base) || members.contains(sn))).copied().collect();
              for k in covered {
                open_requests.remove(&k);
                out.answers_checked += 1;
              }
              // a GAP must not declare unavailable what the writer still holds for that reader
              let hist: BTreeSet<i64> = wb.history_sns().into_iter().collect();
              let mut declared: Vec<i64> = (*gap_start..*base).collect();
              declared.extend(members.iter().copied());
              for sn in declared {
                if hist.contains(&sn) {
                  let private_other = written.get(&sn).and_then(|w| w.to_single).map_or(false, |t| t != d);
                  // a Volatile writer, or any writer towards a Volatile reader, gaps what existed before the match
                  let volatile_old = sn <= history_floor[d];
                  if !private_other && !volatile_old {
                    acc.violate("C04/answer:gap-covers-sample-still-held-for-that-reader", json!({"event": ei, "sn": sn, "to": d}), replay());
                    break;
                  }
                }
              }
            }
          }
          _ => {}
        }
      }
    }
    // ---- C04/retain: whatever left the history during this event must have been
    // acknowledged by every matched reliable reader (as of now) or be beyond the limit
    let hist: BTreeSet<i64> = wb.history_sns().into_iter().collect();
    for sn in prev_hist.iter() {
      if !hist.contains(sn) {
        let acked_by_all = rs.iter().all(|r| !(r.matched && r.reliable) || r.acked_base > *sn);
        let forced_out = *sn <= last_written - limit as i64;
        if !acked_by_all && !forced_out {
          acc.violate("C04/retain:sample-dropped-while-unacknowledged-and-within-depth", json!({"event": ei, "sn": sn, "last_written": last_written, "limit": limit, "event_kind": format!("{ev:?}")}), replay());
          break;
        }
      }
    }
    prev_hist = hist.clone();
    // ---- C04/answer: after a repair run reached quiescence every open request must be closed
    if matches!(ev, WEv::Repair) {
      let stale: Vec<((usize, i64), usize)> = open_requests.iter().filter(|((r, sn), _)| rs[*r].matched && rs[*r].reliable && *sn <= last_written).map(|(k, v)| (*k, *v)).collect();
      if let Some(((r, sn), at)) = stale.first() {
        let held = hist.contains(sn);
        let w = written.get(sn);
        let kind = match w.and_then(|w| w.to_single) {
          Some(t) if t != *r => "single-reader-sample-requested-by-other-reader:no-gap",
          _ if !held => "sample-no-longer-held:no-gap",
          _ => "sample-held:not-resent",
        };
        acc.violate(format!("C04/answer:request-not-answered:{kind}"), json!({"event": ei, "requested_at_event": at, "reader": r, "sn": sn, "held": held, "proxies": format!("{:?}", wb.proxies())}), replay());
      }
    }
  }
  out.sig = fnv64(&sigbuf);
  out
}
