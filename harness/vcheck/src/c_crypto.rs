//! C16 front end: protected traffic decodes only for its intended receiver and only if untouched.
//!
//! The in-crate driver (`rustdds::verif::sec::crypto`) owns the plugin instances and hands out
//! plain data. Everything that judges lives here: the harness's own walker of RTPS framing,
//! CryptoHeader / CryptoContent / CryptoFooter and of the key material tokens, the byte
//! comparison of what was decoded with what was encoded, and the tamper / wrong-key /
//! wrong-receiver rules.
use rustdds::verif::sec::crypto::{
  Cfg, CryptoBench, DecodeOpts, EncodeReq, Encoded, Outcome, SubSpec, RX_B, RX_C, RX_K_RECEIVER_KEY, RX_K_SALT, RX_K_SENDER_KEY, RX_T_NO_TOKENS,
  RX_T_OTHER_SENDER,
};
use serde_json::{json, Value};

use crate::{
  ctx::{hex, par_cases, Acc, Args, Report},
  prng::{fnv64, Rng},
};

const STREAM: u64 = 0x1616;

// ---------------------------------------------------------------------------------------------
// the harness's own walkers

#[derive(Clone, Copy, Debug, PartialEq, Eq)]
enum Field {
  /// CryptoHeader.transformation_kind (4)
  Kind,
  /// CryptoHeader.transformation_key_id (4)
  KeyId,
  /// CryptoHeader session id (4)
  SessionId,
  /// CryptoHeader initialization vector suffix (8)
  IvSuffix,
  /// CryptoContent length prefix (4)
  ContentLen,
  /// CryptoContent ciphertext
  Cipher,
  /// bytes covered by the common MAC under GMAC (sign only)
  SignedPlain,
  /// CryptoFooter.common_mac (16)
  CommonMac,
  /// CryptoFooter.receiver_specific_macs length (4)
  MacCount,
  /// receiver_specific_macs[i].receiver_mac_key_id (4)
  RsKeyId(usize),
  /// receiver_specific_macs[i].receiver_mac (16)
  RsMac(usize),
  /// anything else: RTPS header, submessage headers, DATA fixed part, framing padding, ...
  Other,
}

impl Field {
  fn name(&self) -> &'static str {
    match self {
      Field::Kind => "transformation-kind",
      Field::KeyId => "key-id",
      Field::SessionId => "session-id",
      Field::IvSuffix => "iv-suffix",
      Field::ContentLen => "content-length",
      Field::Cipher => "ciphertext",
      Field::SignedPlain => "signed-plaintext",
      Field::CommonMac => "common-mac",
      Field::MacCount => "mac-count",
      Field::RsKeyId(_) => "receiver-mac-key-id",
      Field::RsMac(_) => "receiver-mac",
      Field::Other => "other",
    }
  }
}

#[derive(Clone, Debug, Default)]
struct Map {
  /// (start, end, field)
  spans: Vec<(usize, usize, Field)>,
  /// transformation kind number found in the CryptoHeader (1 GMAC128, 2 GCM128, 3 GMAC256, 4 GCM256)
  kind: u8,
  /// receiver-specific MAC entries: (key id, offset of the entry)
  rs_entries: Vec<([u8; 4], usize)>,
  /// (offset of the postfix submessage header, offset of its body, end) when the footer sits in a submessage
  footer_frame: Option<(usize, usize, usize)>,
}

impl Map {
  fn classify(&self, pos: usize) -> Field {
    for (s, e, f) in &self.spans {
      if pos >= *s && pos < *e {
        return *f;
      }
    }
    Field::Other
  }
  fn positions_of(&self, pred: impl Fn(Field) -> bool) -> Vec<usize> {
    let mut v = vec![];
    for (s, e, f) in &self.spans {
      if pred(*f) {
        v.extend(*s..*e);
      }
    }
    v
  }
}

#[derive(Clone, Copy, Debug)]
struct Frame {
  off: usize,
  id: u8,
  flags: u8,
  body: usize,
  end: usize,
}

const ID_PAD: u8 = 0x01;
const ID_INFO_TS: u8 = 0x09;
const ID_DATA: u8 = 0x15;
const ID_DATA_FRAG: u8 = 0x16;
const ID_SEC_BODY: u8 = 0x30;
const ID_SEC_PREFIX: u8 = 0x31;
const ID_SEC_POSTFIX: u8 = 0x32;
const ID_SRTPS_PREFIX: u8 = 0x33;
const ID_SRTPS_POSTFIX: u8 = 0x34;

fn frames(wire: &[u8]) -> Result<Vec<Frame>, String> {
  if wire.len() < 20 || &wire[0..4] != b"RTPS" {
    return Err("no RTPS header".into());
  }
  let mut v = vec![];
  let mut off = 20;
  while off < wire.len() {
    if off + 4 > wire.len() {
      return Err(format!("truncated submessage header at {off}"));
    }
    let (id, flags) = (wire[off], wire[off + 1]);
    let l = if flags & 1 == 1 { u16::from_le_bytes([wire[off + 2], wire[off + 3]]) } else { u16::from_be_bytes([wire[off + 2], wire[off + 3]]) } as usize;
    let body = off + 4;
    let end = if l == 0 && id != ID_PAD && id != ID_INFO_TS { wire.len() } else { body + l };
    if end > wire.len() {
      return Err(format!("submessage at {off} runs past the end"));
    }
    v.push(Frame { off, id, flags, body, end });
    off = end;
  }
  Ok(v)
}

/// Would the implementation's parser reach an INFO_REPLY (0x0f) submessage in these bytes? Its
/// locator-list reader allocates whatever 32-bit count it finds (a robustness matter outside this
/// property), and an allocation failure aborts the whole check process, so such alterations are
/// not injected.
fn reaches_info_reply(wire: &[u8]) -> bool {
  let mut off = 20;
  while off + 4 <= wire.len() {
    let (id, flags) = (wire[off], wire[off + 1]);
    if id == 0x0f {
      return true;
    }
    let l = if flags & 1 == 1 { u16::from_le_bytes([wire[off + 2], wire[off + 3]]) } else { u16::from_be_bytes([wire[off + 2], wire[off + 3]]) } as usize;
    let end = if l == 0 && id != ID_PAD && id != ID_INFO_TS { wire.len() } else { off + 4 + l };
    if end > wire.len() {
      return false;
    }
    off = end;
  }
  false
}

fn be32(b: &[u8], o: usize) -> Result<usize, String> {
  b.get(o..o + 4).map(|x| u32::from_be_bytes([x[0], x[1], x[2], x[3]]) as usize).ok_or_else(|| format!("no u32 at {o}"))
}

fn walk_header(m: &mut Map, b: &[u8], o: usize) -> Result<(), String> {
  if o + 20 > b.len() {
    return Err("CryptoHeader truncated".into());
  }
  if b[o..o + 3] != [0, 0, 0] || !(1..=4).contains(&b[o + 3]) {
    return Err(format!("transformation kind {:?} is not one of the four builtin kinds", &b[o..o + 4]));
  }
  m.kind = b[o + 3];
  m.spans.push((o, o + 4, Field::Kind));
  m.spans.push((o + 4, o + 8, Field::KeyId));
  m.spans.push((o + 8, o + 12, Field::SessionId));
  m.spans.push((o + 12, o + 20, Field::IvSuffix));
  Ok(())
}

/// footer occupying exactly [o, end)
fn walk_footer(m: &mut Map, b: &[u8], o: usize, end: usize) -> Result<(), String> {
  if o + 20 > end {
    return Err("CryptoFooter truncated".into());
  }
  m.spans.push((o, o + 16, Field::CommonMac));
  m.spans.push((o + 16, o + 20, Field::MacCount));
  let n = be32(b, o + 16)?;
  if o + 20 + 20 * n != end {
    return Err(format!("CryptoFooter: {n} receiver-specific MACs do not fill {} bytes", end - o - 20));
  }
  for i in 0..n {
    let e = o + 20 + 20 * i;
    m.spans.push((e, e + 4, Field::RsKeyId(i)));
    m.spans.push((e + 4, e + 20, Field::RsMac(i)));
    m.rs_entries.push(([b[e], b[e + 1], b[e + 2], b[e + 3]], e));
  }
  Ok(())
}

/// encoded payload occupying exactly b[base .. base+len]: CryptoHeader, CryptoContent | plaintext, CryptoFooter
fn walk_payload(m: &mut Map, b: &[u8], base: usize, len: usize) -> Result<(), String> {
  if len < 40 || base + len > b.len() {
    return Err("encoded payload shorter than CryptoHeader + CryptoFooter".into());
  }
  walk_header(m, b, base)?;
  let end = base + len;
  if m.kind == 2 || m.kind == 4 {
    let n = be32(b, base + 20)?;
    if base + 24 + n + 20 != end {
      return Err(format!("CryptoContent length {n} does not fit an encoded payload of {len} bytes"));
    }
    m.spans.push((base + 20, base + 24, Field::ContentLen));
    m.spans.push((base + 24, base + 24 + n, Field::Cipher));
    walk_footer(m, b, base + 24 + n, end)?;
  } else {
    m.spans.push((base + 20, end - 20, Field::SignedPlain));
    walk_footer(m, b, end - 20, end)?;
  }
  if !m.rs_entries.is_empty() {
    return Err("payload CryptoFooter carries receiver-specific MACs".into());
  }
  Ok(())
}

/// start of serializedPayload inside a DATA / DATAFRAG frame
fn payload_start(wire: &[u8], f: &Frame) -> Result<usize, String> {
  let le = f.flags & 1 == 1;
  let rd16 = |o: usize| -> Result<usize, String> {
    wire.get(o..o + 2).map(|x| if le { u16::from_le_bytes([x[0], x[1]]) } else { u16::from_be_bytes([x[0], x[1]]) } as usize).ok_or_else(|| "truncated".to_string())
  };
  let mut o = f.body + 4 + rd16(f.body + 2)?;
  if f.flags & 0x02 != 0 {
    loop {
      let pid = rd16(o)?;
      let l = rd16(o + 2)?;
      o += 4;
      if pid == 1 {
        break;
      }
      o += l;
      if o > f.end {
        return Err("inline QoS runs past the submessage".into());
      }
    }
  }
  if o > f.end {
    return Err("payload starts past the submessage".into());
  }
  Ok(o)
}

/// wire = RTPS message with one DATA / DATAFRAG carrying an encoded payload of `enc_len` bytes
fn map_framed_payload(wire: &[u8], enc_len: usize) -> Result<Map, String> {
  let fs = frames(wire)?;
  let f = fs.iter().find(|f| f.id == ID_DATA || f.id == ID_DATA_FRAG).ok_or("no DATA / DATAFRAG")?;
  let start = payload_start(wire, f)?;
  if start + enc_len > f.end {
    return Err("DATA shorter than the encoded payload".into());
  }
  let mut m = Map::default();
  walk_payload(&mut m, wire, start, enc_len)?;
  Ok(m)
}

/// wire = RTPS message with exactly one protected unit at the given level (prefix .. postfix)
fn map_secure(wire: &[u8], message_level: bool) -> Result<Map, String> {
  let fs = frames(wire)?;
  let (pre_id, post_id) = if message_level { (ID_SRTPS_PREFIX, ID_SRTPS_POSTFIX) } else { (ID_SEC_PREFIX, ID_SEC_POSTFIX) };
  let pi = fs.iter().position(|f| f.id == pre_id).ok_or("no secure prefix submessage")?;
  let qi = fs.iter().rposition(|f| f.id == post_id).ok_or("no secure postfix submessage")?;
  if qi <= pi + 1 {
    return Err("nothing between prefix and postfix".into());
  }
  if message_level && (pi != 0 || qi + 1 != fs.len()) {
    return Err("SRTPS prefix/postfix are not first/last".into());
  }
  let mut m = Map::default();
  let p = &fs[pi];
  if p.end - p.body != 20 {
    return Err("prefix body is not a 20-byte CryptoHeader".into());
  }
  walk_header(&mut m, wire, p.body)?;
  if m.kind == 2 || m.kind == 4 {
    if qi != pi + 2 || fs[pi + 1].id != ID_SEC_BODY {
      return Err("encrypting kind without exactly one SEC_BODY".into());
    }
    let b = &fs[pi + 1];
    let n = be32(wire, b.body)?;
    if b.body + 4 + n != b.end {
      return Err("SEC_BODY CryptoContent length does not fill the submessage".into());
    }
    m.spans.push((b.body, b.body + 4, Field::ContentLen));
    m.spans.push((b.body + 4, b.end, Field::Cipher));
  } else {
    m.spans.push((fs[pi + 1].off, fs[qi].off, Field::SignedPlain));
  }
  let q = &fs[qi];
  walk_footer(&mut m, wire, q.body, q.end)?;
  m.footer_frame = Some((q.off, q.body, q.end));
  Ok(m)
}

/// CDR (big-endian) KeyMaterial_AES_GCM_GMAC: returns (transformation kind, sender_key_id, receiver_specific_key_id)
fn keymat_ids(v: &[u8]) -> Result<(u8, [u8; 4], [u8; 4]), String> {
  let kind = *v.get(3).ok_or("short")?;
  let mut o = 4;
  let l = be32(v, o)?;
  o = (o + 4 + l + 3) & !3;
  let sid = v.get(o..o + 4).ok_or("short")?;
  o += 4;
  let l = be32(v, o)?;
  o = (o + 4 + l + 3) & !3;
  let rid = v.get(o..o + 4).ok_or("short")?;
  Ok((kind, [sid[0], sid[1], sid[2], sid[3]], [rid[0], rid[1], rid[2], rid[3]]))
}

/// rebuild the wire bytes with another list of receiver-specific MAC entries in the (last) postfix
fn with_footer_entries(wire: &[u8], m: &Map, entries: &[Vec<u8>]) -> Option<Vec<u8>> {
  let (off, body, end) = m.footer_frame?;
  let mut out = wire[..off].to_vec();
  let mut b = wire[body..body + 16].to_vec();
  b.extend_from_slice(&(entries.len() as u32).to_be_bytes());
  for e in entries {
    b.extend_from_slice(e);
  }
  out.push(wire[off]);
  out.push(wire[off + 1]);
  let l = b.len() as u16;
  if wire[off + 1] & 1 == 1 {
    out.extend_from_slice(&l.to_le_bytes());
  } else {
    out.extend_from_slice(&l.to_be_bytes());
  }
  out.extend(b);
  out.extend_from_slice(&wire[end..]);
  Some(out)
}

// ---------------------------------------------------------------------------------------------

#[derive(Clone, Copy, Debug, PartialEq, Eq)]
enum Leg {
  PayloadPlugin,
  FramedData,
  FramedDataFrag,
  SubmsgWriter,
  SubmsgReader,
  Message,
  Nested,
}
const LEGS: [Leg; 7] = [Leg::PayloadPlugin, Leg::FramedData, Leg::FramedDataFrag, Leg::SubmsgWriter, Leg::SubmsgReader, Leg::Message, Leg::Nested];

impl Leg {
  fn level(&self) -> &'static str {
    match self {
      Leg::PayloadPlugin | Leg::FramedData | Leg::FramedDataFrag => "payload",
      Leg::SubmsgWriter | Leg::SubmsgReader => "submessage",
      Leg::Message => "message",
      Leg::Nested => "nested",
    }
  }
  fn via(&self) -> &'static str {
    match self {
      Leg::PayloadPlugin => "plugin-only",
      Leg::FramedData => "via-DATA-framing",
      Leg::FramedDataFrag => "via-DATAFRAG-framing",
      Leg::SubmsgWriter => "writer-submessage",
      Leg::SubmsgReader => "reader-submessage",
      Leg::Message => "rtps-message",
      Leg::Nested => "payload+submessage+message",
    }
  }
}

fn cap_hex(b: &[u8]) -> Value {
  if b.len() <= 8192 {
    json!(hex(b))
  } else {
    json!({"len": b.len(), "first_4096": hex(&b[..4096]), "last_256": hex(&b[b.len() - 256..])})
  }
}

fn reason_class(r: &str) -> &'static str {
  if r.contains("KeysNotFound") {
    "KeysNotFound"
  } else if r.contains("ValidatingReceiverSpecificMACFailed") || r.contains("approved endpoint list") {
    "ReceiverSpecificMAC"
  } else if r.contains("ParticipantCryptoHandleNotFound") {
    "ParticipantCryptoHandleNotFound"
  } else if r.starts_with("parse") {
    "parse"
  } else if r.contains("Err:") {
    "SecurityError"
  } else {
    "receive-path"
  }
}

struct Case<'a> {
  bench: &'a CryptoBench,
  leg: Leg,
  /// what decode is given for receiver tests (encoded payload for the plugin leg, wire otherwise)
  input: Vec<u8>,
  /// what a correct decode returns
  expect: Vec<u8>,
  opts: DecodeOpts,
}

impl<'a> Case<'a> {
  fn decode(&self, rx: usize, bytes: &[u8]) -> Outcome {
    if self.leg == Leg::PayloadPlugin {
      self.bench.decode_payload(rx, bytes)
    } else {
      self.bench.decode(rx, bytes, self.opts)
    }
  }
}

fn expected_kind(encrypt: bool, key256: bool) -> u8 {
  match (encrypt, key256) {
    (false, false) => 1,
    (true, false) => 2,
    (false, true) => 3,
    (true, true) => 4,
  }
}

pub fn run_c16(args: &Args) -> i32 {
  let mut rep = Report::new(
    args,
    "case i: configuration = i mod 32 (key size x message/submessage/payload sign-or-encrypt x origin authentication), leg = (i div 32) mod 7 (payload plugin-only | payload via DATA framing | via DATAFRAG framing | writer submessage | reader submessage (ACKNACK) | whole RTPS message | payload+submessage+message nested), length = i div 224 while <= 70 (every length 0..70 for every configuration and leg; thorough tier: 0..400), random up to 64 KiB after that; fresh plugin instances (sender A, unrelated sender A2, receivers B, C, three receivers given tokens with one key altered under unchanged key ids, a third party without tokens, a third party holding A2's tokens) per case, keys and IVs drawn by the plugin itself; per case: round trip for B (and C), wrong-key decodes, with origin authentication the wrong-receiver variants (not addressed, own MAC entry removed, MAC entries swapped, list emptied), and single-byte alterations of the encoded form (every byte of forms <= 400 bytes, else every header/footer byte plus a random sample); distinct = hash of (configuration, leg, shape, length); non-trivial = B's round trip succeeded, so that a rejection means something",
  );
  rep.assume("keys, key ids and IVs come from the plugin's own random generator: a replay reproduces configuration, leg, shape, length and plaintext of a case, not its key material (the witness bytes and tokens are in the replay file)");
  rep.assume("tamper rule (i) covers key id, session id, IV suffix, ciphertext, the bytes under a GMAC, the common MAC and, with origin authentication, the decoding receiver's own receiver-specific MAC entry (key id and MAC); alterations of any other byte (transformation kind, length prefixes, MAC count, other receivers' MAC entries, submessage headers, RTPS header, framing padding) are judged by rule (ii) only: if decoding succeeds the output must be the original");
  rep.assume("a message without SRTPS_PREFIX / an entity submessage outside SEC_PREFIX..SEC_POSTFIX counts as rejected here; that such traffic is really refused where protection is required is C17's subject");
  rep.assume("interpreter submessages are never submessage-protected (as in SecurityPlugins::encode_datawriter_submessage) and not judged");
  rep.assume("submessages stay below 64 KiB (RTPS octetsToNextHeader is 16 bit); only the plugin-only payload leg goes up to 65536 bytes");
  rep.assume("wrong-key receiver with an altered master_receiver_specific_key is judged only where receiver-specific MACs are used (origin authentication, submessage and message level)");
  // quick: 200 rounds of 224 (configuration, leg) pairs; rounds 0..=70 are the lengths 0..=70
  let ncases = args.scale(44_800, 1_344_000);
  let exhaustive_upto: u64 = if args.thorough() { 400 } else { 70 };
  rep.extra.insert("exhaustive_part".into(), json!(format!("every (configuration, leg, length 0..={exhaustive_upto}) combination is visited once; message shapes, plaintext bytes, key material and the positions/values of alterations in long forms are sampled")));
  let seed = args.seed;
  let replay_case = crate::replay_index(args);
  let acc = par_cases(args.threads(), ncases, |i, acc| {
    if replay_case.map_or(false, |rc| rc != i) {
      return;
    }
    one_case(seed, i, exhaustive_upto, acc);
  });
  // a replay runs one case: the minimum-observation rule applies to whole runs only
  if replay_case.is_none() {
    for lvl in ["payload", "submessage", "message"] {
      for k in 1..=4 {
        rep.require(&format!("roundtrip_ok:{lvl}:kind{k}"), 200);
        rep.require(&format!("tamper_named_rejected:{lvl}:kind{k}"), 2000);
      }
    }
    for lvl in ["submessage", "message"] {
      rep.require(&format!("roundtrip_ok:{lvl}:origin-auth"), 500);
      rep.require(&format!("wrong_receiver_rejected:{lvl}"), 1000);
      rep.require(&format!("tamper_own_receiver_mac_rejected:{lvl}"), 1000);
    }
    rep.require("roundtrip_ok:nested", 500);
    rep.require("sender_path_data_msg_with_SecurityPlugins:via-DATA-framing", 1000);
    rep.require("sender_path_data_msg_with_SecurityPlugins:via-DATAFRAG-framing", 1000);
    rep.require("roundtrip_ok:payload:plugin-only", 1000);
    rep.require("wrong_key_rejected", 10_000);
    rep.require("tamper_other_evaluated", 10_000);
    for r in 0..4 {
      rep.require(&format!("framing_DATA_len_mod4_{r}"), 300);
      rep.require(&format!("framing_DATAFRAG_len_mod4_{r}"), 300);
      rep.require(&format!("plugin_len_mod4_{r}"), 300);
    }
    rep.require("lengths_0_to_70_cases", 71 * 224);
  }
  rep.finish(acc)
}

fn one_case(seed: u64, i: u64, exhaustive_upto: u64, acc: &mut Acc) {
  let mut rng = Rng::derive(seed, STREAM, i);
  let c = i % 32;
  let leg = LEGS[((i / 32) % 7) as usize];
  let round = i / 224;
  let cfg = Cfg {
    key256: c & 1 != 0,
    rtps_encrypt: c & 2 != 0,
    sub_encrypt: c & 4 != 0,
    payload_encrypt: c & 8 != 0,
    origin_auth: c & 16 != 0,
    sender_is_reader: leg == Leg::SubmsgReader,
  };
  let max_len: u64 = match leg {
    Leg::PayloadPlugin => 65536,
    Leg::FramedDataFrag => 65000,
    _ => 60000,
  };
  let len = if round <= exhaustive_upto {
    if round <= 70 {
      acc.count("lengths_0_to_70_cases", 1);
    }
    round as usize
  } else {
    (match rng.below(20) {
      0..=9 => 71 + rng.below(1430),
      10..=16 => 1500 + rng.below(7500),
      17 => max_len - rng.below(8),
      _ => 9000 + rng.below(max_len - 9000),
    }) as usize
  };
  acc.evaluations += 1;
  let tag = json!({"seed": seed, "stream": STREAM, "index": i});
  let cfg_json = json!({"key256": cfg.key256, "rtps_encrypt": cfg.rtps_encrypt, "submessage_encrypt": cfg.sub_encrypt, "payload_encrypt": cfg.payload_encrypt, "origin_authentication": cfg.origin_auth, "sender_is_reader": cfg.sender_is_reader});
  let bench = match CryptoBench::new(cfg, rng.next()) {
    Ok(b) => b,
    Err(e) => {
      acc.violate("C16/setup:key-factory-or-key-exchange-failed", json!({"err": e, "cfg": cfg_json}), json!({"case": tag, "cfg": cfg_json}));
      return;
    }
  };
  // ---- plaintext and request
  let mut plain = rng.bytes(len);
  if let Some(l) = plain.last_mut() {
    *l |= 1; // never ends in a zero byte: trailing padding in an output is recognisable
  }
  let with_c = rng.chance(1, 2);
  // the three K receivers are always addressed, so that with origin authentication they are not
  // rejected merely for lacking a receiver-specific MAC
  let mut receivers = vec![RX_B];
  if with_c {
    receivers.push(RX_C);
  }
  receivers.extend([RX_K_SENDER_KEY, RX_K_SALT, RX_K_RECEIVER_KEY]);
  let be = rng.chance(1, 3);
  let sn = 1 + rng.below(1 << 40) as i64;
  let hb = |rng: &mut Rng| SubSpec::Heartbeat { first: 1, last: 1 + rng.below(1000) as i64, count: rng.next() as i32, big_endian: rng.chance(1, 3), final_flag: rng.chance(1, 2) };
  let serialized_plain = {
    // whole SerializedPayload for unprotected-payload legs: encapsulation header + `len` bytes
    let mut v = vec![0u8, if be { 0 } else { 1 }, 0, 0];
    v.extend_from_slice(&plain);
    v
  };
  let mut shape = 0u64;
  let (req, opts, level_kind): (Option<EncodeReq>, DecodeOpts, u8) = match leg {
    Leg::PayloadPlugin => (None, DecodeOpts { message_level: false, submessage_level: false, payload_level: true }, expected_kind(cfg.payload_encrypt, cfg.key256)),
    Leg::FramedData => {
      // bit 0: INFO_TS before, bit 1: HEARTBEAT after, bit 2: payload encoded inside data_msg via SecurityPlugins
      shape = rng.below(8);
      if len < 4 {
        shape &= 3;
      }
      let mut subs = vec![];
      if shape & 1 != 0 {
        subs.push(SubSpec::InfoTs { ticks: rng.next(), big_endian: be });
      }
      subs.push(SubSpec::Data { serialized: plain.clone(), sn, big_endian: be, protect_payload: true, via_security_plugins: shape & 4 != 0 });
      if shape & 2 != 0 {
        subs.push(hb(&mut rng));
      }
      (
        Some(EncodeReq { subs, protect_submessages: false, protect_message: false, receivers: receivers.clone() }),
        DecodeOpts { message_level: false, submessage_level: false, payload_level: true },
        expected_kind(cfg.payload_encrypt, cfg.key256),
      )
    }
    Leg::FramedDataFrag => {
      // bit 0: INFO_TS before, bit 1: payload encoded inside data_frag_msg via SecurityPlugins
      shape = rng.below(4);
      if len < 4 {
        shape &= 1;
      }
      let mut subs = vec![];
      if shape & 1 != 0 {
        subs.push(SubSpec::InfoTs { ticks: rng.next(), big_endian: be });
      }
      subs.push(SubSpec::DataFrag { serialized: plain.clone(), sn, big_endian: be, protect_payload: true, via_security_plugins: shape & 2 != 0 });
      (
        Some(EncodeReq { subs, protect_submessages: false, protect_message: false, receivers: receivers.clone() }),
        DecodeOpts { message_level: false, submessage_level: false, payload_level: true },
        expected_kind(cfg.payload_encrypt, cfg.key256),
      )
    }
    Leg::SubmsgWriter => {
      shape = rng.below(6);
      let subs = match shape {
        0 => vec![SubSpec::Data { serialized: serialized_plain.clone(), sn, big_endian: be, protect_payload: false, via_security_plugins: false }],
        1 => vec![SubSpec::InfoTs { ticks: rng.next(), big_endian: be }, SubSpec::Data { serialized: serialized_plain.clone(), sn, big_endian: be, protect_payload: false, via_security_plugins: false }],
        2 => vec![SubSpec::DataFrag { serialized: serialized_plain.clone(), sn, big_endian: be, protect_payload: false, via_security_plugins: false }],
        3 => vec![hb(&mut rng)],
        4 => vec![SubSpec::Gap { before: 1 + len as i64, big_endian: be }],
        // two protected units in one message: round trip and receiver tests only
        _ => vec![SubSpec::Data { serialized: serialized_plain.clone(), sn, big_endian: be, protect_payload: false, via_security_plugins: false }, hb(&mut rng)],
      };
      (
        Some(EncodeReq { subs, protect_submessages: true, protect_message: false, receivers: receivers.clone() }),
        DecodeOpts { message_level: false, submessage_level: true, payload_level: false },
        expected_kind(cfg.sub_encrypt, cfg.key256),
      )
    }
    Leg::SubmsgReader => {
      let missing: Vec<u32> = (0..(len as u32 % 257)).filter(|_| rng.chance(1, 2)).collect();
      let subs = vec![SubSpec::AckNack { base: sn, missing, count: rng.next() as i32, big_endian: be }];
      (
        Some(EncodeReq { subs, protect_submessages: true, protect_message: false, receivers: receivers.clone() }),
        DecodeOpts { message_level: false, submessage_level: true, payload_level: false },
        expected_kind(cfg.sub_encrypt, cfg.key256),
      )
    }
    Leg::Message => {
      shape = rng.below(4);
      let subs = match shape {
        0 => vec![SubSpec::Data { serialized: serialized_plain.clone(), sn, big_endian: be, protect_payload: false, via_security_plugins: false }],
        1 => vec![SubSpec::InfoTs { ticks: rng.next(), big_endian: be }, SubSpec::Data { serialized: serialized_plain.clone(), sn, big_endian: be, protect_payload: false, via_security_plugins: false }, hb(&mut rng)],
        2 => vec![hb(&mut rng)],
        _ => vec![SubSpec::InfoTs { ticks: rng.next(), big_endian: be }, SubSpec::DataFrag { serialized: serialized_plain.clone(), sn, big_endian: be, protect_payload: false, via_security_plugins: false }],
      };
      (
        Some(EncodeReq { subs, protect_submessages: false, protect_message: true, receivers: receivers.clone() }),
        DecodeOpts { message_level: true, submessage_level: false, payload_level: false },
        expected_kind(cfg.rtps_encrypt, cfg.key256),
      )
    }
    Leg::Nested => {
      // bit 0: HEARTBEAT after, bit 1: payload encoded inside data_msg via SecurityPlugins
      shape = rng.below(4);
      if len < 4 {
        shape &= 1;
      }
      let mut subs = vec![SubSpec::InfoTs { ticks: rng.next(), big_endian: be }, SubSpec::Data { serialized: plain.clone(), sn, big_endian: be, protect_payload: true, via_security_plugins: shape & 2 != 0 }];
      if shape & 1 != 0 {
        subs.push(hb(&mut rng));
      }
      (
        Some(EncodeReq { subs, protect_submessages: true, protect_message: true, receivers: receivers.clone() }),
        DecodeOpts { message_level: true, submessage_level: true, payload_level: true },
        expected_kind(cfg.rtps_encrypt, cfg.key256),
      )
    }
  };
  // ---- encode
  let encoded: Encoded = match &req {
    None => match bench.encode_payload(&plain) {
      Ok(e) => Encoded { wire: e.clone(), plain_message: vec![], units: vec![], encoded_payloads: vec![e] },
      Err(e) => {
        acc.violate(format!("C16/encode:failed:{}:{}", leg.level(), leg.via()), json!({"err": e, "cfg": cfg_json, "len": len}), json!({"case": tag, "cfg": cfg_json, "len": len, "plain": cap_hex(&plain)}));
        return;
      }
    },
    Some(r) => match bench.encode(r) {
      Ok(e) => e,
      Err(e) if e.starts_with("generator:") => {
        acc.count("generator_rejected_case", 1);
        return;
      }
      Err(e) => {
        acc.violate(format!("C16/encode:failed:{}:{}", leg.level(), leg.via()), json!({"err": e, "cfg": cfg_json, "len": len}), json!({"case": tag, "cfg": cfg_json, "len": len, "plain": cap_hex(&plain)}));
        return;
      }
    },
  };
  let expect: Vec<u8> = match leg {
    Leg::PayloadPlugin | Leg::FramedData | Leg::FramedDataFrag | Leg::Nested => plain.clone(),
    Leg::SubmsgWriter | Leg::SubmsgReader => encoded.units.concat(),
    Leg::Message => encoded.plain_message.clone(),
  };
  // generator sanity: what the library serialised as "plain" really embeds the harness's bytes
  let embeds_payload = match leg {
    Leg::SubmsgWriter => shape <= 2 || shape == 5,
    Leg::Message => shape != 2,
    _ => false,
  };
  if embeds_payload && !expect.windows(serialized_plain.len()).any(|w| w == &serialized_plain[..]) {
    acc.inconclusive.push(format!("case {i}: the serialised plain submessage does not embed the generated payload"));
    return;
  }
  let case = Case { bench: &bench, leg, input: encoded.wire.clone(), expect, opts };
  let tokens_json = |rx: usize| {
    let (p, e) = bench.tokens(rx);
    json!({"participant": p.iter().map(|t| hex(t)).collect::<Vec<_>>(), "endpoint": e.iter().map(|t| hex(t)).collect::<Vec<_>>()})
  };
  let replay = |extra: Value| {
    json!({"case": tag, "cfg": cfg_json, "leg": format!("{leg:?}"), "shape": shape, "len": len, "receivers_addressed": receivers, "plain": cap_hex(&plain),
      "encoded": cap_hex(&case.input), "expected_output": cap_hex(&case.expect), "tokens_given_to_B": tokens_json(RX_B), "extra": extra})
  };
  if i < 2 {
    acc.sample(json!({"case": tag, "cfg": cfg_json, "leg": format!("{leg:?}"), "len": len, "encoded": cap_hex(&case.input)}), 2);
  }
  let real_sender_path = match leg {
    Leg::FramedData => shape & 4 != 0,
    Leg::FramedDataFrag | Leg::Nested => shape & 2 != 0,
    _ => false,
  };
  if real_sender_path {
    acc.count(&format!("sender_path_data_msg_with_SecurityPlugins:{}", leg.via()), 1);
  }
  match leg {
    Leg::FramedData => acc.count(&format!("framing_DATA_len_mod4_{}", len % 4), 1),
    Leg::FramedDataFrag => acc.count(&format!("framing_DATAFRAG_len_mod4_{}", len % 4), 1),
    Leg::PayloadPlugin => acc.count(&format!("plugin_len_mod4_{}", len % 4), 1),
    _ => {}
  }

  // ---- C16/roundtrip
  let mut rt_ok = true;
  for rx in receivers.iter().copied().filter(|r| *r == RX_B || *r == RX_C) {
    let out = case.decode(rx, &case.input);
    let who = if rx == RX_B { "B" } else { "C" };
    match &out {
      Outcome::Ok(p) if *p == case.expect => {}
      _ => {
        rt_ok = false;
        let (what, detail) = match &out {
          Outcome::Ok(p) => {
            let padded = p.len() > case.expect.len() && p.len() - case.expect.len() <= 3 && p[..case.expect.len()] == case.expect[..] && p[case.expect.len()..].iter().all(|x| *x == 0);
            (if padded { "output-has-trailing-padding" } else { "output-differs" }, json!({"decoded": cap_hex(p), "decoded_len": p.len(), "expected_len": case.expect.len()}))
          }
          Outcome::Rejected(r) => ("rejected", json!({"reason": r})),
        };
        let mod4 = if len % 4 != 0 { "len%4!=0" } else { "len%4==0" };
        let sig = match leg {
          Leg::PayloadPlugin => format!("C16/roundtrip:payload:{mod4}:plugin-only"),
          Leg::FramedData | Leg::FramedDataFrag => {
            if what == "output-has-trailing-padding" {
              format!("C16/roundtrip:payload:output-has-trailing-padding:{}", leg.via())
            } else {
              format!("C16/roundtrip:payload:{mod4}:{}", leg.via())
            }
          }
          Leg::Nested => match &out {
            // outer layers decoded, the DATA-framed payload did not: same thing as the framing leg
            Outcome::Rejected(r) if r.starts_with("payload:") => format!("C16/roundtrip:payload:{mod4}:via-DATA-framing"),
            Outcome::Ok(_) if what == "output-has-trailing-padding" => "C16/roundtrip:payload:output-has-trailing-padding:via-DATA-framing".to_string(),
            _ => format!("C16/roundtrip:nested:{what}"),
          },
          _ => format!("C16/roundtrip:{}:{}:{}", leg.level(), leg.via(), what),
        };
        acc.violate(sig, json!({"receiver": who, "what": what, "detail": detail, "kind": level_kind, "cfg": cfg_json, "len": len, "leg": leg.via(), "payload_encoded_inside_data_msg_via_SecurityPlugins": real_sender_path}), replay(json!({"receiver": who})));
      }
    }
  }
  if !rt_ok {
    acc.count(&format!("roundtrip_failed:{}:{}", leg.level(), leg.via()), 1);
    return;
  }
  acc.count(&format!("roundtrip_ok:{}:kind{}", leg.level(), level_kind), 1);
  acc.count(&format!("roundtrip_ok:{}:{}", leg.level(), leg.via()), 1);
  if leg == Leg::Nested {
    acc.count("roundtrip_ok:nested", 1);
  }
  if cfg.origin_auth && matches!(leg, Leg::SubmsgWriter | Leg::SubmsgReader | Leg::Message) {
    acc.count(&format!("roundtrip_ok:{}:origin-auth", leg.level()), 1);
  }
  acc.distinct.insert(fnv64(format!("{c}/{leg:?}/{shape}/{len}/{with_c}").as_bytes()));

  // ---- the harness's own map of the encoded form
  let single_unit = !(leg == Leg::SubmsgWriter && shape == 5);
  let map: Option<Map> = match leg {
    Leg::PayloadPlugin => {
      let mut m = Map::default();
      Some(walk_payload(&mut m, &case.input, 0, case.input.len()).map(|_| m))
    }
    Leg::FramedData | Leg::FramedDataFrag => Some(map_framed_payload(&case.input, encoded.encoded_payloads.first().map_or(0, |e| e.len()))),
    Leg::SubmsgWriter | Leg::SubmsgReader if single_unit => Some(map_secure(&case.input, false)),
    Leg::Message | Leg::Nested => Some(map_secure(&case.input, true)),
    _ => None,
  }
  .and_then(|r| match r {
    Ok(m) => Some(m),
    Err(e) => {
      acc.inconclusive.push(format!("case {i}: the harness's walker cannot follow the encoded form ({}): {e}", leg.via()));
      None
    }
  });
  if let Some(m) = &map {
    if m.kind != level_kind {
      acc.inconclusive.push(format!("case {i}: configured transformation kind {level_kind} but the CryptoHeader carries {}", m.kind));
    }
    acc.count(&format!("walked:{}:kind{}", leg.level(), m.kind), 1);
  }

  // ---- C16/wrong-key
  {
    let mut roles: Vec<(usize, &str)> = vec![(RX_K_SENDER_KEY, "altered-master-sender-key"), (RX_K_SALT, "altered-master-salt"), (RX_T_NO_TOKENS, "third-party-without-tokens"), (RX_T_OTHER_SENDER, "keys-of-another-registration")];
    let rs_used = cfg.origin_auth && matches!(leg, Leg::SubmsgWriter | Leg::SubmsgReader | Leg::Message | Leg::Nested);
    if rs_used && bench.twist_applied(RX_K_RECEIVER_KEY) {
      roles.push((RX_K_RECEIVER_KEY, "altered-master-receiver-specific-key"));
    }
    for (rx, name) in roles {
      match case.decode(rx, &case.input) {
        Outcome::Rejected(r) => {
          acc.count("wrong_key_rejected", 1);
          acc.count(&format!("wrong_key_rejected:{name}:{}", reason_class(&r)), 1);
        }
        Outcome::Ok(p) => {
          acc.violate(
            format!("C16/wrong-key:accepted:{}:{name}", leg.level()),
            json!({"role": name, "output_equals_plaintext": p == case.expect, "cfg": cfg_json, "leg": leg.via(), "len": len}),
            replay(json!({"role": name, "tokens_given_to_this_receiver": tokens_json(rx), "decoded": cap_hex(&p)})),
          );
        }
      }
    }
  }

  // ---- C16/wrong-receiver (origin authentication)
  let own_entry = |rx: usize, m: &Map| -> Option<usize> {
    let (tp, te) = bench.tokens(rx);
    let t = if matches!(leg, Leg::Message | Leg::Nested) { tp.first()? } else { te.first()? };
    let (_, _, rid) = keymat_ids(t).ok()?;
    m.rs_entries.iter().position(|(k, _)| *k == rid)
  };
  if cfg.origin_auth && matches!(leg, Leg::SubmsgWriter | Leg::SubmsgReader | Leg::Message | Leg::Nested) {
    let lvl = if leg == Leg::Nested { "message" } else { leg.level() };
    let judge = |variant: &str, rx: usize, bytes: &[u8], acc: &mut Acc| match case.decode(rx, bytes) {
      Outcome::Rejected(r) => {
        acc.count(&format!("wrong_receiver_rejected:{lvl}"), 1);
        acc.count(&format!("wrong_receiver_rejected:{variant}:{}", reason_class(&r)), 1);
      }
      Outcome::Ok(p) => {
        acc.violate(
          format!("C16/wrong-receiver:accepted:{lvl}:{variant}"),
          json!({"variant": variant, "receiver": if rx == RX_B { "B" } else { "C" }, "output_equals_plaintext": p == case.expect, "cfg": cfg_json, "leg": leg.via()}),
          replay(json!({"variant": variant, "altered_encoded": cap_hex(bytes), "tokens_given_to_C": tokens_json(RX_C)})),
        );
      }
    };
    if !with_c {
      // C holds the common keys (it is matched with A) but the sender made no MAC for it
      judge("not-addressed", RX_C, &case.input, acc);
    }
    if let Some(m) = &map {
      if single_unit {
        let wire = &case.input;
        let entry = |k: usize| wire[m.rs_entries[k].1..m.rs_entries[k].1 + 20].to_vec();
        let ib = own_entry(RX_B, m);
        let ic = own_entry(RX_C, m);
        if ib.is_none() || (with_c && ic.is_none()) || m.rs_entries.len() != receivers.len() {
          acc.inconclusive.push(format!("case {i}: cannot find the receivers' MAC entries by the key ids of their tokens ({} entries)", m.rs_entries.len()));
        } else {
          let ib = ib.unwrap();
          // own entry removed
          let rest: Vec<Vec<u8>> = (0..m.rs_entries.len()).filter(|k| *k != ib).map(entry).collect();
          if let Some(w) = with_footer_entries(wire, m, &rest) {
            judge("own-entry-removed", RX_B, &w, acc);
          }
          // list emptied
          if let Some(w) = with_footer_entries(wire, m, &[]) {
            judge("list-emptied", RX_B, &w, acc);
            if with_c {
              judge("list-emptied", RX_C, &w, acc);
            }
          }
          if let (true, Some(ic)) = (with_c, ic) {
            // MACs swapped under unchanged key ids: each receiver finds an entry with its key id, carrying the other's MAC
            let (mut eb, mut ec) = (entry(ib), entry(ic));
            let (mb, mc) = (eb[4..].to_vec(), ec[4..].to_vec());
            eb[4..].copy_from_slice(&mc);
            ec[4..].copy_from_slice(&mb);
            let list: Vec<Vec<u8>> = (0..m.rs_entries.len()).map(|k| if k == ib { eb.clone() } else if k == ic { ec.clone() } else { entry(k) }).collect();
            if let Some(w) = with_footer_entries(wire, m, &list) {
              judge("entry-of-another-receiver", RX_B, &w, acc);
              judge("entry-of-another-receiver", RX_C, &w, acc);
            }
            // C's entry removed: C must reject
            let rest: Vec<Vec<u8>> = (0..m.rs_entries.len()).filter(|k| *k != ic).map(entry).collect();
            if let Some(w) = with_footer_entries(wire, m, &rest) {
              judge("own-entry-removed", RX_C, &w, acc);
            }
          }
        }
      }
    }
  }

  // ---- C16/tamper
  let Some(m) = map else { return };
  let n = case.input.len();
  let own = if cfg.origin_auth && matches!(leg, Leg::SubmsgWriter | Leg::SubmsgReader | Leg::Message | Leg::Nested) { own_entry(RX_B, &m) } else { None };
  let is_named = |f: Field| match f {
    Field::KeyId | Field::SessionId | Field::IvSuffix | Field::Cipher | Field::SignedPlain | Field::CommonMac => true,
    Field::RsKeyId(k) | Field::RsMac(k) => Some(k) == own,
    _ => false,
  };
  let mut positions: Vec<usize> = if n <= 400 {
    (0..n).collect()
  } else {
    let mut v = m.positions_of(|f| !matches!(f, Field::Cipher | Field::SignedPlain | Field::Other));
    let content = m.positions_of(|f| matches!(f, Field::Cipher | Field::SignedPlain));
    if let (Some(a), Some(b)) = (content.first(), content.last()) {
      v.push(*a);
      v.push(*b);
      for _ in 0..40 {
        v.push(*rng.pick(&content));
      }
    }
    for _ in 0..40 {
      v.push(rng.below(n as u64) as usize);
    }
    // the tail (framing padding, footer end) and the head (RTPS header, first submessage header)
    v.extend(n.saturating_sub(8)..n);
    v.extend(0..28.min(n));
    v
  };
  positions.sort_unstable();
  positions.dedup();
  let lvl = if leg == Leg::Nested { "message" } else { leg.level() };
  let mut buf = case.input.clone();
  for pos in positions {
    let f = m.classify(pos);
    let mask = if rng.chance(1, 2) { 1u8 << rng.below(8) } else { 1 + rng.below(255) as u8 };
    buf[pos] ^= mask;
    if leg != Leg::PayloadPlugin && reaches_info_reply(&buf) {
      buf[pos] ^= mask;
      acc.count("tamper_not_injected:would-reach-INFO_REPLY-parser", 1);
      continue;
    }
    let out = case.decode(RX_B, &buf);
    buf[pos] ^= mask;
    if is_named(f) {
      match out {
        Outcome::Rejected(r) => {
          acc.count(&format!("tamper_named_rejected:{lvl}:kind{}", m.kind), 1);
          acc.count(&format!("tamper_named_rejected:{}:{}", f.name(), reason_class(&r)), 1);
          if matches!(f, Field::RsKeyId(_) | Field::RsMac(_)) {
            acc.count(&format!("tamper_own_receiver_mac_rejected:{lvl}"), 1);
          }
        }
        Outcome::Ok(p) => {
          acc.violate(
            format!("C16/tamper:named-field-accepted:{lvl}:{}", f.name()),
            json!({"field": f.name(), "offset": pos, "xor": mask, "output_equals_plaintext": p == case.expect, "cfg": cfg_json, "leg": leg.via(), "kind": m.kind, "len": len}),
            replay(json!({"offset": pos, "xor": mask, "field": f.name(), "decoded": cap_hex(&p)})),
          );
        }
      }
    } else {
      acc.count("tamper_other_evaluated", 1);
      match out {
        Outcome::Rejected(_) => acc.count(&format!("tamper_other_rejected:{}", f.name()), 1),
        Outcome::Ok(p) if p == case.expect => acc.count(&format!("tamper_other_accepted_output_unchanged:{}", f.name()), 1),
        Outcome::Ok(p) => {
          acc.violate(
            format!("C16/tamper:altered-byte-changes-output:{lvl}:{}", f.name()),
            json!({"field": f.name(), "offset": pos, "xor": mask, "cfg": cfg_json, "leg": leg.via(), "kind": m.kind, "len": len, "decoded_len": p.len(), "expected_len": case.expect.len()}),
            replay(json!({"offset": pos, "xor": mask, "field": f.name(), "decoded": cap_hex(&p)})),
          );
        }
      }
    }
  }

  // ---- compound alterations around the transformation kind: the kind in the CryptoHeader rewritten to every OTHER
  // valid value (0 = NONE, 1-4 the builtin kinds), alone and together with one altered byte of the protected
  // content (an attacker who downgrades the kind does it to get altered content through). Judged by rule (ii):
  // if decoding succeeds the output must be the original.
  let kind_pos: Vec<usize> = m.positions_of(|f| matches!(f, Field::Kind));
  let content: Vec<usize> = m.positions_of(|f| matches!(f, Field::Cipher | Field::SignedPlain));
  if let Some(&kp) = kind_pos.last() {
    for v in 0u8..=4 {
      if v == m.kind {
        continue;
      }
      for with_content in [false, true] {
        let mut b2 = case.input.clone();
        b2[kp] = v;
        let mut cpos = None;
        if with_content {
          match content.len() {
            0 => continue,
            k => {
              let c = content[rng.below(k as u64) as usize];
              b2[c] ^= 1 + rng.below(255) as u8;
              cpos = Some(c);
            }
          }
        }
        if leg != Leg::PayloadPlugin && reaches_info_reply(&b2) {
          continue;
        }
        acc.count(&format!("tamper_kind_rewritten:{lvl}:to-kind{v}{}", if with_content { ":with-altered-content" } else { "" }), 1);
        match case.decode(RX_B, &b2) {
          Outcome::Rejected(_) => acc.count("tamper_kind_rewritten_rejected", 1),
          Outcome::Ok(p) if p == case.expect => acc.count("tamper_kind_rewritten_accepted_output_unchanged", 1),
          Outcome::Ok(p) => {
            acc.violate(
              format!("C16/tamper:kind-rewritten-and-altered-output-accepted:{lvl}:to-kind{v}{}", if with_content { ":with-altered-content" } else { "" }),
              json!({"kind_offset": kp, "original_kind": m.kind, "new_kind": v, "altered_content_offset": cpos, "cfg": cfg_json, "leg": leg.via(), "len": len, "decoded_len": p.len(), "expected_len": case.expect.len()}),
              replay(json!({"kind_offset": kp, "new_kind": v, "content_offset": cpos, "decoded": cap_hex(&p)})),
            );
          }
        }
      }
    }
  }
}