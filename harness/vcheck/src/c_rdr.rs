//! C01 / C03 / C05(reader leg) front end over the rdr engine.
use rustdds::verif::net;
use serde_json::json;

use crate::{
  ctx::{par_cases, Args, Report},
  prng::Rng,
  rdr::{self, GenParams, Prop},
};

pub fn run(args: &Args) -> i32 {
  net::set_policy_drop_all();
  let (prop, stream) = match args.id.as_str() {
    "C01" => (Prop::C01, 0x0101u64),
    "C03" => (Prop::C03, 0x0303u64),
    _ => (Prop::C05, 0x0505u64),
  };
  let rule = match prop {
    Prop::C01 => "random DATA/DATAFRAG/GAP/HEARTBEAT histories from 1-3 writers with drop/dup/reorder and interleaved read/take ops on 4 reader flavours; distinct = hash of the post-fault arrival sequence (kind,writer,sn,frag); non-trivial = history had >=1 loss-or-dup and >=1 reorder and handed over >=1 sample. Second leg (counters two_readers:*): two reliable DataReaders of one participant on one topic (one TopicCache, one MessageReceiver) matched with one writer, first transmissions to both or lost, repairs and GAPs addressed to one reader (or, in a third of the histories, everything addressed to both), second reader optionally joining late as TransientLocal or Volatile, fault-free suffix; each reader on its own must obey order / once / no-holes / complete",
    Prop::C03 => "same histories; every captured ACKNACK/NACKFRAG is decoded by an independent walker and judged against a set-logic shadow of what was injected; distinct = arrival-sequence hash; non-trivial = >=1 ACKNACK observed after >=1 fault",
    Prop::C05 => "reader leg: same histories, fragments from the harness's own fragmenter (1-3 per submessage, fragment sizes 8-64, permuted/duplicated/interleaved across samples and writers); writer+reader leg: real Writer fragmenting (sizes 64/100/256/1024) over a faulty link into the real Reader; distinct = arrival-sequence hash (reader leg) / event+fault hash (link leg); non-trivial = >=1 fragmented sample delivered after reordering, duplication or loss",
  };
  let mut rep = Report::new(args, rule);
  rep.assume("reader QoS Reliable, KeepAll, max_samples 1e6 so resource limits are never exceeded (premise of C01)");
  rep.assume("each writer uses one constant fragment size (FragmentAssembler fixes it per writer)");
  rep.assume("Reader driven synchronously through MessageReceiver::handle_received_packet; the mio event loop is bypassed");
  let ncases = args.scale(60_000, 3_000_000);
  let gp = GenParams {
    max_samples_per_writer: if args.thorough() { 40 } else { 14 },
    max_writers: 3,
    wide_windows: true,
  };
  let big_every = if args.thorough() { 40 } else { 200 };
  let seed = args.seed;
  let replay_doc: Option<serde_json::Value> = args.replay.as_ref().and_then(|p| std::fs::read_to_string(p).ok()).and_then(|s| serde_json::from_str(&s).ok());
  let replay_case: Option<u64> = replay_doc.as_ref().and_then(|v| v["replay"]["case"]["index"].as_u64());
  let replay_leg: Option<String> = replay_doc.as_ref().and_then(|v| v["replay"]["case"]["leg"].as_str().map(|s| s.to_string()));
  let acc = par_cases(args.threads(), ncases, |i, acc| {
    if let Some(rc) = replay_case {
      if i != rc || replay_leg.is_some() {
        return;
      }
    }
    let mut rng = Rng::derive(seed, stream, i);
    // every so often a long history with SN windows wider than 256
    let gp_big = GenParams { max_samples_per_writer: 600, max_writers: 2, wide_windows: true };
    let case = if i % big_every == big_every - 1 { rdr::gen_case(&mut rng, &gp_big) } else { rdr::gen_case(&mut rng, &gp) };
    let pad = crate::wire::choose_pad_garbage(seed, stream, i);
    if pad != 0 {
      acc.count("cases_with_random_bits_in_number_set_padding", 1);
    }
    let tag = json!({"seed": seed, "stream": stream, "index": i, "number_set_padding_bits": pad});
    let out = rdr::run_case(&case, prop, acc, &tag);
    crate::wire::set_pad_garbage(0);
    acc.evaluations += 1;
    acc.count("samples_handed_over", out.handed);
    acc.count("acknacks_observed", out.acknacks);
    acc.count("nackfrags_observed", out.nackfrags);
    acc.count("writer_announced_again_mid_history", out.reannouncements);
    acc.count("fragmented_samples_delivered", out.frag_samples_delivered);
    acc.count("faults_dropped", case.faults.0 as u64);
    acc.count("faults_duplicated", case.faults.1 as u64);
    acc.count("faults_reorder_windows", case.faults.2 as u64);
    let faulty = case.faults.0 + case.faults.1 > 0 && case.faults.2 > 0;
    let nontrivial = match prop {
      Prop::C01 => faulty && out.handed > 0,
      Prop::C03 => case.faults.0 + case.faults.1 + case.faults.2 > 0 && out.acknacks > 0,
      Prop::C05 => case.faults.1 + case.faults.2 > 0 && out.frag_samples_delivered > 0,
    };
    if nontrivial {
      acc.distinct.insert(out.arrival_sig);
    }
    if i < 2 {
      acc.sample(json!({"case": tag, "history": rdr::case_json(&case), "handed_over": out.handed, "acknacks": out.acknacks}), 2);
    }
  });
  let mut acc = acc;
  if prop == Prop::C01 {
    // leg "two local readers": two reliable DataReaders of one participant on one topic (shared TopicCache),
    // independent loss / repair / GAP per reader; each reader on its own must obey C01 (see sib.rs)
    let n = args.scale(20_000, 1_000_000);
    let sib_acc = par_cases(args.threads(), n, |i, acc| {
      // a replay file of this leg names it; the main leg's replays do not run here and vice versa
      if replay_case.map_or(false, |rc| rc != i || replay_leg.as_deref() != Some("two-local-readers")) {
        return;
      }
      let mut rng = Rng::derive(seed, 0x0111, i);
      let case = crate::sib::gen_case(&mut rng);
      let tag = json!({"seed": seed, "stream": 0x0111, "index": i, "leg": "two-local-readers"});
      let out = crate::sib::run_case(&case, acc, &tag);
      acc.evaluations += 1;
      acc.count("two_readers:samples_handed_over", out.handed);
      acc.count("two_readers:histories", 1);
      if case.second_joins_at > 0 {
        acc.count("two_readers:histories_with_a_late_second_reader", 1);
      }
      if case.second_small_limits {
        acc.count("two_readers:long_histories_next_to_a_reader_with_max_samples_16", 1);
      }
      if out.nontrivial {
        acc.distinct.insert(out.sig ^ 0x5151);
      }
      if i < 1 {
        acc.sample(json!({"case": tag, "history": crate::sib::case_json(&case)}), 3);
      }
    });
    acc.merge(sib_acc);
    rep.require("two_readers:samples_handed_over", 1000);
  }
  if prop == Prop::C05 {
    // writer+reader leg: the real Writer fragments, a faulty link permutes/duplicates/drops,
    // the real Reader reassembles; DATAFRAGs are checked byte for byte against the
    // independent fragmenter.
    let link_acc = crate::c_link::link_cases(args, crate::link::LProp::C05, args.scale(15_000, 600_000), 0x0515);
    acc.merge(link_acc);
    rep.require("link_fragmented_samples_delivered", 500);
  }
  match prop {
    Prop::C01 => rep.require("samples_handed_over", 1000),
    Prop::C03 => rep.require("acknacks_observed", 500),
    Prop::C05 => rep.require("fragmented_samples_delivered", 200),
  }
  rep.finish(acc)
}
