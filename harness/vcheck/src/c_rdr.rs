//! C01 / C03 / C05(reader leg) front end over the rdr engine.
use rustdds::verif::net;
use serde_json::json;

use crate::{
  ctx::{par_cases, Args, Report},
  prng::Rng,
  rdr::{self, GenParams, Prop},
};

pub fn run(args: &Args) -> i32 {
  net::set_policy_drop_all();
  let (prop, stream) = match args.id.as_str() {
    "C01" => (Prop::C01, 0x0101u64),
    "C03" => (Prop::C03, 0x0303u64),
    _ => (Prop::C05, 0x0505u64),
  };
  let rule = match prop {
    Prop::C01 => "random DATA/DATAFRAG/GAP/HEARTBEAT histories from 1-3 writers with drop/dup/reorder and interleaved read/take ops on 4 reader flavours; distinct = hash of the post-fault arrival sequence (kind,writer,sn,frag); non-trivial = history had >=1 loss-or-dup and >=1 reorder and handed over >=1 sample. Second leg (counters two_readers:*): two reliable DataReaders of one participant on one topic (one TopicCache, one MessageReceiver) matched with one writer, first transmissions to both or lost, repairs and GAPs addressed to one reader (or, in a third of the histories, everything addressed to both), second reader optionally joining late as TransientLocal or Volatile, fault-free suffix; each reader on its own must obey order / once / no-holes / complete",
    Prop::C03 => "same histories; every captured ACKNACK/NACKFRAG is decoded by an independent walker and judged against a set-logic shadow of what was injected; distinct = arrival-sequence hash; non-trivial = >=1 ACKNACK observed after >=1 fault",
    Prop::C05 => "reader leg: same histories, fragments from the harness's own fragmenter (1-3 per submessage, fragment sizes 8-64, permuted/duplicated/interleaved across samples and writers); writer+reader leg: real Writer fragmenting (sizes 64/100/256/1024) over a faulty link into the real Reader; writer leg 'raw-change-fragmenting': values and DISPOSE-by-key changes with serialized sizes around 1-4 fragment sizes handed to the real Writer, its DATAFRAGs reassembled by the harness from their own fields and compared with the bytes handed in; distinct = arrival-sequence hash (reader leg) / event+fault hash (link leg); non-trivial = >=1 fragmented sample delivered after reordering, duplication or loss",
  };
  let mut rep = Report::new(args, rule);
  rep.assume("reader QoS Reliable, KeepAll, max_samples 1e6 so resource limits are never exceeded (premise of C01)");
  rep.assume("each writer uses one constant fragment size (FragmentAssembler fixes it per writer)");
  rep.assume("Reader driven synchronously through MessageReceiver::handle_received_packet; the mio event loop is bypassed");
  let ncases = args.scale(60_000, 3_000_000);
  let gp = GenParams {
    max_samples_per_writer: if args.thorough() { 40 } else { 14 },
    max_writers: 3,
    wide_windows: true,
  };
  let big_every = if args.thorough() { 40 } else { 200 };
  let seed = args.seed;
  let replay_doc: Option<serde_json::Value> = args.replay.as_ref().and_then(|p| std::fs::read_to_string(p).ok()).and_then(|s| serde_json::from_str(&s).ok());
  let replay_case: Option<u64> = replay_doc.as_ref().and_then(|v| v["replay"]["case"]["index"].as_u64());
  let replay_leg: Option<String> = replay_doc.as_ref().and_then(|v| v["replay"]["case"]["leg"].as_str().map(|s| s.to_string()));
  let acc = par_cases(args.threads(), ncases, |i, acc| {
    if let Some(rc) = replay_case {
      if i != rc || replay_leg.is_some() {
        return;
      }
    }
    let mut rng = Rng::derive(seed, stream, i);
    // every so often a long history with SN windows wider than 256
    let gp_big = GenParams { max_samples_per_writer: 600, max_writers: 2, wide_windows: true };
    let case = if i % big_every == big_every - 1 { rdr::gen_case(&mut rng, &gp_big) } else { rdr::gen_case(&mut rng, &gp) };
    let pad = crate::wire::choose_pad_garbage(seed, stream, i);
    if pad != 0 {
      acc.count("cases_with_random_bits_in_number_set_padding", 1);
    }
    let tag = json!({"seed": seed, "stream": stream, "index": i, "number_set_padding_bits": pad});
    let out = rdr::run_case(&case, prop, acc, &tag);
    crate::wire::set_pad_garbage(0);
    acc.evaluations += 1;
    acc.count("samples_handed_over", out.handed);
    acc.count("acknacks_observed", out.acknacks);
    acc.count("nackfrags_observed", out.nackfrags);
    acc.count("writer_announced_again_mid_history", out.reannouncements);
    acc.count("fragmented_samples_delivered", out.frag_samples_delivered);
    acc.count("faults_dropped", case.faults.0 as u64);
    acc.count("faults_duplicated", case.faults.1 as u64);
    acc.count("faults_reorder_windows", case.faults.2 as u64);
    let faulty = case.faults.0 + case.faults.1 > 0 && case.faults.2 > 0;
    let nontrivial = match prop {
      Prop::C01 => faulty && out.handed > 0,
      Prop::C03 => case.faults.0 + case.faults.1 + case.faults.2 > 0 && out.acknacks > 0,
      Prop::C05 => case.faults.1 + case.faults.2 > 0 && out.frag_samples_delivered > 0,
    };
    if nontrivial {
      acc.distinct.insert(out.arrival_sig);
    }
    if i < 2 {
      acc.sample(json!({"case": tag, "history": rdr::case_json(&case), "handed_over": out.handed, "acknacks": out.acknacks}), 2);
    }
  });
  let mut acc = acc;
  if prop == Prop::C01 {
    // leg "two local readers": two reliable DataReaders of one participant on one topic (shared TopicCache),
    // independent loss / repair / GAP per reader; each reader on its own must obey C01 (see sib.rs)
    let n = args.scale(20_000, 1_000_000);
    let sib_acc = par_cases(args.threads(), n, |i, acc| {
      // a replay file of this leg names it; the main leg's replays do not run here and vice versa
      if replay_case.map_or(false, |rc| rc != i || replay_leg.as_deref() != Some("two-local-readers")) {
        return;
      }
      let mut rng = Rng::derive(seed, 0x0111, i);
      let case = crate::sib::gen_case(&mut rng);
      let tag = json!({"seed": seed, "stream": 0x0111, "index": i, "leg": "two-local-readers"});
      let out = crate::sib::run_case(&case, acc, &tag);
      acc.evaluations += 1;
      acc.count("two_readers:samples_handed_over", out.handed);
      acc.count("two_readers:histories", 1);
      if case.second_joins_at > 0 {
        acc.count("two_readers:histories_with_a_late_second_reader", 1);
      }
      if case.second_small_limits {
        acc.count("two_readers:long_histories_next_to_a_reader_with_max_samples_16", 1);
      }
      if out.nontrivial {
        acc.distinct.insert(out.sig ^ 0x5151);
      }
      if i < 1 {
        acc.sample(json!({"case": tag, "history": crate::sib::case_json(&case)}), 3);
      }
    });
    acc.merge(sib_acc);
    rep.require("two_readers:samples_handed_over", 1000);
  }
  if prop == Prop::C05 {
    // writer+reader leg: the real Writer fragments, a faulty link permutes/duplicates/drops,
    // the real Reader reassembles; DATAFRAGs are checked byte for byte against the
    // independent fragmenter.
    let link_acc = crate::c_link::link_cases(args, crate::link::LProp::C05, args.scale(15_000, 600_000), 0x0515);
    acc.merge(link_acc);
    rep.require("link_fragmented_samples_delivered", 500);
    // writer leg for changes the VSample DataWriter cannot make: a value or a DISPOSE carrying its serialized key,
    // of any size around the fragment limit, handed to the real Writer; what it sends is reassembled by the
    // harness from the DATAFRAG fields alone and must be the bytes that were handed in
    let n = args.scale(6000, 300_000);
    let raw_acc = par_cases(args.threads(), n, |i, acc| {
      if replay_case.map_or(false, |rc| rc != i || replay_leg.as_deref() != Some("raw-change-fragmenting")) {
        return;
      }
      use rustdds::verif::wbench::{WbCfg, WriterBench};
      let mut rng = Rng::derive(seed, 0x0525, i);
      let frag_size = *rng.pick(&[64u16, 100, 256, 1024]);
      let mut wb = WriterBench::new(WbCfg { reliable: true, history: 0, transient_local: false, frag_size: frag_size as usize, writer_key: [0, 0, 0x55] });
      wb.match_reader(crate::wtr::reader_guid(0), true, "127.0.0.1:33551".parse().unwrap());
      let nchanges = 1 + rng.below(3) as i64;
      for sn in 1..=nchanges {
        let dispose = rng.chance(1, 2);
        let k = 1 + rng.below(4);
        let len = match rng.below(4) {
          0 => (k * frag_size as u64) as usize,            // body = whole fragments (sample = that + 4)
          1 => (k * frag_size as u64 - 4) as usize,        // sample = whole fragments
          2 => (k * frag_size as u64 - 4 + 1 + rng.below(7)) as usize,
          _ => frag_size as usize + rng.below(4 * frag_size as u64) as usize,
        };
        let body: Vec<u8> = (0..len).map(|j| (j as u8) ^ (sn as u8).wrapping_mul(37) ^ 0x5a).collect();
        let sent = wb.write_raw(dispose, body.clone(), sn);
        let tag = json!({"seed": seed, "stream": 0x0525, "index": i, "leg": "raw-change-fragmenting"});
        let replay = || json!({"case": tag, "fragment_size": frag_size, "change": if dispose { "dispose-by-key" } else { "value" }, "serialized_length_without_header": len, "sn": sn});
        let what = if dispose { "dispose-by-key" } else { "value" };
        let mut expect = vec![0u8, 1, 0, 0];
        expect.extend_from_slice(&body);
        acc.evaluations += 1;
        acc.count(&format!("raw_changes_written_{}", what.replace('-', "_")), 1);
        let mut frags: std::collections::BTreeMap<u32, Vec<u8>> = std::collections::BTreeMap::new();
        let mut sizes = std::collections::BTreeSet::new();
        let mut whole: Option<Vec<u8>> = None;
        for dg in &sent {
          match crate::wire::parse(&dg.bytes) {
            Err(e) => {
              acc.violate(format!("C05/writer:sent-datagram-does-not-parse:{what}"), json!({"err": e, "bytes": crate::ctx::hex(&dg.bytes[..dg.bytes.len().min(64)])}), replay());
            }
            Ok(m) => {
              for sub in m.subs {
                match sub {
                  crate::wire::Sub::DataFrag { sn: s, frag_start, frags_in_submsg, frag_size: fs, sample_size, bytes, .. } if s == sn => {
                    sizes.insert((fs, sample_size));
                    for f in 0..frags_in_submsg as usize {
                      let a = f * fs as usize;
                      let b = ((f + 1) * fs as usize).min(bytes.len());
                      if a < bytes.len() {
                        frags.insert(frag_start + f as u32, bytes[a..b].to_vec());
                      }
                    }
                  }
                  crate::wire::Sub::Data { sn: s, payload, .. } if s == sn => whole = Some(payload),
                  _ => {}
                }
              }
            }
          }
        }
        if expect.len() <= frag_size as usize {
          // fits into one DATA (RTPS pads to 4 bytes)
          match whole {
            Some(p) if p.len() >= expect.len() && p[..expect.len()] == expect[..] && p.len() < expect.len() + 4 => acc.count("raw_changes_sent_whole_and_equal", 1),
            other => acc.violate(format!("C05/writer:unfragmented-change-sent-with-other-bytes:{what}"), json!({"sent_len": other.map(|p| p.len()), "expected_len": expect.len()}), replay()),
          }
          continue;
        }
        if sizes.len() != 1 {
          acc.violate(format!("C05/writer:fragments-of-one-sample-disagree-on-sizes-or-none-sent:{what}"), json!({"sizes": sizes, "datagrams": sent.len()}), replay());
          continue;
        }
        let (fs, sample_size) = *sizes.iter().next().unwrap();
        let nfr = (sample_size as usize + fs as usize - 1) / fs as usize;
        let mut got = vec![];
        let mut complete = true;
        for f in 1..=nfr as u32 {
          match frags.get(&f) {
            Some(b) => got.extend_from_slice(b),
            None => complete = false,
          }
        }
        got.truncate(sample_size as usize);
        if !complete || got != expect {
          acc.violate(
            format!("C05/writer:fragmented-change-reassembles-to-other-bytes:{what}"),
            json!({"announced_sample_size": sample_size, "handed_in_size": expect.len(), "fragments_sent": frags.len(), "fragments_needed": nfr, "reassembled_len": got.len(), "first_difference_at": got.iter().zip(expect.iter()).position(|(a, b)| a != b)}),
            replay(),
          );
        } else {
          acc.count("raw_changes_fragmented_and_reassembled_equal", 1);
          acc.distinct.insert(crate::prng::fnv64(format!("{what}{len}{frag_size}").as_bytes()));
        }
      }
    });
    acc.merge(raw_acc);
    rep.require("raw_changes_fragmented_and_reassembled_equal", 2000);
    rep.require("raw_changes_written_dispose_by_key", 1000);
  }
  match prop {
    Prop::C01 => rep.require("samples_handed_over", 1000),
    Prop::C03 => rep.require("acknacks_observed", 500),
    Prop::C05 => rep.require("fragmented_samples_delivered", 200),
  }
  rep.finish(acc)
}
