//! C14 front end: messages built by the implementation's own constructors are
//! judged by (a) the in-crate structural round trip, (b) the harness's independent
//! framing walker and field decoder, (c) number-set membership rules.
use rustdds::verif::{codec, net};
use serde_json::json;

use crate::{
  ctx::{hex, par_cases, Args, Report},
  wire::{self, Sub},
};

fn eid_num(e: &[u8; 4]) -> i64 {
  u32::from_be_bytes(*e) as i64
}

fn unpad_eq(a: &[u8], b: &[u8]) -> bool {
  let (short, long) = if a.len() <= b.len() { (a, b) } else { (b, a) };
  long.len() - short.len() <= 3 && long[..short.len()] == *short && long[short.len()..].iter().all(|x| *x == 0)
}

pub fn run_c14(args: &Args) -> i32 {
  net::set_policy_drop_all();
  let mut rep = Report::new(
    args,
    "messages of 1-5 submessages built through MessageBuilder (data_msg, data_frag_msg, gap_msg, heartbeat_msg, ts_msg, dst_submessage), create_submessage and direct structs (INFO_SRC, INFO_REPLY with 0-3 unicast and an optional multicast locator list) with boundary sequence numbers, inline-QoS lists (known and vendor PIDs, value lengths of every residue mod 4), payload lengths 0..300 of every residue mod 4, number sets with 0..256 bits and members at the window edges, per-submessage endianness; plus standalone SequenceNumberSet/FragmentNumberSet cases; plus number sets parsed from bytes as another implementation may send them (random bits also beyond numBits in the last bitmap word): forward and backward iteration must report exactly the bits below numBits; distinct = hash of the serialized bytes; non-trivial = message with >=2 submessages or a payload/bitmap-carrying submessage",
  );
  rep.assume("round-trip equality ignores original_bytes and compares parameter values / payload up to <=3 trailing zero bytes (RTPS padding); generated values never end in a zero byte so padding is unambiguous");
  rep.assume("a submessage that is followed by another must end on a 4-byte boundary; the final one may have any length (DATAFRAG is not padded and is always sent last)");
  let ncases = args.scale(200_000, 60_000_000);
  let seed = args.seed;
  let replay_case = crate::replay_index(args);
  let acc = par_cases(args.threads(), ncases, |i, acc| {
    if replay_case.map_or(false, |rc| rc != i) {
      return;
    }
    let cseed = seed.wrapping_mul(0x9E3779B97F4A7C15) ^ (0x1414u64 << 48) ^ i;
    let tag = || json!({"case": {"seed": seed, "stream": 0x1414, "index": i}});
    if i % 20 == 3 {
      // ---- number sets as another implementation may send them: random bits also beyond numBits in the last word
      let mut rng = crate::prng::Rng::derive(seed, 0x1415, i);
      let is_sn = rng.chance(1, 2);
      let nb: u32 = match rng.below(4) {
        0 => *rng.pick(&[1u32, 3, 31, 33, 63, 65, 255]),
        1 => 32 * rng.below(9) as u32,
        _ => rng.below(257) as u32,
      };
      let base: i64 = if is_sn { *rng.pick(&[1i64, 5, (1i64 << 32) - 3, 1 << 33]) } else { *rng.pick(&[1i64, 2, 1000]) };
      let words = ((nb + 31) / 32) as usize;
      let bm: Vec<u32> = (0..words).map(|_| match rng.below(4) { 0 => 0, 1 => u32::MAX, 2 => 0x4000_007f, _ => rng.next() as u32 }).collect();
      let mut bytes = vec![];
      if is_sn {
        bytes.extend_from_slice(&((base >> 32) as i32).to_le_bytes());
        bytes.extend_from_slice(&(base as u32).to_le_bytes());
      } else {
        bytes.extend_from_slice(&(base as u32).to_le_bytes());
      }
      bytes.extend_from_slice(&nb.to_le_bytes());
      for w in &bm {
        bytes.extend_from_slice(&w.to_le_bytes());
      }
      let expect: Vec<i64> = (0..nb).filter(|o| bm[(*o / 32) as usize] >> (31 - o % 32) & 1 == 1).map(|o| base + o as i64).collect();
      acc.evaluations += 1;
      acc.count("foreign_numberset_cases", 1);
      if nb % 32 != 0 && bm.last().map_or(false, |w| w & (u32::MAX >> (nb % 32)) != 0) {
        acc.count("foreign_numberset_cases_with_bits_set_beyond_numbits", 1);
      }
      let rp = || json!({"case": {"seed": seed, "stream": 0x1415, "index": i}, "kind": if is_sn { "SequenceNumberSet" } else { "FragmentNumberSet" }, "bytes_le": hex(&bytes), "base": base, "num_bits": nb, "bitmap": bm});
      match if is_sn { codec::sn_set_from_bytes(&bytes) } else { codec::fn_set_from_bytes(&bytes) } {
        None => acc.violate("C14/numberset:foreign-set-does-not-parse", json!({"num_bits": nb}), rp()),
        Some((fwd, rev, is_empty)) => {
          if fwd.iter().any(|m| *m < base || *m >= base + nb as i64) {
            acc.violate("C14/numberset:foreign-set:member-outside-the-numbits-window", json!({"reported": fwd, "expected": expect}), rp());
          } else if fwd != expect {
            acc.violate("C14/numberset:foreign-set:membership-not-preserved-within-window", json!({"reported": fwd, "expected": expect}), rp());
          }
          let mut r2 = rev.clone();
          r2.reverse();
          if r2 != fwd {
            acc.violate("C14/numberset:foreign-set:forward-and-backward-iteration-disagree", json!({"forward": fwd, "backward": rev}), rp());
          }
          if is_empty != expect.is_empty() && fwd == expect {
            acc.violate("C14/numberset:foreign-set:is_empty-disagrees-with-membership", json!({"is_empty": is_empty, "expected": expect}), rp());
          }
          if nb > 0 {
            acc.distinct.insert(crate::prng::fnv64(&bytes));
          }
        }
      }
      return;
    }
    if i % 5 == 4 {
      // ---- number sets
      let sc = if i % 10 == 4 { codec::sn_set_case(cseed) } else { codec::fn_set_case(cseed) };
      acc.evaluations += 1;
      acc.count("numberset_cases", 1);
      let rp = || json!({"case": {"seed": seed, "stream": 0x1414, "index": i}, "base": sc.base, "requested": sc.requested, "reported": sc.reported});
      let lo = sc.base;
      let hi = sc.base + 255;
      if sc.reported.iter().any(|m| *m < lo || *m > hi) {
        acc.violate("C14/numberset:member-outside-256-window", json!({"base": sc.base, "reported": sc.reported}), rp());
      }
      // membership preserved exactly within the window (requested base may be lowered by the constructor)
      let expect: Vec<i64> = sc.requested.iter().copied().filter(|m| *m >= lo && *m <= hi).collect();
      if sc.reported != expect {
        acc.violate("C14/numberset:membership-not-preserved-within-window", json!({"base": sc.base, "expected": expect, "reported": sc.reported}), rp());
      }
      let mut rev = sc.reported_rev.clone();
      rev.reverse();
      if rev != sc.reported {
        acc.violate("C14/numberset:forward-and-backward-iteration-disagree", json!({"forward": sc.reported, "backward": sc.reported_rev}), rp());
      }
      match &sc.after_roundtrip {
        None => acc.violate("C14/numberset:serialized-set-does-not-parse", json!({"le": hex(&sc.bytes_le)}), rp()),
        Some(a) => {
          if *a != sc.reported {
            acc.violate("C14/numberset:membership-changed-by-serialisation", json!({"before": sc.reported, "after": a}), rp());
          }
        }
      }
      if sc.is_empty_says != sc.reported.is_empty() {
        acc.violate("C14/numberset:is_empty-disagrees-with-iteration", json!({"is_empty": sc.is_empty_says, "reported": sc.reported}), rp());
      }
      // wire form: numBits <= 256 and bitmap length = ceil(numBits/32) words
      if sc.bytes_le.len() >= 12 {
        let off = sc.bytes_le.len() - 4 * ((sc.bytes_le.len() - 8) / 4);
        let _ = off;
      }
      if !sc.reported.is_empty() {
        acc.distinct.insert(crate::prng::fnv64(&sc.bytes_le));
      }
      return;
    }
    let c = codec::message_case(cseed);
    acc.evaluations += 1;
    acc.count("messages", 1);
    acc.count("submessages", c.subs.len() as u64);
    let rp = || json!({"case": {"seed": seed, "stream": 0x1414, "index": i}, "bytes": hex(&c.bytes), "built": c.debug});
    if let Some(e) = &c.write_error {
      acc.violate("C14/write:constructed-message-fails-to-serialise", json!({"err": e}), rp());
      return;
    }
    if let Some(e) = &c.parse_error {
      acc.violate("C14/roundtrip:own-bytes-do-not-parse", json!({"err": e}), rp());
      return;
    }
    if !c.roundtrip_equal {
      acc.violate("C14/roundtrip:parsed-message-differs", json!({"diff": c.diff}), rp());
    }
    if c.canonical == Some(false) {
      acc.violate("C14/canonical:reserialised-bytes-differ", json!({}), rp());
    }
    // ---- independent framing walk
    let m = match wire::parse(&c.bytes) {
      Ok(m) => m,
      Err(e) => {
        acc.violate("C14/framing:independent-walker-cannot-follow-lengths", json!({"err": e}), rp());
        return;
      }
    };
    if m.prefix != c.header_prefix || &c.bytes[0..4] != b"RTPS" {
      acc.violate("C14/framing:header-differs", json!({}), rp());
    }
    if m.frames.len() != c.subs.len() {
      acc.violate("C14/framing:submessage-count-differs", json!({"walker": m.frames.len(), "built": c.subs.len()}), rp());
      return;
    }
    for (k, (off, id, flags, declared, body_len)) in m.frames.iter().enumerate() {
      let last = k + 1 == m.frames.len();
      let end = off + 4 + body_len;
      if !last && end % 4 != 0 {
        acc.violate("C14/framing:non-final-submessage-not-4-byte-aligned", json!({"index": k, "id": id, "end": end}), rp());
      }
      if last && end != c.bytes.len() {
        acc.violate("C14/framing:last-submessage-does-not-end-at-buffer-end", json!({"end": end, "len": c.bytes.len()}), rp());
      }
      if *declared as usize != *body_len && !(*declared == 0 && last) {
        acc.violate("C14/framing:declared-length-differs", json!({"index": k, "declared": declared, "actual": body_len}), rp());
      }
      let b = &c.subs[k];
      if b.id != *id || b.flags != *flags {
        acc.violate("C14/flags:id-or-flags-differ-from-built", json!({"index": k, "walker": [id, flags], "built": [b.id, b.flags]}), rp());
      }
    }
    // ---- field-level comparison with the walker's independent decode
    for (k, (sub, b)) in m.subs.iter().zip(c.subs.iter()).enumerate() {
      let mismatch = |what: &str, acc: &mut crate::ctx::Acc| {
        acc.violate(format!("C14/fields:{what}"), json!({"index": k, "walker": format!("{sub:?}").chars().take(400).collect::<String>(), "built_nums": b.nums, "built_params": b.params.len(), "built_payload_len": b.payload.len()}), rp());
      };
      match sub {
        Sub::Data { reader_id, writer_id, sn, flags, inline_qos, payload } => {
          if b.nums != vec![eid_num(reader_id), eid_num(writer_id), *sn] {
            mismatch("DATA-ids-or-sn", acc);
          }
          let q = flags & 0x02 != 0;
          if q != inline_qos.is_some() {
            mismatch("DATA-Q-flag-vs-inline-qos", acc);
          }
          let built_params = &b.params;
          let w = inline_qos.clone().unwrap_or_default();
          if w.len() != built_params.len() || w.iter().zip(built_params.iter()).any(|(x, y)| x.0 != y.0 || !unpad_eq(&x.1, &y.1) || x.1.len() % 4 != 0) {
            mismatch("DATA-inline-qos-parameters", acc);
          }
          let has_payload = flags & 0x0c != 0;
          if has_payload != !b.payload.is_empty() && !(has_payload && b.payload.is_empty()) {
            mismatch("DATA-D/K-flag-vs-payload", acc);
          }
          if flags & 0x0c == 0x0c {
            mismatch("DATA-D-and-K-both-set", acc);
          }
          if !unpad_eq(payload, &b.payload) {
            mismatch("DATA-payload-bytes", acc);
          }
          acc.count(&format!("payload_len_mod4_{}", b.payload.len() % 4), 1);
        }
        Sub::DataFrag { reader_id, writer_id, sn, frag_start, frags_in_submsg, frag_size, sample_size, bytes, inline_qos, flags } => {
          if b.nums != vec![eid_num(reader_id), eid_num(writer_id), *sn, *frag_start as i64, *frags_in_submsg as i64, *frag_size as i64, *sample_size as i64] {
            mismatch("DATAFRAG-fixed-fields", acc);
          }
          if (flags & 0x02 != 0) != inline_qos.is_some() {
            mismatch("DATAFRAG-Q-flag", acc);
          }
          if !unpad_eq(bytes, &b.payload) {
            mismatch("DATAFRAG-payload-bytes", acc);
          }
        }
        Sub::Heartbeat { reader_id, writer_id, first, last, count, .. } => {
          if b.nums != vec![eid_num(reader_id), eid_num(writer_id), *first, *last, *count as i64] {
            mismatch("HEARTBEAT", acc);
          }
        }
        Sub::HeartbeatFrag { reader_id, writer_id, sn, last_frag, count } => {
          if b.nums != vec![eid_num(reader_id), eid_num(writer_id), *sn, *last_frag as i64, *count as i64] {
            mismatch("HEARTBEATFRAG", acc);
          }
        }
        Sub::Gap { reader_id, writer_id, gap_start, base, members, .. } => {
          let mut e = vec![eid_num(reader_id), eid_num(writer_id), *gap_start, *base];
          e.extend(members.iter().copied());
          if b.nums != e {
            mismatch("GAP", acc);
          }
        }
        Sub::AckNack { reader_id, writer_id, base, members, count, .. } => {
          let mut e = vec![eid_num(reader_id), eid_num(writer_id), *base, *count as i64];
          e.extend(members.iter().copied());
          if b.nums != e {
            mismatch("ACKNACK", acc);
          }
        }
        Sub::NackFrag { reader_id, writer_id, sn, base, members, count, .. } => {
          let mut e = vec![eid_num(reader_id), eid_num(writer_id), *sn, *base as i64, *count as i64];
          e.extend(members.iter().map(|x| *x as i64));
          if b.nums != e {
            mismatch("NACKFRAG", acc);
          }
        }
        Sub::InfoTs { ticks } => {
          if b.nums != vec![ticks.map_or(-1, |t| t as i64)] {
            mismatch("INFO_TS", acc);
          }
        }
        Sub::InfoReply { unicast, multicast } => {
          let mut e = vec![unicast.len() as i64];
          let mut pl: Vec<u8> = vec![];
          for (k, p, a) in unicast {
            e.push(*k as i64);
            e.push(*p as i64);
            pl.extend_from_slice(a);
          }
          match multicast {
            None => e.push(-1),
            Some(m) => {
              e.push(m.len() as i64);
              for (k, p, a) in m {
                e.push(*k as i64);
                e.push(*p as i64);
                pl.extend_from_slice(a);
              }
            }
          }
          if b.nums != e || b.payload != pl {
            mismatch("INFO_REPLY", acc);
          }
        }
        Sub::InfoDst { prefix } | Sub::InfoSrc { prefix } => {
          if b.payload != prefix.to_vec() {
            mismatch("INFO_DST/SRC-prefix", acc);
          }
        }
        Sub::Other { .. } => {
          acc.count("submessages_not_decoded_by_walker", 1);
        }
      }
      acc.count(&format!("kind_{:#04x}", b.id), 1);
      if b.flags & 1 == 0 {
        acc.count("big_endian_submessages", 1);
      }
    }
    if c.subs.len() >= 2 || c.subs.iter().any(|s| !s.payload.is_empty() || s.nums.len() > 5) {
      acc.distinct.insert(crate::prng::fnv64(&c.bytes));
    }
    if i < 2 {
      acc.sample(json!({"case": tag(), "bytes": hex(&c.bytes), "submessage_kinds": c.subs.iter().map(|s| s.id).collect::<Vec<_>>()}), 2);
    }
  });
  rep.require("messages", 10_000);
  rep.require("numberset_cases", 2000);
  rep.require("foreign_numberset_cases_with_bits_set_beyond_numbits", 1000);
  rep.require("big_endian_submessages", 1000);
  for k in ["kind_0x15", "kind_0x16", "kind_0x07", "kind_0x08", "kind_0x06", "kind_0x12", "kind_0x09", "kind_0x0e", "kind_0x0f"] {
    rep.require(k, 500);
  }
  rep.finish(acc)
}
