//! C02 front end, and the writer+reader leg of C05.
use rustdds::verif::net;
use serde_json::json;

use crate::{
  ctx::{par_cases, Acc, Args, Report},
  link::{self, LProp},
  prng::Rng,
};

pub fn link_cases(args: &Args, prop: LProp, ncases: u64, stream: u64) -> Acc {
  let seed = args.seed;
  let max_samples = if args.thorough() { 40 } else { 16 };
  let replay_case = crate::replay_index(args);
  par_cases(args.threads(), ncases, |i, acc| {
    if replay_case.map_or(false, |rc| rc != i) {
      return;
    }
    let mut rng = Rng::derive(seed, stream, i);
    let case = link::gen_case(&mut rng, max_samples);
    let tag = json!({"seed": seed, "stream": stream, "index": i, "engine": "link"});
    let out = link::run_case(&case, prop, acc, &tag);
    acc.evaluations += 1;
    acc.count("link_samples_written", out.written);
    acc.count("link_samples_delivered", out.delivered);
    acc.count("link_fragmented_samples_delivered", out.frag_delivered);
    acc.count("link_datagrams_dropped", out.dropped);
    acc.count("link_datagrams_duplicated", out.duplicated);
    acc.count("link_datagrams_delayed", out.delayed);
    if out.converged {
      acc.count("link_cases_converged", 1);
      acc.count("link_rounds_to_converge_total", out.rounds_to_converge);
      acc.count(&format!("link_converged_in_rounds_{:02}", out.rounds_to_converge.min(20)), 1);
    }
    let nontrivial = match prop {
      LProp::C02 => out.dropped + out.duplicated + out.delayed > 0 && out.written >= 2,
      LProp::C05 => out.frag_delivered > 0 && out.dropped + out.duplicated + out.delayed > 0,
    };
    if nontrivial {
      acc.distinct.insert(out.sig);
    }
    if i < 2 {
      acc.sample(json!({"case": tag, "script": link::case_json(&case), "rounds_to_converge": out.rounds_to_converge}), 2);
    }
  })
}

pub fn run_c02(args: &Args) -> i32 {
  net::set_policy_drop_all();
  let mut rep = Report::new(
    args,
    "real Writer and real Reader joined by a link that drops/duplicates/delays any datagram in either direction during a faulty phase (writes of plain and 2-6-fragment samples, heartbeat ticks, repair steps, late-joining reader, volatile and transient-local), then fault-free rounds {heartbeat tick, deliver, repair to quiescence, deliver}; distinct = hash of (event kinds, fault seed, fault counts); non-trivial = >=1 fault and >=2 samples",
  );
  rep.assume("bounded progress restatement: convergence (reader handed over every sample the writer holds for it, writer sees ack base = last+1, no repair pending) within 3 + 2*held rounds after faults stop; then 3 further rounds without any datagram");
  rep.assume("logical time: timers are not polled; the 10 s wall-clock fragment-assembly garbage collection cannot fire within a case");
  rep.assume("writer KeepAll, no cache cleaning during the case, so 'still in the writer's history' = everything written");
  let ncases = args.scale(20_000, 6_000_000);
  let acc = link_cases(args, LProp::C02, ncases, 0x0202);
  rep.require("link_cases_converged", 1000);
  rep.require("link_datagrams_dropped", 1000);
  rep.finish(acc)
}
