//! C11 front end (and the stack leg used by C12): see stk.rs.
use rustdds::verif::net;
use serde_json::json;

use crate::{
  ctx::{Acc, Args, Report},
  prng::Rng,
  shard,
  stk::{self, SProp},
};

pub fn stack_cases(args: &Args, prop: SProp, ncases: u64, stream: u64, with_timeouts: bool, max_events: u64) -> Acc {
  let seed = args.seed;
  let replay_case = crate::replay_index(args);
  let label = if prop == SProp::C11 { "C11" } else { "C12" };
  shard::run_sharded(args, ncases, args.threads(), label, move |i, acc, br| {
    if replay_case.map_or(false, |rc| rc != i) {
      return;
    }
    net::set_policy_pass();
    let domain: u16 = std::env::var("VERIF_DOMAIN").ok().and_then(|s| s.parse().ok()).unwrap_or(10);
    let mut rng = Rng::derive(seed, stream, i);
    let sc = stk::gen_scenario(&mut rng, max_events, with_timeouts);
    let tag = json!({"seed": seed, "stream": stream, "index": i, "engine": "stack-fake-participants"});
    br.set_case(json!({"case": tag, "scenario": stk::scenario_json(&sc)}));
    let out = stk::run_scenario(&sc, domain, prop, acc, &tag);
    acc.evaluations += 1;
    acc.count("stack_events_applied", out.events_applied);
    acc.count("stack_matched_events_observed", out.matched_events);
    acc.count("stack_incompatible_events_observed", out.incompatible_events);
    acc.count("stack_set_changes_in_model", out.set_changes);
    acc.count("stack_losses_by_timeout", out.losses_by_timeout);
    acc.count("stack_losses_by_dispose", out.losses_by_dispose);
    acc.count("stack_local_endpoints_created_during_the_scenario", out.late_locals);
    if out.aborted {
      acc.count("stack_scenarios_aborted", 1);
    } else {
      acc.count("stack_scenarios_completed", 1);
      if out.set_changes >= 2 {
        acc.distinct.insert(out.sig);
      }
    }
    if i < 2 {
      acc.sample(json!({"case": tag, "scenario": stk::scenario_json(&sc)}), 2);
    }
  })
}

pub fn run_c11(args: &Args) -> i32 {
  let mut rep = Report::new(
    args,
    "one real DomainParticipant (2 topics, 3 DataReaders and 2 DataWriters at the start, up to 2 more created while the scenario runs, QoS from a small palette) against 2-3 harness-controlled remote participants speaking SPDP/SEDP on real loopback UDP; random histories {participant appears, endpoint announced / re-announced / disposed, dispose of unknown endpoint, participant disposed, participant reappears and re-announces, the application creates one more local reader / writer}; after every event a logical barrier (a marker endpoint announced on the same SEDP stream must be matched) and then the status events drained through the public API are compared with the model set = announced and participant alive and same topic and QoS-compatible (C10 reference table); distinct = hash of scenario; non-trivial = >=2 set changes",
  );
  rep.assume("a remote endpoint keeps the QoS it was announced with; a reappearing participant re-announces its endpoints (the statement does not say whether endpoints of a rediscovered participant count as announced before that)");
  rep.assume("a barrier that is not reached within 6 s makes the scenario inconclusive, never a violation; at most 4 status events per local endpoint and step (status channel capacity)");
  let ncases = args.scale(96, 4000);
  let acc = stack_cases(args, SProp::C11, ncases, 0x1111, false, 14);
  rep.require("stack_scenarios_completed", 20);
  rep.require("stack_matched_events_observed", 40);
  rep.finish(acc)
}
