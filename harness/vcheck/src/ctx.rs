//! Shared check plumbing: CLI context, violations, known findings, evidence.
use std::{
  collections::{BTreeMap, BTreeSet},
  path::PathBuf,
  time::Instant,
};

use serde_json::{json, Value};

#[derive(Clone, Debug)]
pub struct Args {
  pub id: String,
  pub tier: String, // quick | thorough
  pub seed: u64,
  pub replay: Option<String>,
  pub verif_dir: PathBuf,
  pub extra: Vec<String>,
}

impl Args {
  pub fn thorough(&self) -> bool {
    self.tier == "thorough"
  }
  pub fn threads(&self) -> usize {
    std::env::var("VERIF_THREADS")
      .ok()
      .and_then(|s| s.parse().ok())
      .unwrap_or_else(|| std::thread::available_parallelism().map(|n| n.get()).unwrap_or(4).min(16))
  }
  /// scale factor for case counts: VERIF_SCALE (float) overrides.
  pub fn scale(&self, quick: u64, thorough: u64) -> u64 {
    let base = if self.thorough() { thorough } else { quick };
    match std::env::var("VERIF_SCALE").ok().and_then(|s| s.parse::<f64>().ok()) {
      Some(f) => ((base as f64) * f).max(1.0) as u64,
      None => base,
    }
  }
}

#[derive(Clone, Debug, serde::Serialize, serde::Deserialize)]
pub struct Violation {
  pub signature: String,
  pub detail: Value,
  pub replay: Value,
}

#[derive(Clone, Debug, serde::Deserialize)]
pub struct KnownFinding {
  pub property: String,
  pub signature: String,
  pub status: String, // open | fixed
  #[serde(default)]
  pub commit: Option<String>,
  pub what: String,
  #[serde(default)]
  pub line: Option<String>,
}

/// Per-thread (mergeable) accumulator.
#[derive(Default, Debug, serde::Serialize, serde::Deserialize)]
pub struct Acc {
  pub evaluations: u64,
  pub distinct: BTreeSet<u64>,
  pub counters: BTreeMap<String, u64>,
  pub samples: Vec<Value>,
  pub violations: Vec<Violation>,
  pub inconclusive: Vec<String>,
}

impl Acc {
  pub fn count(&mut self, k: &str, n: u64) {
    *self.counters.entry(k.to_string()).or_insert(0) += n;
  }
  pub fn sample(&mut self, v: Value, cap: usize) {
    if self.samples.len() < cap {
      self.samples.push(v);
    }
  }
  pub fn violate(&mut self, signature: impl Into<String>, detail: Value, replay: Value) {
    let signature = signature.into();
    // keep at most 3 witnesses per signature
    if self.violations.iter().filter(|v| v.signature == signature).count() < 3 {
      self.violations.push(Violation { signature, detail, replay });
    } else {
      self.count("violations_beyond_cap", 1);
    }
  }
  /// merge without the sample cap used when joining threads
  pub fn merge_all(&mut self, o: Acc) {
    self.merge(o);
  }
  pub fn merge(&mut self, o: Acc) {
    self.evaluations += o.evaluations;
    self.distinct.extend(o.distinct);
    for (k, v) in o.counters {
      *self.counters.entry(k).or_insert(0) += v;
    }
    for s in o.samples {
      if self.samples.len() < 12 {
        self.samples.push(s);
      }
    }
    for v in o.violations {
      if self.violations.iter().filter(|x| x.signature == v.signature).count() < 3 {
        self.violations.push(v);
      }
    }
    self.inconclusive.extend(o.inconclusive);
  }
}

pub struct Report {
  pub args: Args,
  pub t0: Instant,
  pub level: String,
  pub rule: String,
  pub assumptions: Vec<String>,
  pub extra: BTreeMap<String, Value>,
  /// minimum counters that must be reached, else the run is inconclusive
  pub required: Vec<(String, u64)>,
  pub exhaustive: Option<bool>,
}

impl Report {
  pub fn new(args: &Args, rule: &str) -> Report {
    Report {
      args: args.clone(),
      t0: Instant::now(),
      level: "exploration".to_string(),
      rule: rule.to_string(),
      assumptions: vec![],
      extra: BTreeMap::new(),
      required: vec![],
      exhaustive: None,
    }
  }
  pub fn assume(&mut self, s: &str) {
    self.assumptions.push(s.to_string());
  }
  pub fn require(&mut self, counter: &str, min: u64) {
    self.required.push((counter.to_string(), min));
  }

  pub fn load_known(&self) -> Vec<KnownFinding> {
    let p = self.args.verif_dir.join("known_findings.json");
    match std::fs::read_to_string(&p) {
      Ok(s) => serde_json::from_str::<Vec<KnownFinding>>(&s).unwrap_or_else(|e| {
        eprintln!("known_findings.json unreadable: {e}");
        vec![]
      }),
      Err(_) => vec![],
    }
  }

  /// Writes evidence, prints verdict lines, returns the process exit code.
  pub fn finish(&self, acc: Acc) -> i32 {
    let id = &self.args.id;
    let known = self.load_known();
    let mut new_violations: Vec<&Violation> = vec![];
    let mut known_hits: BTreeMap<String, (String, u64)> = BTreeMap::new();
    for v in &acc.violations {
      match known
        .iter()
        .find(|k| &k.property == id && k.status == "open" && k.signature == v.signature)
      {
        Some(k) => {
          known_hits.entry(k.signature.clone()).or_insert((k.what.clone(), 0)).1 += 1;
        }
        None => new_violations.push(v),
      }
    }
    let replay_dir = self.args.verif_dir.join("replays");
    let _ = std::fs::create_dir_all(&replay_dir);
    // stale witnesses of this property/seed would be confusing
    if self.args.replay.is_none() {
      if let Ok(rd) = std::fs::read_dir(&replay_dir) {
        let pre = format!("{}-{}-", id, self.args.seed);
        for e in rd.flatten() {
          if e.file_name().to_string_lossy().starts_with(&pre) {
            let _ = std::fs::remove_file(e.path());
          }
        }
      }
    }
    let mut lines = vec![];
    for (i, v) in new_violations.iter().enumerate() {
      let path = replay_dir.join(format!("{}-{}-{}.json", id, self.args.seed, i));
      let body = json!({"property": id, "signature": v.signature, "detail": v.detail, "replay": v.replay,
        "seed": self.args.seed, "tier": self.args.tier});
      let _ = std::fs::write(&path, serde_json::to_string_pretty(&body).unwrap());
      lines.push(format!(
        "VIOLATION property={} replay={} signature={}",
        id,
        path.display(),
        v.signature
      ));
    }
    // minimum-observation rule: a run that observed too little is inconclusive as a whole (exit 2);
    // single cases that could not be judged (watchdog, harness-side failure) are reported and recorded but
    // do not change the exit code as long as the required observations were made and they stay a small minority
    let mut inconclusive = acc.inconclusive.clone();
    let mut run_inconclusive = false;
    for (k, min) in self.required.iter().filter(|_| self.args.replay.is_none()) {
      let got = acc.counters.get(k).copied().unwrap_or(0);
      if got < *min {
        inconclusive.push(format!("counter {k}={got} below required {min}"));
        run_inconclusive = true;
      }
    }
    if acc.inconclusive.len() as u64 > (acc.evaluations / 10).max(3) {
      inconclusive.push(format!("{} cases could not be judged (more than a tenth of the run)", acc.inconclusive.len()));
      run_inconclusive = true;
    }
    let mut cov = serde_json::Map::new();
    cov.insert("evaluations".into(), json!(acc.evaluations.max(0)));
    cov.insert("distinct_nontrivial".into(), json!(acc.distinct.len()));
    cov.insert("rule".into(), json!(self.rule));
    cov.insert("samples".into(), json!(acc.samples));
    cov.insert("observed".into(), json!(acc.counters));
    if let Some(e) = self.exhaustive {
      cov.insert("exhaustive".into(), json!(e));
    }
    for (k, v) in &self.extra {
      cov.insert(k.clone(), v.clone());
    }
    cov.insert(
      "known_findings_confirmed".into(),
      json!(known_hits.iter().map(|(s, (_, n))| json!({"signature": s, "witnesses": n})).collect::<Vec<_>>()),
    );
    cov.insert(
      "new_violation_signatures".into(),
      json!(new_violations.iter().map(|v| v.signature.clone()).collect::<BTreeSet<_>>()),
    );
    cov.insert("inconclusive".into(), json!(inconclusive));
    let ev = json!({
      "property_id": id,
      "tier": self.args.tier,
      "seed": self.args.seed,
      "level": self.level,
      "coverage": Value::Object(cov),
      "assumptions": self.assumptions,
      "wall_s": self.t0.elapsed().as_secs_f64(),
      "violations": new_violations.len(),
    });
    let evdir = self.args.verif_dir.join("evidence");
    let _ = std::fs::create_dir_all(&evdir);
    let tmp = evdir.join(format!("{id}.json.tmp"));
    let fin = evdir.join(format!("{id}.json"));
    std::fs::write(&tmp, serde_json::to_string_pretty(&ev).unwrap()).expect("write evidence");
    std::fs::rename(&tmp, &fin).expect("rename evidence");

    // every listed open finding of this property is announced, with the number of witnesses this run produced
    for k in known.iter().filter(|k| &k.property == id && k.status == "open") {
      let n = known_hits.get(&k.signature).map_or(0, |x| x.1);
      let pre = format!("KNOWN-FINDING: property={id} ");
      let text = match &k.line {
        Some(l) if l.starts_with(&pre) => l[pre.len()..].to_string(),
        _ => k.what.chars().take(300).collect(),
      };
      println!("KNOWN-FINDING: property={id} {text} [signature={} witnesses_in_this_run={n}]", k.signature);
    }
    for l in &lines {
      println!("{l}");
    }
    println!(
      "{} {}: evaluations={} distinct_nontrivial={} violations={} known={} wall={:.1}s",
      id,
      self.args.tier,
      acc.evaluations,
      acc.distinct.len(),
      new_violations.len(),
      known_hits.len(),
      self.t0.elapsed().as_secs_f64()
    );
    if !new_violations.is_empty() {
      return 1;
    }
    for r in &inconclusive {
      println!("{} property={id} reason={r}", if run_inconclusive { "INCONCLUSIVE" } else { "INCONCLUSIVE-CASE" });
    }
    if run_inconclusive {
      return 2;
    }
    0
  }
}

/// Run `ncases` cases across threads; `f(case_index, &mut Acc)`.
pub fn par_cases<F>(threads: usize, ncases: u64, f: F) -> Acc
where
  F: Fn(u64, &mut Acc) + Sync,
{
  let next = std::sync::atomic::AtomicU64::new(0);
  let total = std::sync::Mutex::new(Acc::default());
  std::thread::scope(|s| {
    for _ in 0..threads.max(1) {
      s.spawn(|| {
        let mut acc = Acc::default();
        loop {
          let i = next.fetch_add(1, std::sync::atomic::Ordering::Relaxed);
          if i >= ncases {
            break;
          }
          f(i, &mut acc);
        }
        total.lock().unwrap().merge(acc);
      });
    }
  });
  total.into_inner().unwrap()
}

pub fn hex(b: &[u8]) -> String {
  let mut s = String::with_capacity(b.len() * 2);
  for x in b {
    s.push_str(&format!("{x:02x}"));
  }
  s
}
pub fn unhex(s: &str) -> Vec<u8> {
  (0..s.len() / 2).map(|i| u8::from_str_radix(&s[2 * i..2 * i + 2], 16).unwrap_or(0)).collect()
}

/// (idle + iowait, total) jiffies of the whole machine, from /proc/stat. Used by the checks with wall-clock bounds
/// (C07, C12): a bound that expires while the machine has next to no idle CPU is no verdict.
pub fn proc_stat() -> Option<(u64, u64)> {
  let s = std::fs::read_to_string("/proc/stat").ok()?;
  let l = s.lines().next()?;
  let v: Vec<u64> = l.split_whitespace().skip(1).filter_map(|x| x.parse().ok()).collect();
  if v.len() < 5 {
    return None;
  }
  Some((v[3] + v[4], v.iter().take(8).sum()))
}
/// idle share of the machine since `since` (a value of `proc_stat`)
pub fn idle_share_since(since: Option<(u64, u64)>) -> Option<f64> {
  match (since, proc_stat()) {
    (Some((i0, t0)), Some((i1, t1))) if t1 > t0 => Some((i1 - i0) as f64 / (t1 - t0) as f64),
    _ => None,
  }
}
/// below this idle share a timed-out wait is inconclusive
pub const SATURATED_IDLE: f64 = 0.10;
