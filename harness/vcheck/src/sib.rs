//! C01 leg "two local readers": a participant with TWO reliable DataReaders on one topic (they share one
//! TopicCache and one MessageReceiver, as `Subscriber::create_datareader` sets them up), both matched with
//! the same remote reliable writer. The writer's traffic reaches the two readers with independent faults:
//! the first transmission goes to both (reader id UNKNOWN) or is lost, repairs are addressed to one reader
//! (as a real Writer addresses the answer to an ACKNACK), GAPs are addressed to one reader (as a Writer
//! addresses them to a Volatile late joiner or for a sample written for another reader).
//! Each reader on its own must obey C01: in order, once, no holes, and complete once the writer has
//! repaired everything for it.
use std::collections::{BTreeMap, BTreeSet};

use rustdds::verif::rbench::{Flavor, ObsVal, RbCfg, ReadOp, ReaderBench};
use serde_json::{json, Value};

use crate::{
  ctx::Acc,
  prng::{fnv64, Rng},
  wire::{self, DataMsg},
};

#[derive(Clone, Debug)]
pub enum SEv {
  /// first transmission of the next sample: to both readers (reader id UNKNOWN) unless lost
  Push { lost: bool },
  /// repair of `sn` addressed to one reader
  Repair { to: usize, sn: i64 },
  /// GAP [from, to_excl) addressed to one reader: those samples are not for it
  Gap { to: usize, from: i64, to_excl: i64 },
  /// HEARTBEAT(first = 1, last = written so far) to both
  Heartbeat,
  Take { who: usize },
}

#[derive(Clone, Debug)]
pub struct SibCase {
  pub keyed: bool,
  /// reader 1 joins after this many events (late joiner on a participant that already reads the topic), 0 = from the start
  pub second_joins_at: usize,
  /// a late second reader requests TransientLocal (the writer re-sends it what it has) or Volatile (the writer
  /// sends it a GAP for what existed before)
  pub second_is_tl: bool,
  /// every datagram is addressed to both readers (reader id UNKNOWN; `to` = 2): the two readers see identical
  /// traffic, so per-reader state cannot diverge and the open shared-cache finding has no trigger
  pub uniform: bool,
  /// C07's engine-level leg: the late second reader is BEST-EFFORT and Volatile. It is judged by one rule only:
  /// it is never handed a sample that was written before it joined (such samples reach the participant as repairs
  /// addressed to the first reader).
  pub second_best_effort: bool,
  /// the second reader asks for ResourceLimits max_samples = 16 while the first one has 1 000 000, the writer
  /// sends 130-260 samples without loss and nobody takes before the end: the first reader must still get all of
  /// them (its own limits are far away); the second reader is not judged in these histories
  pub second_small_limits: bool,
  pub events: Vec<SEv>,
}

pub fn case_json(c: &SibCase) -> Value {
  json!({"keyed": c.keyed, "second_reader_joins_at_event": c.second_joins_at, "late_second_reader_is_transient_local": c.second_is_tl, "uniform_addressing": c.uniform, "second_reader_is_best_effort": c.second_best_effort, "second_reader_max_samples_16": c.second_small_limits, "events": c.events.iter().map(|e| format!("{e:?}")).collect::<Vec<_>>()})
}

pub fn gen_case(rng: &mut Rng) -> SibCase {
  gen_case_kind(rng, false)
}

/// `late_best_effort`: the second reader always joins late, is Volatile and best-effort, traffic is per reader
pub fn gen_case_kind(rng: &mut Rng, late_best_effort: bool) -> SibCase {
  if !late_best_effort && rng.chance(1, 40) {
    // long loss-free history next to a reader with small resource limits
    let keyed = rng.chance(1, 2);
    let n = 130 + rng.below(131) as usize;
    let second_joins_at = if rng.chance(1, 2) { 0 } else { 1 + rng.below(n as u64 / 2) as usize };
    let mut events: Vec<SEv> = (0..n).map(|_| SEv::Push { lost: false }).collect();
    events.push(SEv::Heartbeat);
    events.push(SEv::Take { who: 0 });
    return SibCase { keyed, second_joins_at, second_is_tl: true, uniform: false, second_best_effort: false, second_small_limits: true, events };
  }
  let keyed = rng.chance(1, 2);
  let n = 6 + rng.below(30) as usize;
  let second_joins_at = if rng.chance(1, 3) || late_best_effort { 1 + rng.below(n as u64 / 2) as usize } else { 0 };
  let uniform = rng.chance(1, 3) && !late_best_effort;
  let second_joins_at = if uniform { 0 } else { second_joins_at };
  let second_is_tl = rng.chance(1, 2) && !late_best_effort;
  let mut events = vec![];
  let mut written = 0i64;
  #[allow(unused_assignments)]
  let mut join_done = second_joins_at == 0;
  // per reader: what it has been sent (pushed not lost, or repaired) and what was gapped for it
  let mut has: [BTreeSet<i64>; 2] = [BTreeSet::new(), BTreeSet::new()];
  let mut gapped: [BTreeSet<i64>; 2] = [BTreeSet::new(), BTreeSet::new()];
  for i in 0..n {
    // the second reader joins before event number `second_joins_at` is applied (the runner counts events, not loop rounds)
    let joined1 = events.len() >= second_joins_at;
    let _ = i;
    if joined1 && !join_done {
      join_done = true;
      // a Volatile late joiner is told that what existed before it is not for it
      if !second_is_tl && written > 0 {
        for sn in 1..=written {
          gapped[1].insert(sn);
        }
        events.push(SEv::Gap { to: 1, from: 1, to_excl: written + 1 });
      }
    }
    match rng.below(10) {
      0..=3 => {
        written += 1;
        let lost = rng.chance(1, 3);
        if !lost {
          has[0].insert(written);
          if joined1 {
            has[1].insert(written);
          }
        }
        events.push(SEv::Push { lost });
      }
      4..=5 => {
        // repair something one reader misses
        let to = if joined1 { rng.below(2) as usize } else { 0 };
        let missing: Vec<i64> = (1..=written).filter(|sn| !has[to].contains(sn) && !gapped[to].contains(sn)).collect();
        if let Some(&sn) = missing.first() {
          let sn = if rng.chance(2, 3) { sn } else { *rng.pick(&missing) };
          if uniform {
            has[0].insert(sn);
            has[1].insert(sn);
            events.push(SEv::Repair { to: 2, sn });
          } else {
            has[to].insert(sn);
            events.push(SEv::Repair { to, sn });
          }
        }
      }
      6 => {
        // a GAP for a prefix-or-middle range one reader has not been sent (not for it): mostly for the late joiner
        let to = if joined1 && rng.chance(3, 4) { 1 } else { 0 };
        let missing: Vec<i64> = (1..=written).filter(|sn| !has[to].contains(sn) && !gapped[to].contains(sn)).collect();
        if let Some(&from) = missing.first() {
          let mut to_excl = from + 1;
          while missing.contains(&to_excl) && rng.chance(3, 4) {
            to_excl += 1;
          }
          if uniform {
            for sn in from..to_excl {
              gapped[0].insert(sn);
              gapped[1].insert(sn);
            }
            events.push(SEv::Gap { to: 2, from, to_excl });
          } else {
            for sn in from..to_excl {
              gapped[to].insert(sn);
            }
            events.push(SEv::Gap { to, from, to_excl });
          }
        }
      }
      7 => events.push(SEv::Heartbeat),
      _ => events.push(SEv::Take { who: if joined1 { rng.below(2) as usize } else { 0 } }),
    }
  }
  // a second reader that has not joined yet joins now, before the suffix
  let second_joins_at = if join_done { second_joins_at } else { events.len() };
  if !join_done && !second_is_tl && written > 0 {
    for sn in 1..=written {
      gapped[1].insert(sn);
    }
    events.push(SEv::Gap { to: 1, from: 1, to_excl: written + 1 });
  }
  // fault-free suffix: the writer repairs everything each reader still misses, heartbeat, both take
  for to in 0..2 {
    for sn in 1..=written {
      if !has[to].contains(&sn) && !gapped[to].contains(&sn) {
        if uniform {
          has[0].insert(sn);
          has[1].insert(sn);
          events.push(SEv::Repair { to: 2, sn });
        } else {
          has[to].insert(sn);
          events.push(SEv::Repair { to, sn });
        }
      }
    }
  }
  events.push(SEv::Heartbeat);
  events.push(SEv::Take { who: 0 });
  events.push(SEv::Take { who: 1 });
  SibCase { keyed, second_joins_at, second_is_tl, uniform, second_best_effort: late_best_effort, second_small_limits: false, events }
}

pub struct SibOutcome {
  /// best-effort second reader: samples handed over / of those, samples that were addressed to the other reader only (not judged)
  pub be_handed: u64,
  pub be_handed_not_sent_to_it: u64,
  pub handed: u64,
  pub sig: u64,
  pub nontrivial: bool,
}

fn wguid() -> [u8; 16] {
  let mut g = [0u8; 16];
  g[0] = 0x5B;
  g[1] = 1;
  g[13] = 0x44;
  g[14] = 1;
  g[15] = 0x02;
  g
}

pub fn run_case(case: &SibCase, acc: &mut Acc, tag: &Value) -> SibOutcome {
  let flavor = if case.keyed { Flavor::Keyed } else { Flavor::NoKey };
  let mut rb = ReaderBench::new(RbCfg { flavor, reliable: true, history: 0, max_samples: 1_000_000, reader_key: [0, 0, 0x51] });
  let g = wguid();
  let prefix: [u8; 12] = g[0..12].try_into().unwrap();
  let weid: [u8; 4] = {
    let mut e: [u8; 4] = g[12..16].try_into().unwrap();
    if !case.keyed {
      e[3] = 0x03;
    }
    e
  };
  let mut wg = g;
  wg[12..16].copy_from_slice(&weid);
  let reply = "127.0.0.1:33990".parse().unwrap();
  rb.match_writer(wg, true, reply);
  let mut eids: Vec<[u8; 4]> = vec![rb.reader_entity_id()];
  let mut joined1 = false;
  let replay = || json!({"case": tag, "history": case_json(case)});
  // per reader: what it was sent / gapped, and what it handed over
  let mut sent_to: [BTreeSet<i64>; 2] = [BTreeSet::new(), BTreeSet::new()];
  let mut gapped: [BTreeSet<i64>; 2] = [BTreeSet::new(), BTreeSet::new()];
  let mut handed: [Vec<i64>; 2] = [vec![], vec![]];
  let mut written = 0i64;
  let mut written_at_join = 0i64;
  let mut hb = 0i32;
  let mut out = SibOutcome { be_handed: 0, be_handed_not_sent_to_it: 0, handed: 0, sig: 0, nontrivial: false };
  let mut sigbuf: Vec<u8> = vec![];
  let payload = |sn: i64| -> Vec<u8> {
    if case.keyed {
      wire::payload(wire::CDR_LE, &wire::vsample_cdr((sn % 3) as u32, 5000 + sn as u32, &[sn as u8; 3], true))
    } else {
      wire::payload(wire::CDR_LE, &wire::vnokey_cdr(5000 + sn as u32, &[sn as u8; 3], true))
    }
  };
  // per-reader addressing is where the two readers' states can diverge; identical traffic must never go wrong
  let sfx = if case.second_small_limits { ":second-reader-has-small-resource-limits" } else if case.uniform { ":identical-traffic" } else { ":per-reader-traffic" };
  let mut violated = false;
  for (ei, ev) in case.events.iter().enumerate() {
    if violated {
      break;
    }
    if !joined1 && ei >= case.second_joins_at {
      let idx = if case.second_small_limits {
        rb.add_sibling_with_limits(flavor, true, true, [0, 0, 0x52], 16)
      } else {
        rb.add_sibling(flavor, !case.second_best_effort, case.second_joins_at == 0 || case.second_is_tl, [0, 0, 0x52])
      };
      rb.sibling_match_writer(idx, wg, true, reply);
      eids.push(rb.sibling_entity_id(idx));
      joined1 = true;
      written_at_join = written;
    }
    if std::env::var("VERIF_DEBUG").is_ok() {
      eprintln!("before event {ei} {ev:?}: cache holds {} changes", rb.topic_cache_len());
    }
    match ev {
      SEv::Push { lost } => {
        written += 1;
        sigbuf.push(if *lost { 1 } else { 2 });
        if !*lost {
          let mut dg = wire::header(&prefix);
          wire::info_ts(&mut dg, true, (1_720_000_000u64 << 32) | written as u64);
          wire::data(&mut dg, true, &DataMsg { reader_id: [0, 0, 0, 0], writer_id: weid, sn: written, inline_qos: None, payload: Some(payload(written)), key_flag: false });
          rb.inject(&dg);
          sent_to[0].insert(written);
          if joined1 {
            sent_to[1].insert(written);
          }
        }
      }
      SEv::Repair { to, sn } => {
        sigbuf.push(0x10 | *to as u8);
        if *to == 2 || *to < eids.len() {
          let rid = if *to == 2 { [0, 0, 0, 0] } else { eids[*to] };
          let mut dg = wire::header(&prefix);
          wire::info_ts(&mut dg, true, (1_720_000_000u64 << 32) | *sn as u64);
          wire::data(&mut dg, true, &DataMsg { reader_id: rid, writer_id: weid, sn: *sn, inline_qos: None, payload: Some(payload(*sn)), key_flag: false });
          rb.inject(&dg);
          for r in 0..eids.len() {
            if *to == 2 || *to == r {
              sent_to[r].insert(*sn);
            }
          }
        }
      }
      SEv::Gap { to, from, to_excl } => {
        sigbuf.push(0x20 | *to as u8);
        if *to == 2 || *to < eids.len() {
          let rid = if *to == 2 { [0, 0, 0, 0] } else { eids[*to] };
          let mut dg = wire::header(&prefix);
          wire::gap(&mut dg, true, rid, weid, *from, *to_excl, 0, &[]);
          rb.inject(&dg);
          for r in 0..eids.len() {
            if *to == 2 || *to == r {
              for sn in *from..*to_excl {
                gapped[r].insert(sn);
              }
            }
          }
        }
      }
      SEv::Heartbeat => {
        sigbuf.push(0x30);
        if written > 0 {
          hb += 1;
          let mut dg = wire::header(&prefix);
          wire::heartbeat(&mut dg, true, [0, 0, 0, 0], weid, 1, written, hb, false, false);
          rb.inject(&dg);
        }
      }
      SEv::Take { who } => {
        sigbuf.push(0x40 | *who as u8);
        if *who >= eids.len() {
          continue;
        }
        let op = ReadOp::Take { max: usize::MAX, not_read_only: false };
        let res = if *who == 0 { rb.op(&op) } else { rb.sibling_op(0, &op) };
        let obs = match res {
          Ok(v) => v,
          Err(e) => {
            acc.violate(format!("C01/error:take-failed-on-valid-data:two-local-readers{}", sfx), json!({"event": ei, "reader": who, "err": e}), replay());
            violated = true;
            continue;
          }
        };
        if std::env::var("VERIF_DEBUG").is_ok() {
          eprintln!("event {ei} take by reader {who}: {:?}", obs.iter().map(|o| format!("{:?}", o.val)).collect::<Vec<_>>());
        }
        for o in obs {
          let sn = match &o.val {
            ObsVal::Value { id, .. } => *id as i64 - 5000,
            ObsVal::Dispose { .. } => continue,
          };
          out.handed += 1;
          if *who == 1 && case.second_best_effort {
            // the only rule for the best-effort Volatile late joiner: nothing that existed before it
            if sn <= written_at_join {
              acc.violate(
                "C07/late-join:volatile-best-effort-reader-received-sample-written-before-it-existed:engine-level:sample-was-addressed-to-the-reliable-reader-next-to-it",
                json!({"event": ei, "sn": sn, "written_when_it_joined": written_at_join, "was_that_one_sent_to_this_reader": sent_to[1].contains(&sn), "sent_to_the_other_reader": sent_to[0].contains(&sn)}),
                replay(),
              );
              violated = true;
              break;
            }
            if !sent_to[1].contains(&sn) {
              out.be_handed_not_sent_to_it += 1;
            }
            out.be_handed += 1;
            handed[1].push(sn);
            continue;
          }
          // once, in order
          if let Some(&last) = handed[*who].last() {
            if sn <= last {
              acc.violate(
                format!("C01/{}:two-local-readers{}", if handed[*who].contains(&sn) { "dup:sample-handed-over-twice" } else { "order:sample-handed-over-after-a-later-one" }, sfx),
                json!({"event": ei, "reader": who, "sn": sn, "previous": last}),
                replay(),
              );
              violated = true;
              break;
            }
          }
          // no holes: everything below must have been handed over to THIS reader or declared irrelevant to THIS reader
          let hole: Option<i64> = (1..sn).find(|x| !handed[*who].contains(x) && !gapped[*who].contains(x));
          if let Some(h) = hole {
            acc.violate(
              format!("C01/hole:handed-over-past-undeclared-missing-sn:two-local-readers{}", sfx),
              json!({"event": ei, "reader": who, "sn": sn, "missing_below": h, "was_that_one_sent_to_this_reader": sent_to[*who].contains(&h), "sent_to_the_other_reader": sent_to[1 - *who].contains(&h), "gapped_for_the_other_reader": gapped[1 - *who].contains(&h)}),
              replay(),
            );
            violated = true;
            break;
          }
          handed[*who].push(sn);
        }
      }
    }
  }
  // complete: after the fault-free suffix each reader holds everything that was sent to it and not gapped for it
  if !violated {
    for who in 0..eids.len() {
      if who == 1 && (case.second_best_effort || case.second_small_limits) {
        continue;
      }
      let got: BTreeSet<i64> = handed[who].iter().copied().collect();
      let missing: Vec<i64> = sent_to[who].iter().copied().filter(|sn| !got.contains(sn) && !gapped[who].contains(sn)).collect();
      if !missing.is_empty() {
        acc.violate(
          format!("C01/lost:sample-sent-to-the-reader-never-handed-over:two-local-readers{}", sfx),
          json!({"reader": who, "missing": missing.iter().take(8).collect::<Vec<_>>(), "missing_count": missing.len(), "handed_over": handed[who].len(), "second_reader_joined_late": case.second_joins_at > 0}),
          replay(),
        );
        break;
      }
    }
  }
  let faults = case.events.iter().filter(|e| matches!(e, SEv::Push { lost: true } | SEv::Gap { .. })).count();
  out.nontrivial = faults > 0 && out.handed > 0;
  out.sig = fnv64(&sigbuf);
  let _ = BTreeMap::<u8, u8>::new();
  out
}
