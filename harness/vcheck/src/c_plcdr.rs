//! C15 front end: discovery data and QoS survive the wire, tolerate unknown
//! parameters, and absent optional parameters yield the prescribed defaults.
//!
//! The values are generated and (de)serialised inside the crate (`verif::plcdr`,
//! the implementation's own `to_pl_cdr_bytes` / `from_pl_cdr_bytes`). Everything
//! that touches bytes here is the harness's own: the parameter-list walker
//! (RTPS 2.5 sec. 9.4.2.11: {parameterId u16, length u16, value[length], length a
//! multiple of 4} ... PID_SENTINEL 0x0001), the insertion of foreign parameters
//! at parameter boundaries, and the encoder of the mandatory-only lists.
//!
//! NOTE on the encapsulation header: `to_pl_cdr_bytes` / `from_pl_cdr_bytes` work
//! on the bare parameter list; the 4-byte header (representation id + options)
//! belongs to SerializedPayload and is not part of these byte strings, so the
//! walker starts at offset 0 (`HEADER_LEN`).
use rustdds::verif::plcdr::{self, V};
use serde_json::{json, Value};

use crate::{
  ctx::{hex, par_cases, Acc, Args, Report},
  prng::{fnv64, Rng},
};

const STREAM: u64 = 0x1515;
const HEADER_LEN: usize = 0;
const PID_SENTINEL: u16 = 0x0001;

// ---------------------------------------------------------------------------
// Defaults judged by C15/defaults.
//
// Source: RTPS 2.5 sec. 9.6.3.2 "ParameterId definitions used to represent
// built-in endpoint data", table "ParameterId mapping and default values"
// (Table 9.13 in RTPS 2.3; same content), and, where that table says "See DDS
// specification", DDS 1.4 sec. 2.2.3 "Supported QoS" (table of policies, column
// "default"). Only the entries below are judged; a field the implementation
// models as Option may be reported absent ("-": the consumer applies the
// default) or as exactly the default, never as another value.
//
//   ParticipantProxy::expectsInlineQos    PID_EXPECTS_INLINE_QOS          FALSE
//   ParticipantProxy::leaseDuration       PID_PARTICIPANT_LEASE_DURATION  {100, 0}
//   ParticipantProxy::builtinEndpointQos  PID_BUILTIN_ENDPOINT_QOS        0
//   ReaderProxy::expectsInlineQos         PID_EXPECTS_INLINE_QOS          FALSE
//   DURABILITY         VOLATILE
//   PRESENTATION       INSTANCE, coherent_access FALSE, ordered_access FALSE
//   DEADLINE           period infinite
//   LATENCY_BUDGET     duration 0
//   OWNERSHIP          SHARED
//   LIVELINESS         AUTOMATIC, lease_duration infinite
//   TIME_BASED_FILTER  minimum_separation 0
//   RELIABILITY        BEST_EFFORT (DataReader, Topic); RELIABLE, max_blocking_time
//                      100 ms (DataWriter); for a bare QosPolicies either is accepted
//   DESTINATION_ORDER  BY_RECEPTION_TIMESTAMP
//   HISTORY            KEEP_LAST, depth 1
//   RESOURCE_LIMITS    LENGTH_UNLIMITED (-1) x 3
//   LIFESPAN           duration infinite
//
// Not judged (table says N/A or I am not certain): manualLivelinessCount,
// entity name, locator lists, participant GUID inside SEDP data, topic key,
// dataMaxSizeSerialized, content filter.
// infinite = Duration_t {0x7fffffff, 0xffffffff} (RTPS 2.5 sec. 9.3.2).
// ---------------------------------------------------------------------------
const INF: &str = "D2147483647.4294967295";

fn accepted_defaults(kind: u8, field: &str) -> Option<Vec<&'static str>> {
  let qos_field = field.strip_prefix("qos.").or(if kind == plcdr::KIND_QOS { Some(field) } else { None });
  if let Some(q) = qos_field {
    return Some(match q {
      "durability" => vec!["-", "Volatile"],
      "presentation" => vec!["-", "Instance/false/false"],
      "deadline" => vec!["-", INF],
      "latency_budget" => vec!["-", "D0.0"],
      "ownership" => vec!["-", "Shared"],
      "liveliness" => vec!["-", "Automatic/D2147483647.4294967295"],
      "time_based_filter" => vec!["-", "D0.0"],
      // 100 ms = 0.1 * 2^32 ticks = 429496729.6: either rounding
      "reliability" => match kind {
        plcdr::KIND_READER | plcdr::KIND_TOPIC => vec!["-", "BestEffort"],
        plcdr::KIND_WRITER => vec!["-", "Reliable/D0.429496729", "Reliable/D0.429496730"],
        _ => vec!["-", "BestEffort", "Reliable/D0.429496729", "Reliable/D0.429496730"],
      },
      "destination_order" => vec!["-", "ByReceptionTimestamp"],
      "history" => vec!["-", "KeepLast/1"],
      "resource_limits" => vec!["-", "-1/-1/-1"],
      "lifespan" => vec!["-", INF],
      _ => return None,
    });
  }
  match (kind, field) {
    (plcdr::KIND_PARTICIPANT, "expects_inline_qos") | (plcdr::KIND_READER, "expects_inline_qos") => Some(vec!["false"]),
    (plcdr::KIND_PARTICIPANT, "lease_duration") => Some(vec!["-", "D100.0"]),
    (plcdr::KIND_PARTICIPANT, "builtin_endpoint_qos") => Some(vec!["-", "0"]),
    _ => None,
  }
}

// ---------------------------------------------------------------------------
// the harness's own parameter-list walker / editor / encoder
// ---------------------------------------------------------------------------
#[derive(Clone, Debug)]
struct Walk {
  /// (offset of the parameter header, pid, value length)
  params: Vec<(usize, u16, usize)>,
  sentinel_at: usize,
  /// bytes after the sentinel (not part of the list)
  trailing: usize,
}

fn rd16(b: &[u8], be: bool) -> u16 {
  if be {
    u16::from_be_bytes([b[0], b[1]])
  } else {
    u16::from_le_bytes([b[0], b[1]])
  }
}
fn wr16(v: u16, be: bool) -> [u8; 2] {
  if be {
    v.to_be_bytes()
  } else {
    v.to_le_bytes()
  }
}
fn wr32(v: u32, be: bool) -> [u8; 4] {
  if be {
    v.to_be_bytes()
  } else {
    v.to_le_bytes()
  }
}

fn walk(bytes: &[u8], be: bool) -> Result<Walk, String> {
  let mut off = HEADER_LEN;
  let mut params = vec![];
  loop {
    if off + 4 > bytes.len() {
      return Err(format!("list ends at offset {off} without PID_SENTINEL"));
    }
    let pid = rd16(&bytes[off..], be);
    let len = rd16(&bytes[off + 2..], be) as usize;
    if pid == PID_SENTINEL {
      return Ok(Walk { params, sentinel_at: off, trailing: bytes.len() - (off + 4) });
    }
    if len % 4 != 0 {
      return Err(format!("parameter {pid:#06x} at offset {off} has length {len}, not a multiple of 4"));
    }
    if off + 4 + len > bytes.len() {
      return Err(format!("parameter {pid:#06x} at offset {off} with length {len} runs past the end ({})", bytes.len()));
    }
    params.push((off, pid, len));
    off += 4 + len;
  }
}

fn enc_param(out: &mut Vec<u8>, be: bool, pid: u16, value: &[u8]) {
  let pad = (4 - value.len() % 4) % 4;
  out.extend_from_slice(&wr16(pid, be));
  out.extend_from_slice(&wr16((value.len() + pad) as u16, be));
  out.extend_from_slice(value);
  out.extend(std::iter::repeat(0u8).take(pad));
}
fn enc_sentinel(out: &mut Vec<u8>, be: bool) {
  out.extend_from_slice(&wr16(PID_SENTINEL, be));
  out.extend_from_slice(&wr16(0, be));
}
/// CDR string: u32 length including the NUL, the octets, NUL (padding added by enc_param)
fn cdr_string(be: bool, s: &str) -> Vec<u8> {
  let mut v = wr32(s.len() as u32 + 1, be).to_vec();
  v.extend_from_slice(s.as_bytes());
  v.push(0);
  v
}

/// `ins[k]` = parameters to place at boundary k (k = index of the parameter they
/// precede; k = params.len() means directly in front of the sentinel)
fn insert_at(bytes: &[u8], w: &Walk, be: bool, ins: &[(usize, Vec<(u16, Vec<u8>)>)]) -> Vec<u8> {
  let mut out = Vec::with_capacity(bytes.len() + 80 * ins.len());
  let boundary_off = |k: usize| if k < w.params.len() { w.params[k].0 } else { w.sentinel_at };
  let mut cur = 0usize;
  let mut sorted: Vec<&(usize, Vec<(u16, Vec<u8>)>)> = ins.iter().collect();
  sorted.sort_by_key(|x| x.0);
  for (k, ps) in sorted {
    let at = boundary_off(*k);
    out.extend_from_slice(&bytes[cur..at]);
    cur = at;
    for (pid, val) in ps {
      enc_param(&mut out, be, *pid, val);
    }
  }
  out.extend_from_slice(&bytes[cur..]);
  out
}

// ---------------------------------------------------------------------------
// foreign parameter ids
// ---------------------------------------------------------------------------
#[derive(Clone, Copy, Debug, PartialEq, Eq)]
enum PidClass {
  /// protocol space (bit 15 clear), "ignore if unknown" (bit 14 clear), not assigned by RTPS / DDS-Security / XTypes / DDS-RPC
  Unknown,
  /// vendor-specific (bit 15 set), bit 14 clear
  Vendor,
  /// assigned by RTPS / XTypes but not interpreted by any of the parsers under test (no field models them)
  Uninterpreted,
  /// bit 14 (0x4000, must-understand) set: RTPS lets a receiver that does not understand it refuse the data
  MustUnderstand,
}
impl PidClass {
  fn name(self) -> &'static str {
    match self {
      PidClass::Unknown => "unknown",
      PidClass::Vendor => "vendor",
      PidClass::Uninterpreted => "uninterpreted",
      PidClass::MustUnderstand => "must-understand",
    }
  }
}
/// PID_PAD, USER_DATA, PARTITION, GROUP_DATA, TOPIC_DATA, DURABILITY_SERVICE, TRANSPORT_PRIORITY,
/// DOMAIN_ID, GROUP_ENTITYID, DATA_REPRESENTATION, TYPE_CONSISTENCY_ENFORCEMENT, TYPE_INFORMATION
const UNINTERPRETED: &[u16] = &[0x0000, 0x002c, 0x0029, 0x002d, 0x002e, 0x001e, 0x0049, 0x000f, 0x0053, 0x0073, 0x0074, 0x0075];

fn foreign_pid(r: &mut Rng, class: PidClass) -> u16 {
  match class {
    PidClass::Unknown => match r.below(4) {
      0 => 0x3f01,
      1 => 0x3f00,
      2 => 0x2000,
      _ => 0x2000 + r.below(0x2000) as u16, // 0x2000..=0x3fff
    },
    PidClass::Vendor => loop {
      let p = match r.below(5) {
        0 => 0x8000,
        1 => 0x8001,
        2 => 0xbfff,
        3 => 0x8fff,
        _ => 0x8000 + r.below(0x4000) as u16, // 0x8000..=0xbfff
      };
      if p != 0x800f {
        // 0x800f is PID_RELATED_SAMPLE_IDENTITY_CUSTOM, known to the implementation
        break p;
      }
    },
    PidClass::Uninterpreted => *r.pick(UNINTERPRETED),
    PidClass::MustUnderstand => match r.below(4) {
      0 => 0x7f00,
      1 => 0x4abc,
      2 => 0xc001,
      _ => 0x6000 + r.below(0x1f00) as u16,
    },
  }
}

fn foreign_param(r: &mut Rng, class: PidClass, len_words: u64) -> (u16, Vec<u8>) {
  (foreign_pid(r, class), r.bytes(4 * len_words as usize))
}

// ---------------------------------------------------------------------------
// comparison helpers
// ---------------------------------------------------------------------------
/// fields that differ: (name, before, after)
fn field_diff(a: &[(String, String)], b: &[(String, String)]) -> Vec<(String, String, String)> {
  let mut d = vec![];
  for (n, va) in a {
    match b.iter().find(|(m, _)| m == n) {
      Some((_, vb)) if vb == va => {}
      Some((_, vb)) => d.push((n.clone(), va.clone(), vb.clone())),
      None => d.push((n.clone(), va.clone(), "<field missing>".to_string())),
    }
  }
  for (n, vb) in b {
    if !a.iter().any(|(m, _)| m == n) {
      d.push((n.clone(), "<field missing>".to_string(), vb.clone()));
    }
  }
  d
}
fn change_word(before: &str, after: &str) -> &'static str {
  if before != "-" && before != "[]" && (after == "-" || after == "[]") {
    "lost"
  } else if (before == "-" || before == "[]") && after != "-" && after != "[]" {
    "invented"
  } else {
    "changed"
  }
}
fn cut(s: &str, n: usize) -> String {
  s.chars().take(n).collect()
}

/// Compares two values (PartialEq verdict of the implementation + rendered fields).
/// Returns the list of (signature suffix, detail).
fn compare(a: &V, b: &V, always_render: bool) -> Vec<(String, Value)> {
  let eq = a.same_as(b);
  if eq && !always_render {
    return vec![];
  }
  let d = field_diff(&a.fields(), &b.fields());
  let mut out = vec![];
  for (n, x, y) in d.iter().take(4) {
    out.push((format!("{n}:{}", change_word(x, y)), json!({"field": n, "before": cut(x, 300), "after": cut(y, 300), "partial_eq_says_equal": eq})));
  }
  if !eq && d.is_empty() {
    out.push(("PartialEq-differs-but-no-rendered-field-differs".to_string(), json!({"before_debug": cut(&a.debug(), 1500), "after_debug": cut(&b.debug(), 1500)})));
  }
  out
}

// ---------------------------------------------------------------------------
// cases
// ---------------------------------------------------------------------------
fn value_case(seed: u64, i: u64, kind: u8, r: &mut Rng, acc: &mut Acc) {
  let kname = plcdr::kind_name(kind);
  let vseed = r.next();
  let v = V::generate(kind, vseed);
  acc.evaluations += 1;
  acc.count(&format!("values:{kname}"), 1);
  let pres = v.presence();
  for (f, p) in &pres {
    acc.count(&format!("{}:{kname}.{f}", if *p { "present" } else { "absent" }), 1);
  }
  let case = || json!({"seed": seed, "stream": STREAM, "index": i});
  let mut le_bytes: Option<Vec<u8>> = None;
  for be in [false, true] {
    let enc = if be { "BE" } else { "LE" };
    let rp = |extra: Value| {
      let mut m = json!({"case": case(), "kind": kname, "value_seed": vseed, "encoding": enc});
      if let (Some(o), Some(e)) = (m.as_object_mut(), extra.as_object()) {
        for (k, x) in e {
          o.insert(k.clone(), x.clone());
        }
      }
      m
    };
    let bytes = match v.to_bytes(be) {
      Ok(b) => b,
      Err(e) => {
        acc.violate(format!("C15/roundtrip:{kname}:serialise-fails"), json!({"err": cut(&e, 300), "encoding": enc}), rp(json!({"value": cut(&v.debug(), 1500)})));
        continue;
      }
    };
    if !be {
      le_bytes = Some(bytes.clone());
    }
    // ---- C15/roundtrip
    let back = match V::parse(kind, be, &bytes) {
      Ok(b) => b,
      Err(e) => {
        acc.violate(
          format!("C15/roundtrip:{kname}:own-bytes-do-not-parse"),
          json!({"err": cut(&e, 300), "encoding": enc}),
          rp(json!({"bytes": hex(&bytes), "value": cut(&v.debug(), 1500)})),
        );
        continue;
      }
    };
    acc.count(if be { "roundtrips_be" } else { "roundtrips_le" }, 1);
    // render the fields of every 4th value even when PartialEq says equal (cross-check of the two observations)
    let render = (i / 8) % 4 == 0;
    if render {
      acc.count("fields_crosschecked", 1);
    }
    for (sig, det) in compare(&v, &back, render) {
      acc.violate(
        format!("C15/roundtrip:{kname}:{sig}"),
        json!({"encoding": enc, "diff": det}),
        rp(json!({"bytes": hex(&bytes), "before": cut(&v.debug(), 1500), "after": cut(&back.debug(), 1500)})),
      );
    }
    if !plcdr::is_parameter_list(kind) {
      continue;
    }
    // ---- the harness's own walk of what the implementation wrote
    let w = match walk(&bytes, be) {
      Ok(w) => w,
      Err(e) => {
        acc.violate(format!("C15/roundtrip:{kname}:serialised-form-is-not-a-well-formed-parameter-list"), json!({"walker": e, "encoding": enc}), rp(json!({"bytes": hex(&bytes)})));
        continue;
      }
    };
    acc.count("parameters_walked", w.params.len() as u64);
    if w.trailing > 0 {
      acc.count("lists_with_bytes_after_sentinel", 1);
    }
    // ---- C15/unknown-pid: one foreign parameter at each boundary in turn
    let nb = w.params.len() + 1;
    for k in 0..nb {
      let class = match (k as u64 + i + be as u64) % 4 {
        0 => PidClass::Unknown,
        1 => PidClass::Vendor,
        2 => PidClass::Uninterpreted,
        _ => {
          if r.chance(1, 3) {
            PidClass::MustUnderstand
          } else if r.chance(1, 2) {
            PidClass::Unknown
          } else {
            PidClass::Vendor
          }
        }
      };
      let words = r.below(17); // 0..=64 bytes in steps of 4
      let p = foreign_param(r, class, words);
      let modified = insert_at(&bytes, &w, be, &[(k, vec![p.clone()])]);
      let where_ = if k == 0 {
        "insert_at_first_boundary"
      } else if k + 1 == nb {
        "insert_before_sentinel"
      } else {
        "insert_between_parameters"
      };
      acc.count(where_, 1);
      acc.count(&format!("insert_len_{:02}", 4 * words), 1);
      acc.count(&format!("{}_pid_parses", class.name()), 1);
      judge_modified(acc, kind, be, &back, &modified, class, &|| {
        rp(json!({"base_bytes": hex(&bytes), "modified_bytes": hex(&modified), "boundary": k, "boundaries": nb, "inserted_pid": format!("{:#06x}", p.0), "inserted_len": p.1.len()}))
      });
    }
    // ---- all boundaries at once, 1-2 foreign parameters each
    let mut ins = vec![];
    for k in 0..nb {
      let mut ps = vec![];
      for _ in 0..1 + r.below(2) {
        let class = *r.pick(&[PidClass::Unknown, PidClass::Vendor, PidClass::Uninterpreted]);
        let words = r.below(17);
        ps.push(foreign_param(r, class, words));
      }
      ins.push((k, ps));
    }
    let modified = insert_at(&bytes, &w, be, &ins);
    acc.count("multi_insert_parses", 1);
    judge_modified(acc, kind, be, &back, &modified, PidClass::Unknown, &|| {
      rp(json!({"base_bytes": hex(&bytes), "modified_bytes": hex(&modified), "boundary": "all", "boundaries": nb}))
    });
  }
  if let Some(b) = &le_bytes {
    if pres.iter().any(|(_, p)| *p) {
      acc.distinct.insert(fnv64(b) ^ (kind as u64) << 56);
    }
    if i < 2 {
      acc.sample(json!({"case": case(), "kind": kname, "value_seed": vseed, "le_bytes": hex(b), "present": pres.iter().filter(|(_, p)| *p).map(|(f, _)| f.clone()).collect::<Vec<_>>()}), 2);
    }
  }
}

fn judge_modified(acc: &mut Acc, kind: u8, be: bool, baseline: &V, modified: &[u8], class: PidClass, rp: &dyn Fn() -> Value) {
  let kname = plcdr::kind_name(kind);
  match V::parse(kind, be, modified) {
    Err(e) => {
      if class == PidClass::MustUnderstand && !e.starts_with("PANIC") {
        // a receiver may refuse data carrying a must-understand parameter it does not know
        acc.count("must_understand_refused", 1);
      } else {
        acc.violate(format!("C15/unknown-pid:{kname}:{}:list-with-foreign-parameter-does-not-parse", class.name()), json!({"err": cut(&e, 300)}), rp());
      }
    }
    Ok(got) => {
      // one violation per disturbed parse; the fields that moved are in the detail, not in the signature
      let d = compare(baseline, &got, false);
      if !d.is_empty() {
        let fields: Vec<&String> = d.iter().map(|x| &x.0).collect();
        let diffs: Vec<&Value> = d.iter().map(|x| &x.1).collect();
        acc.violate(format!("C15/unknown-pid:{kname}:{}:known-field-disturbed", class.name()), json!({"fields": fields, "diff": diffs}), rp());
      }
    }
  }
}

/// mandatory-only list built by the harness; returns (bytes, expected mandatory fields, manual liveliness count included?)
fn mandatory_list(kind: u8, be: bool, r: &mut Rng, with_foreign: bool, participant_entity: bool) -> (Vec<u8>, Vec<(String, String)>, bool) {
  let mut params: Vec<(u16, Vec<u8>)> = vec![];
  let mut expect: Vec<(String, String)> = vec![];
  let mut with_mlc = true;
  let name = |r: &mut Rng| -> String {
    let n = 1 + r.below(24) as usize;
    (0..n).map(|_| *r.pick(&['a', 'b', 'Z', '_', '9', ':', 'q']) as char).collect()
  };
  match kind {
    plcdr::KIND_PARTICIPANT => {
      let (maj, min) = (2u8, r.below(6) as u8);
      params.push((0x0015, vec![maj, min])); // PID_PROTOCOL_VERSION: 2 octets (+2 padding)
      expect.push(("protocol_version".into(), format!("{maj}.{min}")));
      let vid = [1u8, r.below(0x20) as u8];
      params.push((0x0016, vid.to_vec())); // PID_VENDORID: 2 octets (+2 padding)
      expect.push(("vendor_id".into(), hex(&vid)));
      let mut g = r.bytes(16);
      if participant_entity {
        g[12..16].copy_from_slice(&[0, 0, 1, 0xc1]); // ENTITYID_PARTICIPANT
      }
      params.push((0x0050, g.clone())); // PID_PARTICIPANT_GUID: 16 octets, no byte order
      expect.push(("participant_guid".into(), hex(&g)));
      let set = r.next() as u32;
      params.push((0x0058, wr32(set, be).to_vec())); // PID_BUILTIN_ENDPOINT_SET: u32
      expect.push(("available_builtin_endpoints".into(), set.to_string()));
      // manualLivelinessCount has no default in the table (N/A): present in half of the lists, never judged when absent
      with_mlc = r.chance(1, 2);
      if with_mlc {
        let c = r.next() as u32 as i32;
        params.push((0x0034, wr32(c as u32, be).to_vec())); // PID_PARTICIPANT_MANUAL_LIVELINESS_COUNT: Count_t (i32)
        expect.push(("manual_liveliness_count".into(), c.to_string()));
      }
    }
    plcdr::KIND_READER | plcdr::KIND_WRITER => {
      let g = r.bytes(16);
      params.push((0x005a, g.clone())); // PID_ENDPOINT_GUID
      expect.push((if kind == plcdr::KIND_READER { "remote_reader_guid" } else { "remote_writer_guid" }.into(), hex(&g)));
      expect.push(("key".into(), hex(&g)));
      let (t, y) = (name(r), name(r));
      params.push((0x0005, cdr_string(be, &t))); // PID_TOPIC_NAME
      params.push((0x0007, cdr_string(be, &y))); // PID_TYPE_NAME
      expect.push(("topic_name".into(), format!("s:{t}")));
      expect.push(("type_name".into(), format!("s:{y}")));
    }
    plcdr::KIND_TOPIC => {
      let (t, y) = (name(r), name(r));
      params.push((0x0005, cdr_string(be, &t)));
      params.push((0x0007, cdr_string(be, &y)));
      expect.push(("name".into(), format!("s:{t}")));
      expect.push(("type_name".into(), format!("s:{y}")));
    }
    _ => {}
  }
  r.shuffle(&mut params); // parameter order within a list is free
  let mut out = vec![];
  let foreign = |r: &mut Rng, out: &mut Vec<u8>| {
    if with_foreign && r.chance(1, 2) {
      let class = *r.pick(&[PidClass::Unknown, PidClass::Vendor, PidClass::Uninterpreted]);
      let words = r.below(17);
      let (pid, val) = foreign_param(r, class, words);
      enc_param(out, be, pid, &val);
    }
  };
  for (pid, val) in &params {
    foreign(r, &mut out);
    enc_param(&mut out, be, *pid, val);
  }
  foreign(r, &mut out);
  enc_sentinel(&mut out, be);
  (out, expect, with_mlc)
}

fn defaults_case(seed: u64, i: u64, kind: u8, r: &mut Rng, acc: &mut Acc) {
  let kname = plcdr::kind_name(kind);
  let be = r.chance(1, 2);
  let with_foreign = r.chance(1, 2);
  let (bytes, expect, with_mlc) = mandatory_list(kind, be, r, with_foreign, false);
  acc.evaluations += 1;
  acc.count(&format!("defaults_cases:{kname}"), 1);
  let rp = || json!({"case": {"seed": seed, "stream": STREAM, "index": i}, "kind": kname, "encoding": if be { "BE" } else { "LE" }, "bytes": hex(&bytes), "mandatory": expect});
  let v = match V::parse(kind, be, &bytes) {
    Ok(v) => v,
    Err(e) => {
      if !with_mlc && !e.starts_with("PANIC") {
        // lists without manualLivelinessCount are not judged when refused (no default in the table)
        acc.count("defaults_unjudged_refusals", 1);
      } else {
        acc.violate(format!("C15/defaults:{kname}:mandatory-only-list-refused"), json!({"err": cut(&e, 300)}), rp());
      }
      return;
    }
  };
  let fields = v.fields();
  for (n, want) in &expect {
    match fields.iter().find(|(m, _)| m == n) {
      Some((_, got)) if got == want => {}
      other => {
        acc.violate(format!("C15/defaults:{kname}:mandatory-field-misread:{n}"), json!({"field": n, "encoded": want, "parsed": other.map(|x| x.1.clone())}), rp());
      }
    }
  }
  let mut judged = 0;
  for (n, got) in &fields {
    if expect.iter().any(|(m, _)| m == n) {
      continue;
    }
    if let Some(ok) = accepted_defaults(kind, n) {
      judged += 1;
      if !ok.contains(&got.as_str()) {
        acc.violate(format!("C15/defaults:{kname}:{n}:absent-parameter-yields-non-default"), json!({"field": n, "parsed": got, "accepted": ok}), rp());
      } else if got == "-" {
        acc.count("defaults_reported_absent", 1);
      } else {
        acc.count("defaults_reported_as_value", 1);
      }
    }
  }
  acc.count("default_fields_judged", judged);
  acc.distinct.insert(fnv64(&bytes) ^ 0xdef0 << 48);
  if i < 16 {
    acc.sample(json!({"case": {"seed": seed, "stream": STREAM, "index": i}, "kind": kname, "mandatory_only_bytes": hex(&bytes), "parsed": fields}), 2);
  }
}

const PL_KINDS: [u8; 5] = [plcdr::KIND_PARTICIPANT, plcdr::KIND_READER, plcdr::KIND_WRITER, plcdr::KIND_TOPIC, plcdr::KIND_QOS];

pub fn run_c15(args: &Args) -> i32 {
  let mut rep = Report::new(
    args,
    "values of SpdpDiscoveredParticipantData, DiscoveredReaderData, DiscoveredWriterData, DiscoveredTopicData, QosPolicies and ParticipantMessageData drawn inside the crate from (seed, stream 0x1515, index): every optional field (12 QoS policies, lease duration, endpoint QoS, entity name, participant key, content filter, max size, DDS-RPC fields, topic key, 4+2 locator lists, liveliness data) present/absent independently, durations ZERO/INFINITE/100 s/100 ms/1 tick/full-range ticks, locators of all five variants, strings of every length residue mod 4 incl. empty and multi-byte UTF-8; each value serialised by the implementation in PL_CDR_LE and PL_CDR_BE (CDR_LE/CDR_BE for ParticipantMessageData), parsed back, then re-parsed with one foreign parameter (length 0..64 in steps of 4) inserted by the harness's own walker at every parameter boundary in turn and with 1-2 foreign parameters at all boundaries at once; 1 case in 8 is a harness-encoded list of only the mandatory parameters (random order, optionally interleaved foreign parameters); distinct = hash of the LE bytes; non-trivial = at least one optional field present (value cases) / every mandatory-only list",
  );
  rep.assume("updated_time / last_updated are stamped locally on parse and are not on the wire: left out of every comparison (by design of the wire format)");
  rep.assume("ReaderProxy.remote_reader_guid = SubscriptionBuiltinTopicData.key and WriterProxy.remote_writer_guid = PublicationBuiltinTopicData.key in generated values (one PID_ENDPOINT_GUID carries both); SocketAddrV6 flowinfo/scope_id kept 0 (Locator_t has no such members); Locator::Other never uses kinds -1,0,1,2 (they are the dedicated variants); topic_aliases is None or a non-empty list (Some(empty) has the same wire form as None); strings contain no NUL");
  rep.assume("C15/unknown-pid judges parameter ids the implementation does not interpret: unassigned protocol ids 0x2000-0x3fff, vendor ids 0x8000-0xbfff (without 0x800f), and the assigned-but-unmodelled ids listed in UNINTERPRETED; all with bit 14 (must-understand) clear. For ids with bit 14 set (e.g. 0x7f00) RTPS lets a receiver refuse the data, so a parse error is accepted there and only a successful parse with disturbed known fields is a violation. Foreign parameter lengths are multiples of 4 as RTPS 9.4.2.11 requires");
  rep.assume("C15/defaults: a field modelled as Option may come back absent (the consumer applies the default) or as exactly the prescribed default; only the defaults listed at the top of c_plcdr.rs are judged; lists lacking manualLivelinessCount (no default in the table) are not judged when refused");
  rep.assume("ParticipantMessageData travels as plain CDR, not as a parameter list: only C15/roundtrip applies to it");
  let ncases = args.scale(50_000, 6_000_000);
  let seed = args.seed;
  let replay_case = crate::replay_index(args);

  // lease probe (75 s): thorough tier, or VERIF_C15_LEASE_PROBE=1, or the replay of a probe witness
  let probe_replay = args
    .replay
    .as_ref()
    .and_then(|p| std::fs::read_to_string(p).ok())
    .and_then(|s| serde_json::from_str::<Value>(&s).ok())
    .map_or(false, |v| v["replay"]["case"]["stream"].as_u64() == Some(STREAM ^ 0xffff));
  // a probe witness replays the probe only (no value case has that index in the probe's stream)
  let replay_case = if probe_replay { Some(u64::MAX) } else { replay_case };
  let probe_on = match std::env::var("VERIF_C15_LEASE_PROBE").ok().as_deref() {
    _ if probe_replay => true,
    Some("1") => true,
    Some("0") => false,
    _ => args.thorough() && replay_case.is_none(),
  };
  let probe = if probe_on {
    let mut r = Rng::derive(seed, STREAM ^ 0xffff, 0);
    let (bytes, _, _) = mandatory_list(plcdr::KIND_PARTICIPANT, false, &mut r, false, true);
    let b2 = bytes.clone();
    Some((bytes, std::thread::spawn(move || plcdr::lease_probe(&b2, false, 75_000))))
  } else {
    None
  };

  let mut acc = par_cases(args.threads(), ncases, |i, acc| {
    if replay_case.map_or(false, |rc| rc != i) {
      return;
    }
    let mut r = Rng::derive(seed, STREAM, i);
    match i % 8 {
      7 => defaults_case(seed, i, PL_KINDS[((i / 8) % 5) as usize], &mut r, acc),
      5 => value_case(seed, i, plcdr::KIND_PMSG, &mut r, acc),
      6 => value_case(seed, i, PL_KINDS[((i / 8) % 5) as usize], &mut r, acc),
      k => value_case(seed, i, PL_KINDS[k as usize], &mut r, acc),
    }
  });

  if let Some((bytes, h)) = probe {
    match h.join() {
      Ok(p) => {
        acc.count("lease_probe_runs", 1);
        let rp = json!({"case": {"seed": seed, "stream": STREAM ^ 0xffff, "index": 0}, "spdp_bytes_without_lease_duration": hex(&bytes), "probe": format!("{p:?}")});
        if p.parse_error.is_some() || !p.accepted_by_db {
          acc.inconclusive.push(format!("lease probe could not be set up: {p:?}"));
        } else {
          if p.parsed_lease != "-" && p.parsed_lease != "D100.0" {
            acc.violate("C15/defaults:SpdpDiscoveredParticipantData:lease_duration:absent-parameter-yields-non-default", json!({"parsed": p.parsed_lease}), rp.clone());
          }
          // RTPS 2.5 table "ParameterId mapping and default values": PID_PARTICIPANT_LEASE_DURATION default {100, 0}
          if p.dropped && p.waited_s < 100.0 {
            acc.violate(
              "C15/defaults:SpdpDiscoveredParticipantData:absent-lease-duration-expires-before-100s",
              json!({"waited_s": p.waited_s, "lease_reported_by_db_s": p.reported_lease_s, "prescribed_default_s": 100}),
              rp,
            );
          }
        }
      }
      Err(_) => acc.inconclusive.push("lease probe thread panicked".to_string()),
    }
    rep.require("lease_probe_runs", 1);
  }

  if replay_case.is_none() {
    let q = |n: u64| (n * ncases / 50_000).max(1).min(n * 4);
    for k in 0..6u8 {
      let kname = plcdr::kind_name(k);
      rep.require(&format!("values:{kname}"), q(2000));
      // every optional field seen present and absent
      for (f, _) in V::generate(k, 1).presence() {
        rep.require(&format!("present:{kname}.{f}"), q(200));
        rep.require(&format!("absent:{kname}.{f}"), q(200));
      }
    }
    for k in PL_KINDS {
      rep.require(&format!("defaults_cases:{}", plcdr::kind_name(k)), q(500));
    }
    rep.require("roundtrips_le", q(20_000));
    rep.require("roundtrips_be", q(20_000));
    rep.require("fields_crosschecked", q(2000));
    for c in ["unknown", "vendor", "uninterpreted", "must-understand"] {
      rep.require(&format!("{c}_pid_parses"), q(10_000));
    }
    for w in 0..17 {
      rep.require(&format!("insert_len_{:02}", 4 * w), q(2000));
    }
    for w in ["insert_at_first_boundary", "insert_before_sentinel", "insert_between_parameters", "multi_insert_parses"] {
      rep.require(w, q(10_000));
    }
    rep.require("default_fields_judged", q(10_000));
  }
  rep.finish(acc)
}
