//! E-HOSTILE (C06): structure-aware hostile datagrams against a reliable keyed reader,
//! a best-effort no_key reader and a reliable writer, with per-datagram monitors:
//! panic (with the first in-library frame), thread CPU time, heap high-water mark,
//! single-allocation guard, and an aftermath check with a well-behaved peer.
use std::{
  panic::{catch_unwind, AssertUnwindSafe},
  sync::Mutex,
};

use rustdds::verif::{
  rbench::{Flavor, ObsVal, RbCfg, ReadOp, ReaderBench},
  types::VSample,
  wbench::{WbCfg, WriterBench},
};
use serde_json::{json, Value};

use crate::{
  alloc,
  ctx::{hex, Acc},
  prng::Rng,
  shard::{self, Bracket},
  wire::{self, DataFragMsg, DataMsg, InlineQos},
  wtr::{reader_guid, reader_port},
};

static LAST_PANIC: Mutex<Option<(String, Vec<String>)>> = Mutex::new(None);

pub fn install_panic_hook() {
  std::panic::set_hook(Box::new(|info| {
    let msg = info.to_string();
    let frames = shard::repo_frames(4);
    *LAST_PANIC.lock().unwrap() = Some((msg, frames));
  }));
}

fn thread_cpu() -> f64 {
  let mut ts = libc::timespec { tv_sec: 0, tv_nsec: 0 };
  unsafe { libc::clock_gettime(libc::CLOCK_THREAD_CPUTIME_ID, &mut ts) };
  ts.tv_sec as f64 + ts.tv_nsec as f64 * 1e-9
}

pub const CPU_DISPROPORTIONATE_S: f64 = 0.2;
pub fn mem_budget(len: usize) -> usize {
  64 * len + (1 << 20)
}

fn boundary_i64(rng: &mut Rng) -> i64 {
  *rng.pick(&[0i64, 1, -1, 2, 255, 256, 257, (1 << 31) - 1, 1 << 31, (1 << 32) - 1, 1 << 32, (1 << 32) + 1, 1 << 40, i64::MAX, i64::MAX - 1, i64::MIN, i64::MIN + 1, -(1 << 32)])
}
fn boundary_u32(rng: &mut Rng) -> u32 {
  *rng.pick(&[0u32, 1, 2, 31, 32, 33, 255, 256, 257, 65535, 65536, 1 << 31, u32::MAX, u32::MAX - 1])
}
fn boundary_u16(rng: &mut Rng) -> u16 {
  *rng.pick(&[0u16, 1, 2, 3, 4, 7, 8, 64, 255, 256, 1024, 32767, 32768, 65535])
}

pub struct Ids {
  pub own_prefix: [u8; 12],
  pub rel_reader: [u8; 4],
  pub be_reader: [u8; 4],
  pub writer: [u8; 4],
  /// matched (spoofable) remote writer towards the keyed reliable reader
  pub wa: [u8; 16],
  /// matched remote writer towards the no_key best-effort reader
  pub wa_nokey: [u8; 16],
}

fn wa_guid(keyed: bool) -> [u8; 16] {
  let mut g = [0u8; 16];
  g[0] = 0xAA;
  g[1] = if keyed { 1 } else { 2 };
  g[13] = 0x60;
  g[14] = 1;
  g[15] = if keyed { 0x02 } else { 0x03 };
  g
}
fn wb_guid() -> [u8; 16] {
  let mut g = [0u8; 16];
  g[0] = 0xBB;
  g[1] = 7;
  g[13] = 0x61;
  g[14] = 1;
  g[15] = 0x02;
  g
}

/// One hostile (or state-building valid) datagram with a label naming the attack class.
pub fn gen_datagram(rng: &mut Rng, ids: &Ids, st: &mut GenState) -> (String, Vec<u8>) {
  let le = !rng.chance(1, 5);
  let keyed = rng.chance(2, 3);
  let src = if rng.chance(1, 8) {
    let mut g = [0u8; 16];
    g[..].copy_from_slice(&rng.bytes(16));
    g
  } else if keyed {
    ids.wa
  } else {
    ids.wa_nokey
  };
  let prefix: [u8; 12] = src[0..12].try_into().unwrap();
  let weid: [u8; 4] = src[12..16].try_into().unwrap();
  let rid = match rng.below(6) {
    0 => wire::ENTITYID_UNKNOWN,
    1 => [rng.next() as u8, 0, 0, 0x07],
    _ => {
      if keyed {
        ids.rel_reader
      } else {
        ids.be_reader
      }
    }
  };
  let mut out = wire::header(&prefix);
  if rng.chance(1, 3) {
    wire::info_dst(&mut out, le, &ids.own_prefix);
  }
  let choice = rng.below(100);
  let label: String;
  if choice < 10 {
    // ---- valid state-building traffic
    st.sn += 1;
    let id = st.sn as u32;
    wire::info_ts(&mut out, le, (1_700_000_000u64 << 32) | id as u64);
    let body = if keyed { wire::vsample_cdr(id % 3, id, &[1, 2, 3], le) } else { wire::vnokey_cdr(id, &[1, 2, 3], le) };
    wire::data(&mut out, le, &DataMsg { reader_id: rid, writer_id: weid, sn: st.sn, inline_qos: None, payload: Some(wire::payload(if le { wire::CDR_LE } else { wire::CDR_BE }, &body)), key_flag: false });
    if rng.chance(1, 2) {
      st.hb += 1;
      wire::heartbeat(&mut out, le, rid, weid, 1, st.sn, st.hb, false, false);
    }
    label = "valid-data".into();
  } else if choice < 16 {
    // valid partial fragments (build assembler state)
    st.sn += 1;
    let total = 3 + rng.below(4) as u32;
    let fs = 16u16;
    let size = total * fs as u32 - rng.below(8) as u32;
    let f = 1 + rng.below(total as u64) as u32;
    let from = (f - 1) as usize * fs as usize;
    let to = (from + fs as usize).min(size as usize);
    wire::data_frag(&mut out, le, &DataFragMsg { reader_id: rid, writer_id: weid, sn: st.sn, frag_start: f, frags_in_submsg: 1, frag_size: fs, sample_size: size, inline_qos: None, key_flag: false, bytes: vec![0x5a; to - from] }, true);
    st.partial_sn = Some((st.sn, total, fs, size));
    label = "valid-partial-fragment".into();
  } else if choice < 24 {
    let first = if rng.chance(1, 2) { 1 + rng.below(5) as i64 } else { boundary_i64(rng) };
    let span = *rng.pick(&[1i64 << 20, 1 << 24, 1 << 31, 1 << 40, i64::MAX / 2]);
    st.hb += 1;
    wire::heartbeat(&mut out, le, rid, weid, first, first.saturating_add(span), st.hb, rng.chance(1, 2), false);
    label = "heartbeat-wide-range".into();
  } else if choice < 30 {
    let c = if rng.chance(1, 2) {
      st.hb += 1;
      st.hb
    } else {
      boundary_i64(rng) as i32
    };
    wire::heartbeat(&mut out, le, rid, weid, boundary_i64(rng), boundary_i64(rng), c, rng.chance(1, 2), rng.chance(1, 4));
    label = "heartbeat-boundary-values".into();
  } else if choice < 38 {
    let start = st.sn.max(1) + 2 + rng.below(5) as i64;
    let span = *rng.pick(&[1i64 << 18, 1 << 22, 1 << 31, 1 << 40, i64::MAX / 4]);
    let nbits = *rng.pick(&[0u32, 1, 32, 256]);
    wire::gap(&mut out, le, rid, weid, start, start.saturating_add(span), nbits, &[]);
    label = "gap-wide-range".into();
  } else if choice < 44 {
    let base = boundary_i64(rng);
    let nbits = boundary_u32(rng);
    let mut w = wire::W::new(le);
    w.bytes(&rid);
    w.bytes(&weid);
    w.sn(boundary_i64(rng));
    w.sn(base);
    w.u32(nbits);
    for _ in 0..rng.below(10) {
      w.u32(rng.next() as u32);
    }
    wire::submsg(&mut out, wire::ID_GAP, 0, le, &w.buf);
    label = "gap-boundary-values".into();
  } else if choice < 52 {
    // fragment numbers beyond the total
    let (sn, total, fs, size) = st.partial_sn.filter(|_| rng.chance(1, 2)).unwrap_or((st.sn + 1 + rng.below(3) as i64, 2 + rng.below(3) as u32, 16, 40));
    let start = *rng.pick(&[total, total + 1, total.saturating_sub(1).max(1), 1, 0, u32::MAX]);
    let count = *rng.pick(&[2u16, 5, 255, 65535, 1, 0]);
    let blen = (count as usize * fs as usize).min(300);
    wire::data_frag(&mut out, le, &DataFragMsg { reader_id: rid, writer_id: weid, sn, frag_start: start, frags_in_submsg: count, frag_size: fs, sample_size: size, inline_qos: None, key_flag: false, bytes: vec![7; blen] }, true);
    label = "datafrag-fragment-numbers-beyond-total".into();
  } else if choice < 58 {
    let size = *rng.pick(&[1u32 << 24, 1 << 28, 1 << 30, u32::MAX, (1u32 << 31) + 5]);
    let fs = *rng.pick(&[1u16, 16, 1024, 65535]);
    wire::data_frag(&mut out, le, &DataFragMsg { reader_id: rid, writer_id: weid, sn: st.sn + 1 + rng.below(4) as i64, frag_start: 1, frags_in_submsg: 1, frag_size: fs, sample_size: size, inline_qos: None, key_flag: false, bytes: vec![1; (fs as usize).min(200)] }, true);
    label = "datafrag-huge-sample-size".into();
  } else if choice < 64 {
    // inconsistent with an assembly in progress, or nonsense parameters
    let (sn, _total, _fs, _size) = st.partial_sn.unwrap_or((st.sn + 1, 3, 16, 40));
    let fs = boundary_u16(rng);
    let blen = rng.below(80) as usize;
    wire::data_frag(&mut out, le, &DataFragMsg { reader_id: rid, writer_id: weid, sn: if rng.chance(2, 3) { sn } else { boundary_i64(rng) }, frag_start: boundary_u32(rng).min(70000), frags_in_submsg: boundary_u16(rng), frag_size: fs, sample_size: *rng.pick(&[0u32, 1, 3, 4, 17, 40, 41, 100, 65536]), inline_qos: None, key_flag: rng.chance(1, 4), bytes: vec![9; blen] }, rng.chance(1, 2));
    label = "datafrag-inconsistent-parameters".into();
  } else if choice < 69 {
    // DATAFRAG whose octetsToInlineQos points at, just before or just beyond the end of the body
    let payload_len = rng.below(24) as usize;
    let body_len = 32 + payload_len; // fixed part (4 + 28) + payload
    let o2q = match rng.below(4) {
      0 => *rng.pick(&[0u16, 4, 27, 28, 29, 32, 100, 65535, 65532]),
      _ => (body_len as i64 - 4 + rng.range(-6, 34)).clamp(0, 65535) as u16,
    };
    let mut w = wire::W::new(le);
    w.u16(0);
    w.u16(o2q);
    w.bytes(&rid);
    w.bytes(&weid);
    w.sn(st.sn + 1 + rng.below(3) as i64);
    w.u32(1);
    w.u16(1);
    w.u16(16);
    w.u32(40);
    let pl = rng.bytes(payload_len);
    w.bytes(&pl);
    wire::submsg(&mut out, wire::ID_DATA_FRAG, if rng.chance(1, 4) { 0x02 } else { 0 }, le, &w.buf);
    label = "datafrag-lying-octets-to-inline-qos".into();
  } else if choice < 74 {
    // DATA with lying octetsToInlineQos / flags / inline qos
    let mut w = wire::W::new(le);
    w.u16(0);
    let near_end = (20 + rng.range(-6, 40)).clamp(0, 65535) as u16;
    w.u16(*rng.pick(&[0u16, 4, 12, 16, 20, 100, 65535, near_end, near_end]));
    w.bytes(&rid);
    w.bytes(&weid);
    w.sn(if rng.chance(1, 2) { st.sn + 1 } else { boundary_i64(rng) });
    let flags = rng.below(16) as u8 * 2;
    if rng.chance(1, 2) {
      // parameter list with a lying length / missing sentinel
      w.u16(*rng.pick(&[0x0070u16, 0x0071, 0x0005, 0x8001, 0x0000]));
      w.u16(*rng.pick(&[0u16, 3, 4, 16, 20, 65535, 65532]));
      let n = rng.below(24) as usize;
      w.bytes(&rng.bytes(n));
      if rng.chance(1, 2) {
        w.u16(1);
        w.u16(0);
      }
    }
    let n = rng.below(12) as usize;
    w.bytes(&rng.bytes(n));
    wire::submsg(&mut out, wire::ID_DATA, flags, le, &w.buf);
    label = "data-lying-offsets-flags-inline-qos".into();
  } else if choice < 80 {
    // reader submessages to the writer (also delivered to the readers' receivers)
    let rg = reader_guid(rng.below(2) as usize);
    let mut o = wire::header(&rg[0..12].try_into().unwrap());
    wire::info_dst(&mut o, le, &ids.own_prefix);
    let reid: [u8; 4] = rg[12..16].try_into().unwrap();
    let weid = if rng.chance(4, 5) { ids.writer } else { [1, 2, 3, 2] };
    if rng.chance(1, 2) {
      let base = boundary_i64(rng);
      let nbits = *rng.pick(&[0u32, 1, 32, 255, 256]);
      let members: Vec<i64> = (0..rng.below(6)).map(|_| base.saturating_add(rng.below(256) as i64)).collect();
      wire::acknack(&mut o, le, reid, weid, base, nbits, &members, boundary_i64(rng) as i32, rng.chance(1, 2));
      out = o;
      label = "acknack-boundary-values".into();
    } else {
      let base = boundary_u32(rng);
      let nbits = *rng.pick(&[0u32, 1, 32, 256]);
      let members: Vec<u32> = (0..rng.below(6)).map(|_| base.wrapping_add(rng.below(256) as u32)).collect();
      wire::nack_frag(&mut o, le, reid, weid, if rng.chance(2, 3) { 1 + rng.below(6) as i64 } else { boundary_i64(rng) }, base, nbits, &members, rng.next() as i32);
      out = o;
      label = "nackfrag-boundary-values".into();
    }
  } else if choice < 84 {
    // raw number sets with lying numBits
    let mut w = wire::W::new(le);
    w.bytes(&rid);
    w.bytes(&ids.writer);
    w.sn(boundary_i64(rng));
    w.u32(*rng.pick(&[257u32, 1024, 65536, u32::MAX, 256, 255]));
    for _ in 0..rng.below(12) {
      w.u32(rng.next() as u32);
    }
    w.u32(7);
    wire::submsg(&mut out, if rng.chance(1, 2) { wire::ID_ACKNACK } else { wire::ID_GAP }, 0, le, &w.buf);
    label = "numberset-lying-numbits".into();
  } else if choice < 88 {
    // interpreter submessages
    match rng.below(4) {
      0 => {
        let mut w = wire::W::new(le);
        w.u32(boundary_u32(rng)); // numLocators
        for _ in 0..rng.below(4) {
          w.u32(1);
          w.u32(7400);
          w.bytes(&[0; 16]);
        }
        wire::submsg(&mut out, wire::ID_INFO_REPLY, rng.below(4) as u8 * 2, le, &w.buf);
      }
      1 => {
        let n = rng.below(9) as usize;
        wire::submsg(&mut out, wire::ID_INFO_TS, 0, le, &rng.bytes(n))
      }
      2 => {
        let n = rng.below(24) as usize;
        wire::submsg(&mut out, wire::ID_INFO_SRC, 0, le, &rng.bytes(n))
      }
      _ => {
        let id = *rng.pick(&[0x00u8, 0x02, 0x13, 0x30, 0x31, 0x80, 0xff]);
        let fl = rng.next() as u8;
        let n = rng.below(40) as usize;
        wire::submsg(&mut out, id, fl, le, &rng.bytes(n))
      }
    }
    label = "interpreter-or-unknown-submessage".into();
  } else {
    // byte-level damage of a valid datagram
    let mut v = wire::header(&prefix);
    wire::info_ts(&mut v, le, 1 << 40);
    wire::data(&mut v, le, &DataMsg { reader_id: rid, writer_id: weid, sn: st.sn + 1, inline_qos: Some(InlineQos { key_hash: Some([3; 16]), status_info: Some(1), extra: vec![(0x8002, vec![1, 2, 3, 4, 5])] }), payload: Some(wire::payload(wire::CDR_LE, &wire::vsample_cdr(1, 99, &[1, 2, 3, 4, 5], true))), key_flag: false });
    wire::heartbeat(&mut v, le, rid, weid, 1, st.sn + 1, st.hb + 1, false, false);
    match rng.below(5) {
      0 => {
        let cut = rng.below(v.len() as u64 + 1) as usize;
        v.truncate(cut);
        label = "truncated".into();
      }
      1 => {
        for _ in 0..(1 + rng.below(3)) {
          let i = rng.below(v.len() as u64) as usize;
          v[i] = rng.next() as u8;
        }
        label = "byte-mutated".into();
      }
      2 => {
        // lying octetsToNextHeader of the first submessage
        let l = *rng.pick(&[0u16, 1, 2, 3, 5, 65535, 65532, 40]);
        let lb = if v[21] & 1 == 1 { l.to_le_bytes() } else { l.to_be_bytes() };
        v[22..24].copy_from_slice(&lb);
        label = "lying-submessage-length".into();
      }
      3 => {
        let n = rng.below(200) as usize;
        let mut r = rng.bytes(n);
        if r.len() >= 4 && rng.chance(1, 2) {
          r[0..4].copy_from_slice(b"RTPS");
        }
        v = r;
        label = "random-bytes".into();
      }
      _ => {
        let tail = v[20..].to_vec();
        for _ in 0..rng.below(4) {
          v.extend_from_slice(&tail);
        }
        label = "concatenated".into();
      }
    }
    out = v;
  }
  (label, out)
}

#[derive(Default)]
pub struct GenState {
  pub sn: i64,
  pub hb: i32,
  pub partial_sn: Option<(i64, u32, u16, u32)>,
}

struct Benches {
  rel: ReaderBench,
  be: ReaderBench,
  wb: WriterBench,
  ids: Ids,
}

fn build() -> Benches {
  let mut rel = ReaderBench::new(RbCfg { flavor: Flavor::Keyed, reliable: true, history: 0, max_samples: 100_000, reader_key: [0, 0, 0x61] });
  let mut be = ReaderBench::new(RbCfg { flavor: Flavor::NoKey, reliable: false, history: 0, max_samples: 100_000, reader_key: [0, 0, 0x62] });
  let mut wb = WriterBench::new(WbCfg { reliable: true, history: 0, transient_local: true, frag_size: 64, writer_key: [0, 0, 0x63] });
  rel.match_writer(wa_guid(true), true, "127.0.0.1:34000".parse().unwrap());
  rel.match_writer(wb_guid(), true, "127.0.0.1:34001".parse().unwrap());
  be.match_writer(wa_guid(false), false, "127.0.0.1:34002".parse().unwrap());
  for r in 0..2 {
    wb.match_reader(reader_guid(r), true, format!("127.0.0.1:{}", reader_port(r)).parse().unwrap());
  }
  for i in 0..6u32 {
    let blob = vec![i as u8; if i % 2 == 0 { 10 } else { 200 }];
    let _ = wb.write(VSample { key: i % 2, id: i + 1, blob }, None, None);
  }
  let ids = Ids { own_prefix: rel.own_prefix, rel_reader: rel.reader_entity_id(), be_reader: be.reader_entity_id(), writer: wb.writer_entity_id(), wa: wa_guid(true), wa_nokey: wa_guid(false) };
  Benches { rel, be, wb, ids }
}

/// entity ids for the socket-free workload (no benches behind them)
pub fn pure_ids() -> Ids {
  Ids { own_prefix: [0x01, 0x12, 3, 4, 5, 6, 7, 8, 9, 10, 11, 12], rel_reader: [0, 0, 1, 0x07], be_reader: [0, 0, 2, 0x04], writer: [0, 0, 3, 0x02], wa: wa_guid(true), wa_nokey: wa_guid(false) }
}

pub struct HOutcome {
  pub datagrams: u64,
  pub panics: u64,
  pub aftermath_ok: bool,
  pub max_cpu_s: f64,
  pub max_growth: usize,
}

pub fn run_case(seed: u64, index: u64, n_dgrams: usize, leg: &str, acc: &mut Acc, br: &Bracket) -> HOutcome {
  // the second leg explores other inputs than the first
  let mut rng = Rng::derive(seed, if leg.is_empty() { 0x0606 } else { 0x0607 }, index);
  let mut b = build();
  let mut st = GenState::default();
  let mut out = HOutcome { datagrams: 0, panics: 0, aftermath_ok: false, max_cpu_s: 0.0, max_growth: 0 };
  let mut journal: Vec<(String, String)> = vec![];
  let tag = json!({"seed": seed, "stream": 0x0606, "index": index, "leg": leg});
  let mut poisoned = false;
  for k in 0..n_dgrams {
    let (label, dg) = gen_datagram(&mut rng, &b.ids, &mut st);
    journal.push((label.clone(), hex(&dg)));
    if journal.len() > 80 {
      journal.remove(0);
    }
    br.set_case(json!({"case": tag, "datagram_no": k, "label": label, "datagrams": journal}));
    acc.count(&format!("fed:{label}"), 1);
    out.datagrams += 1;
    br.mark(Some(&label));
    let live0 = alloc::reset_peak();
    let cpu0 = thread_cpu();
    let r = catch_unwind(AssertUnwindSafe(|| {
      let replies = b.rel.inject(&dg);
      b.be.inject(&dg);
      b.wb.inject(&dg);
      // what the timers would do next
      let _ = b.wb.repair_step();
      let _ = b.rel.op(&ReadOp::Take { max: usize::MAX, not_read_only: false });
      let _ = b.be.op(&ReadOp::Take { max: usize::MAX, not_read_only: false });
      replies.len()
    }));
    let cpu = thread_cpu() - cpu0;
    let growth = alloc::peak().saturating_sub(live0);
    let largest = alloc::largest();
    br.mark(None);
    out.max_cpu_s = out.max_cpu_s.max(cpu);
    out.max_growth = out.max_growth.max(growth);
    let replay = || json!({"case": tag, "datagram_no": k, "label": label, "datagrams": journal});
    if r.is_err() {
      out.panics += 1;
      let (msg, frames) = LAST_PANIC.lock().unwrap().take().unwrap_or_default();
      let site = frames.first().cloned().unwrap_or_else(|| "outside-library".into());
      let mut m = msg.clone();
      m.truncate(200);
      acc.violate(format!("C06/panic@{site}"), json!({"message": m, "frames": frames, "label": label}), replay());
      poisoned = true;
    }
    if cpu > CPU_DISPROPORTIONATE_S {
      acc.violate(format!("C06/time:disproportionate-cpu:{label}"), json!({"thread_cpu_s": cpu, "datagram_len": dg.len()}), replay());
    }
    // a panic's own backtrace capture allocates tens of MB with debug info: not the datagram's doing
    if growth > mem_budget(dg.len()) && r.is_ok() {
      acc.violate(format!("C06/memory:disproportionate-heap-growth:{label}"), json!({"peak_growth_bytes": growth, "largest_single_request": largest, "datagram_len": dg.len(), "budget": mem_budget(dg.len())}), replay());
    }
    if poisoned {
      // state after a panic is undefined: start over with fresh endpoints
      let old = std::mem::replace(&mut b, build());
      let _ = catch_unwind(AssertUnwindSafe(move || drop(old)));
      st = GenState::default();
      poisoned = false;
    }
  }
  // ---- aftermath: a well-behaved peer (never impersonated) must still get through
  let g = wb_guid();
  let prefix: [u8; 12] = g[0..12].try_into().unwrap();
  let weid: [u8; 4] = g[12..16].try_into().unwrap();
  br.mark(Some("aftermath"));
  let res = catch_unwind(AssertUnwindSafe(|| {
    for sn in 1..=5i64 {
      let mut dg = wire::header(&prefix);
      wire::info_ts(&mut dg, true, (1_710_000_000u64 << 32) | sn as u64);
      wire::data(&mut dg, true, &DataMsg { reader_id: b.ids.rel_reader, writer_id: weid, sn, inline_qos: None, payload: Some(wire::payload(wire::CDR_LE, &wire::vsample_cdr(2, 7000 + sn as u32, &[sn as u8; 5], true))), key_flag: false });
      wire::heartbeat(&mut dg, true, b.ids.rel_reader, weid, 1, sn, sn as i32, false, false);
      b.rel.inject(&dg);
    }
    // an unintelligible (hostile) sample still in the cache makes one take() fail and is then skipped (C09):
    // keep taking until the reader has nothing more; only a take that keeps failing is held against it
    let mut all = vec![];
    let mut errs = 0;
    loop {
      match b.rel.op(&ReadOp::Take { max: usize::MAX, not_read_only: false }) {
        Ok(v) if v.is_empty() => break Ok(all),
        Ok(v) => all.extend(v),
        Err(e) => {
          errs += 1;
          if errs > 300 {
            break Err(e);
          }
        }
      }
    }
  }));
  br.mark(None);
  match res {
    Ok(Ok(v)) => {
      // the well-behaved peer's samples are recognised by its writer GUID (a mutated copy of a generator sample can carry any id)
      let ids: Vec<u32> = v.iter().filter(|o| o.writer == Some(g)).filter_map(|o| if let ObsVal::Value { id, .. } = &o.val { Some(*id) } else { None }).collect();
      if ids == vec![7001, 7002, 7003, 7004, 7005] {
        out.aftermath_ok = true;
      } else {
        acc.violate("C06/aftermath:valid-traffic-of-well-behaved-peer-not-delivered-correctly", json!({"delivered_ids": ids}), json!({"case": tag, "datagrams": journal}));
      }
    }
    Ok(Err(e)) => acc.violate("C06/aftermath:take-fails-after-hostile-traffic", json!({"err": e}), json!({"case": tag, "datagrams": journal})),
    Err(_) => {
      let (msg, frames) = LAST_PANIC.lock().unwrap().take().unwrap_or_default();
      acc.violate(format!("C06/panic@{}", frames.first().cloned().unwrap_or_default()), json!({"message": msg, "frames": frames, "label": "aftermath"}), json!({"case": tag, "datagrams": journal}));
    }
  }
  let _ = catch_unwind(AssertUnwindSafe(move || drop(b)));
  out
}

pub fn summary_value(o: &HOutcome) -> Value {
  json!({"datagrams": o.datagrams, "panics": o.panics, "aftermath_ok": o.aftermath_ok, "max_cpu_s": o.max_cpu_s, "max_growth": o.max_growth})
}
