//! E-STACK with fake remote participants: one REAL local DomainParticipant (public API
//! only) against harness-controlled remote participants that speak SPDP/SEDP at the
//! wire level over real loopback UDP. Serves C11 (matched sets / status counts under
//! discovery event histories) and the stack leg of C12 (lease expiry timing).
use std::{
  collections::{BTreeMap, BTreeSet},
  net::{SocketAddr, UdpSocket},
  time::{Duration as StdDuration, Instant},
};

use rustdds::{
  policy::*, verif::disc, DataReaderStatus, DataWriterStatus, DomainParticipant, DomainParticipantStatusEvent, Keyed, LostReason, QosPolicies,
  QosPolicyBuilder, StatusEvented, TopicKind,
};
use serde::{Deserialize, Serialize};
use serde_json::{json, Value};

use crate::{
  ctx::Acc,
  prng::{fnv64, Rng},
  qosref::{self, Q},
  wire::{self, DataMsg, InlineQos},
};

#[derive(Serialize, Deserialize, Clone, Debug, PartialEq)]
pub struct KMsg {
  pub key: u32,
  pub n: u32,
}
impl Keyed for KMsg {
  type K = u32;
  fn key(&self) -> u32 {
    self.key
  }
}

const EID_SPDP_W: [u8; 4] = [0x00, 0x01, 0x00, 0xc2];
const EID_SPDP_R: [u8; 4] = [0x00, 0x01, 0x00, 0xc7];
const EID_PUB_W: [u8; 4] = [0x00, 0x00, 0x03, 0xc2];
const EID_PUB_R: [u8; 4] = [0x00, 0x00, 0x03, 0xc7];
const EID_SUB_W: [u8; 4] = [0x00, 0x00, 0x04, 0xc2];
const EID_SUB_R: [u8; 4] = [0x00, 0x00, 0x04, 0xc7];

pub const TOPICS: [&str; 2] = ["vt_stack_T0", "vt_stack_T1"];
const MK_W_TOPIC: &str = "vt_stack_marker_w";
const MK_R_TOPIC: &str = "vt_stack_marker_r";

#[derive(Clone, Debug)]
pub struct EpDef {
  pub guid: [u8; 16],
  pub is_writer: bool,
  pub topic: usize,
  pub q: Q,
}

pub struct Fake {
  pub idx: usize,
  pub prefix: [u8; 12],
  sock: UdpSocket,
  pub lease: Option<f64>,
  sn_spdp: i64,
  /// SPDP DATA addressed to ENTITYID_UNKNOWN (as RustDDS and most implementations send it) instead of to the SPDP reader
  pub spdp_to_unknown: bool,
  /// the periodic re-announcement repeats the same DATA with the same sequence number (as a stateless
  /// best-effort SPDP writer resending its one change does, e.g. eProsima) instead of a new number every time
  pub spdp_same_sn: bool,
  spdp_fresh: bool,
  sn_pub: i64,
  sn_sub: i64,
  hb: i32,
  pub alive: bool,
  pub last_spdp_send: Option<(Instant, Instant)>, // before/after the send call
  pub max_keepalive_gap: f64,
  marker_ctr: u32,
  /// lowest SN still 'available' on each SEDP stream (what HEARTBEAT.first advertises):
  /// moved up when the participant reappears, since it will not resend older data
  first_pub: i64,
  first_sub: i64,
  /// datagrams sent on the SEDP streams, for retransmission on ACKNACK (the fake is a proper reliable writer)
  sent_pub: BTreeMap<i64, Vec<u8>>,
  sent_sub: BTreeMap<i64, Vec<u8>>,
  pub retransmissions: u64,
  pub received: u64,
  pub acknacks: Vec<String>,
  last_hb: Option<Instant>,
}

fn ts_now() -> u64 {
  let d = std::time::SystemTime::now().duration_since(std::time::UNIX_EPOCH).unwrap();
  (d.as_secs() << 32) | ((d.subsec_nanos() as u64 * 4_294_967_296u64 / 1_000_000_000u64) & 0xFFFF_FFFF)
}

impl Fake {
  pub fn new(idx: usize, rng: &mut Rng, lease: Option<f64>) -> Fake {
    let mut prefix = [0u8; 12];
    prefix[0] = 0x01;
    prefix[1] = 0x12;
    prefix[2] = 0xFA;
    prefix[3] = idx as u8;
    for b in prefix[4..].iter_mut() {
      *b = rng.next() as u8;
    }
    let sock = UdpSocket::bind("127.0.0.1:0").expect("bind fake socket");
    sock.set_nonblocking(true).expect("nonblocking");
    let spdp_to_unknown = rng.chance(1, 2);
    let spdp_same_sn = rng.chance(1, 2);
    Fake { idx, prefix, sock, lease, sn_spdp: 0, spdp_to_unknown, spdp_same_sn, spdp_fresh: true, sn_pub: 0, sn_sub: 0, hb: 0, alive: false, last_spdp_send: None, max_keepalive_gap: 0.0, marker_ctr: 0, first_pub: 1, first_sub: 1, sent_pub: BTreeMap::new(), sent_sub: BTreeMap::new(), retransmissions: 0, received: 0, acknacks: vec![], last_hb: None }
  }
  fn addr(&self) -> SocketAddr {
    self.sock.local_addr().unwrap()
  }
  fn send(&self, dg: &[u8], port: u16) {
    let _ = self.sock.send_to(dg, SocketAddr::from(([127, 0, 0, 1], port)));
  }
  pub fn send_spdp(&mut self, meta_port: u16) {
    // a new sequence number for the first announcement of an appearance; keep-alives repeat it if the fake is of that kind
    if self.spdp_fresh || !self.spdp_same_sn || self.sn_spdp == 0 {
      self.sn_spdp += 1;
    }
    self.spdp_fresh = false;
    let payload = disc::spdp_payload(self.prefix, self.lease, self.addr(), self.addr(), true);
    let mut dg = wire::header(&self.prefix);
    wire::info_ts(&mut dg, true, ts_now());
    wire::data(&mut dg, true, &DataMsg { reader_id: if self.spdp_to_unknown { [0, 0, 0, 0] } else { EID_SPDP_R }, writer_id: EID_SPDP_W, sn: self.sn_spdp, inline_qos: None, payload: Some(payload), key_flag: false });
    let t0 = Instant::now();
    self.send(&dg, meta_port);
    let t1 = Instant::now();
    if let Some((_, prev_after)) = self.last_spdp_send {
      self.max_keepalive_gap = self.max_keepalive_gap.max(t0.duration_since(prev_after).as_secs_f64());
    }
    self.last_spdp_send = Some((t0, t1));
  }
  pub fn send_spdp_dispose(&mut self, meta_port: u16) {
    self.sn_spdp += 1;
    let payload = disc::spdp_key_payload(self.prefix, true);
    let mut dg = wire::header(&self.prefix);
    wire::info_ts(&mut dg, true, ts_now());
    wire::data(&mut dg, true, &DataMsg { reader_id: EID_SPDP_R, writer_id: EID_SPDP_W, sn: self.sn_spdp, inline_qos: Some(InlineQos { key_hash: None, status_info: Some(0x03), extra: vec![] }), payload: Some(payload), key_flag: true });
    self.send(&dg, meta_port);
  }
  fn sedp(&mut self, publication: bool, payload: Vec<u8>, dispose: bool, local_prefix: &[u8; 12], meta_port: u16) {
    let (w, r, sn) = if publication {
      self.sn_pub += 1;
      (EID_PUB_W, EID_PUB_R, self.sn_pub)
    } else {
      self.sn_sub += 1;
      (EID_SUB_W, EID_SUB_R, self.sn_sub)
    };
    let mut dg = wire::header(&self.prefix);
    wire::info_dst(&mut dg, true, local_prefix);
    wire::info_ts(&mut dg, true, ts_now());
    let iq = if dispose { Some(InlineQos { key_hash: None, status_info: Some(0x03), extra: vec![] }) } else { None };
    wire::data(&mut dg, true, &DataMsg { reader_id: r, writer_id: w, sn, inline_qos: iq, payload: Some(payload), key_flag: dispose });
    self.hb += 1;
    let first = if publication { self.first_pub } else { self.first_sub };
    wire::heartbeat(&mut dg, true, r, w, first, sn, self.hb, true, false);
    self.send(&dg, meta_port);
    if publication {
      self.sent_pub.insert(sn, dg);
    } else {
      self.sent_sub.insert(sn, dg);
    }
  }
  /// answer ACKNACKs of the local participant's SEDP readers with retransmissions
  pub fn service(&mut self, meta_port: u16) {
    // periodic HEARTBEATs, as any reliable writer sends them
    if self.alive && self.last_hb.map_or(true, |t| t.elapsed() > StdDuration::from_millis(200)) {
      self.last_hb = Some(Instant::now());
      for (w, r, first, last) in [(EID_PUB_W, EID_PUB_R, self.first_pub, self.sn_pub), (EID_SUB_W, EID_SUB_R, self.first_sub, self.sn_sub)] {
        if last >= first {
          let mut dg = wire::header(&self.prefix);
          self.hb += 1;
          wire::heartbeat(&mut dg, true, r, w, first, last, self.hb, false, false);
          self.send(&dg, meta_port);
        }
      }
    }
    let mut buf = [0u8; 65536];
    while let Ok((n, _from)) = self.sock.recv_from(&mut buf) {
      self.received += 1;
      if let Ok(m) = wire::parse(&buf[..n]) {
        for sub in m.subs {
          if let wire::Sub::AckNack { writer_id, members, base, .. } = &sub {
            if self.acknacks.len() < 40 {
              self.acknacks.push(format!("w={:02x?} base={} members={:?}", writer_id, base, members));
            }
          }
          if let wire::Sub::AckNack { writer_id, members, .. } = sub {
            let (store, first) = if writer_id == EID_PUB_W {
              (&self.sent_pub, self.first_pub)
            } else if writer_id == EID_SUB_W {
              (&self.sent_sub, self.first_sub)
            } else {
              continue;
            };
            let resend: Vec<Vec<u8>> = members.iter().filter(|sn| **sn >= first).filter_map(|sn| store.get(sn).cloned()).collect();
            for dg in resend {
              self.retransmissions += 1;
              let _ = self.sock.send_to(&dg, SocketAddr::from(([127, 0, 0, 1], meta_port)));
            }
          }
        }
      }
    }
  }
  pub fn restart_streams(&mut self) {
    self.spdp_fresh = true;
    self.first_pub = self.sn_pub + 1;
    self.first_sub = self.sn_sub + 1;
  }
  pub fn announce(&mut self, ep: &EpDef, local_prefix: &[u8; 12], meta_port: u16) {
    let q = ep.q.build();
    let payload = if ep.is_writer {
      disc::sedp_writer_payload(ep.guid, TOPICS[ep.topic], "KMsg", &q, self.addr(), true)
    } else {
      disc::sedp_reader_payload(ep.guid, TOPICS[ep.topic], "KMsg", &q, self.addr(), true)
    };
    self.sedp(ep.is_writer, payload, false, local_prefix, meta_port);
  }
  pub fn dispose_ep(&mut self, guid: [u8; 16], is_writer: bool, local_prefix: &[u8; 12], meta_port: u16) {
    let payload = disc::sedp_key_payload(guid, true);
    self.sedp(is_writer, payload, true, local_prefix, meta_port);
  }
  /// announce a fresh marker endpoint on the publication (true) / subscription stream
  fn marker(&mut self, publication: bool, local_prefix: &[u8; 12], meta_port: u16) -> [u8; 16] {
    self.marker_ctr += 1;
    let mut g = [0u8; 16];
    g[0..12].copy_from_slice(&self.prefix);
    g[12] = 0xEE;
    g[13] = (self.marker_ctr >> 8) as u8;
    g[14] = self.marker_ctr as u8;
    g[15] = if publication { 0x02 } else { 0x07 };
    let q = QosPolicyBuilder::new().build();
    let payload = if publication {
      disc::sedp_writer_payload(g, MK_W_TOPIC, "KMsg", &q, self.addr(), true)
    } else {
      disc::sedp_reader_payload(g, MK_R_TOPIC, "KMsg", &q, self.addr(), true)
    };
    self.sedp(publication, payload, false, local_prefix, meta_port);
    g
  }
}

pub struct Local {
  pub dp: DomainParticipant,
  pub prefix: [u8; 12],
  pub meta_port: u16,
  readers: Vec<rustdds::with_key::DataReader<KMsg>>,
  writers: Vec<rustdds::with_key::DataWriter<KMsg>>,
  pub reader_q: Vec<Q>,
  pub writer_q: Vec<Q>,
  mk_reader: rustdds::with_key::DataReader<KMsg>,
  mk_writer: rustdds::with_key::DataWriter<KMsg>,
  topics: Vec<rustdds::Topic>,
  sub: rustdds::Subscriber,
  publ: rustdds::Publisher,
}

#[derive(Clone, Debug)]
pub enum LEvt {
  Matched { local: usize, is_local_reader: bool, remote: [u8; 16], total: i32, total_change: i32, current: i32, current_change: i32 },
  Incompatible { local: usize, is_local_reader: bool, remote: [u8; 16], policy: String },
}

impl Local {
  pub fn new(domain: u16, reader_q: Vec<Q>, writer_q: Vec<Q>) -> Result<Local, String> {
    let dp = DomainParticipant::new(domain).map_err(|e| format!("{e:?}"))?;
    let q0 = QosPolicyBuilder::new().build();
    let sub = dp.create_subscriber(&q0).map_err(|e| format!("{e:?}"))?;
    let publ = dp.create_publisher(&q0).map_err(|e| format!("{e:?}"))?;
    let mut readers = vec![];
    let mut writers = vec![];
    // local endpoint i sits on topic i % 2: readers 0 and 2 share a topic
    let mut topics = vec![];
    for t in TOPICS.iter() {
      topics.push(dp.create_topic(t.to_string(), "KMsg".to_string(), &q0, TopicKind::WithKey).map_err(|e| format!("{e:?}"))?);
    }
    for (i, q) in reader_q.iter().enumerate() {
      readers.push(sub.create_datareader_cdr::<KMsg>(&topics[i % 2], Some(q.build())).map_err(|e| format!("{e:?}"))?);
    }
    for (i, q) in writer_q.iter().enumerate() {
      writers.push(publ.create_datawriter_cdr::<KMsg>(&topics[i % 2], Some(q.build())).map_err(|e| format!("{e:?}"))?);
    }
    let tw = dp.create_topic(MK_W_TOPIC.to_string(), "KMsg".to_string(), &q0, TopicKind::WithKey).map_err(|e| format!("{e:?}"))?;
    let tr = dp.create_topic(MK_R_TOPIC.to_string(), "KMsg".to_string(), &q0, TopicKind::WithKey).map_err(|e| format!("{e:?}"))?;
    let mk_reader = sub.create_datareader_cdr::<KMsg>(&tw, None).map_err(|e| format!("{e:?}"))?;
    let mk_writer = publ.create_datawriter_cdr::<KMsg>(&tr, None).map_err(|e| format!("{e:?}"))?;
    let ports = disc::local_ports(&dp);
    let prefix = disc::participant_prefix(&dp);
    Ok(Local { dp, prefix, meta_port: ports.meta_unicast, readers, writers, reader_q, writer_q, mk_reader, mk_writer, topics, sub, publ })
  }

  /// A further local endpoint, created while the scenario runs. Like the initial ones it sits on topic
  /// (its index % 2). Returns its index among the local readers / writers.
  pub fn add_late(&mut self, is_writer: bool, q: &Q) -> Result<usize, String> {
    if is_writer {
      let i = self.writers.len();
      self.writers.push(self.publ.create_datawriter_cdr::<KMsg>(&self.topics[i % 2], Some(q.build())).map_err(|e| format!("{e:?}"))?);
      self.writer_q.push(q.clone());
      Ok(i)
    } else {
      let i = self.readers.len();
      self.readers.push(self.sub.create_datareader_cdr::<KMsg>(&self.topics[i % 2], Some(q.build())).map_err(|e| format!("{e:?}"))?);
      self.reader_q.push(q.clone());
      Ok(i)
    }
  }

  pub fn drain_endpoint_events(&mut self) -> Vec<LEvt> {
    let mut v = vec![];
    for (i, r) in self.readers.iter().enumerate() {
      while let Some(s) = r.try_recv_status() {
        match s {
          DataReaderStatus::SubscriptionMatched { total, current, writer } => v.push(LEvt::Matched { local: i, is_local_reader: true, remote: disc::guid_bytes(writer), total: total.count(), total_change: total.count_change(), current: current.count(), current_change: current.count_change() }),
          DataReaderStatus::RequestedIncompatibleQos { last_policy_id, writer, .. } => v.push(LEvt::Incompatible { local: i, is_local_reader: true, remote: disc::guid_bytes(writer), policy: format!("{last_policy_id:?}") }),
          _ => {}
        }
      }
    }
    for (i, w) in self.writers.iter().enumerate() {
      while let Some(s) = w.try_recv_status() {
        match s {
          DataWriterStatus::PublicationMatched { total, current, reader } => v.push(LEvt::Matched { local: i, is_local_reader: false, remote: disc::guid_bytes(reader), total: total.count(), total_change: total.count_change(), current: current.count(), current_change: current.count_change() }),
          DataWriterStatus::OfferedIncompatibleQos { last_policy_id, reader, .. } => v.push(LEvt::Incompatible { local: i, is_local_reader: false, remote: disc::guid_bytes(reader), policy: format!("{last_policy_id:?}") }),
          _ => {}
        }
      }
    }
    v
  }

  /// participant-level events of interest
  pub fn drain_participant_events(&mut self) -> Vec<(String, [u8; 12], Option<(f64, f64)>)> {
    let mut v = vec![];
    let listener = self.dp.status_listener();
    while let Some(e) = listener.try_recv_status() {
      match e {
        DomainParticipantStatusEvent::ParticipantDiscovered { dpd } => {
          let mut p = [0u8; 12];
          p.copy_from_slice(&disc::guid_bytes(dpd.guid)[0..12]);
          v.push(("discovered".to_string(), p, None));
        }
        DomainParticipantStatusEvent::ParticipantLost { id, reason } => {
          let mut p = [0u8; 12];
          p.copy_from_slice(id.as_ref());
          let r = match reason {
            LostReason::Disposed => None,
            LostReason::Timeout { lease, elapsed } => Some((lease.to_nanoseconds() as f64 * 1e-9, elapsed.to_nanoseconds() as f64 * 1e-9)),
          };
          v.push((if r.is_some() { "lost-timeout".to_string() } else { "lost-disposed".to_string() }, p, r));
        }
        _ => {}
      }
    }
    v
  }

  fn marker_seen(&mut self, publication: bool, g: &[u8; 16]) -> bool {
    let mut seen = false;
    if publication {
      while let Some(s) = self.mk_reader.try_recv_status() {
        if let DataReaderStatus::SubscriptionMatched { writer, .. } = s {
          if &disc::guid_bytes(writer) == g {
            seen = true;
          }
        }
      }
    } else {
      while let Some(s) = self.mk_writer.try_recv_status() {
        if let DataWriterStatus::PublicationMatched { reader, .. } = s {
          if &disc::guid_bytes(reader) == g {
            seen = true;
          }
        }
      }
    }
    seen
  }
}

// ----------------------------------------------------------------------------
// scenario
// ----------------------------------------------------------------------------

#[derive(Clone, Debug)]
pub enum SEv {
  Appear { f: usize },
  Announce { f: usize, e: usize },
  ReAnnounce { f: usize, e: usize },
  DisposeEp { f: usize, e: usize },
  /// dispose of an endpoint GUID that was never announced
  DisposeUnknown { f: usize },
  DisposeParticipant { f: usize },
  /// stop the keep-alive of a finite-lease participant and wait for the loss
  Timeout { f: usize },
  /// SPDP again + re-announcement of all its currently announced endpoints
  Reappear { f: usize },
  /// let time pass while keep-alives continue (nothing may be lost)
  Idle { ms: u64 },
  /// the application creates one more local reader / writer now (entry k of `late`)
  CreateLocal { k: usize },
}

#[derive(Clone)]
pub struct Scenario {
  pub reader_q: Vec<Q>,
  pub writer_q: Vec<Q>,
  /// local endpoints created while the scenario runs: (is_writer, qos); topic = index among its kind % 2
  pub late: Vec<(bool, Q)>,
  pub leases: Vec<Option<f64>>,
  pub eps: Vec<Vec<EpDef>>, // per fake
  pub evs: Vec<SEv>,
}

pub fn scenario_json(s: &Scenario) -> Value {
  json!({
    "local_reader_qos": s.reader_q.iter().map(|q| format!("{q:?}")).collect::<Vec<_>>(),
    "local_writer_qos": s.writer_q.iter().map(|q| format!("{q:?}")).collect::<Vec<_>>(),
    "local_endpoints_created_later": s.late.iter().map(|(w, q)| format!("{} {q:?}", if *w { "writer" } else { "reader" })).collect::<Vec<_>>(),
    "leases": s.leases,
    "remote_endpoints": s.eps.iter().map(|v| v.iter().map(|e| json!({"guid": crate::ctx::hex(&e.guid), "writer": e.is_writer, "topic": e.topic, "qos": format!("{:?}", e.q)})).collect::<Vec<_>>()).collect::<Vec<_>>(),
    "events": s.evs.iter().map(|e| format!("{e:?}")).collect::<Vec<_>>(),
  })
}

fn palette(rng: &mut Rng) -> Q {
  // a few policies only, so that compatible and incompatible pairs are both frequent
  let mut q = Q::default();
  q.reliability = *rng.pick(&[None, Some(Reliability::BestEffort), Some(Reliability::Reliable { max_blocking_time: rustdds::Duration::from_millis(100) })]);
  q.durability = *rng.pick(&[None, Some(Durability::Volatile), Some(Durability::TransientLocal)]);
  if rng.chance(1, 4) {
    q.deadline = Some(Deadline(*rng.pick(&[rustdds::Duration::from_secs(1), rustdds::Duration::from_secs(2)])));
  }
  if rng.chance(1, 5) {
    q.ownership = Some(*rng.pick(&[Ownership::Shared, Ownership::Exclusive { strength: 3 }]));
  }
  if rng.chance(1, 5) {
    q.liveliness = Some(*rng.pick(&[Liveliness::Automatic { lease_duration: rustdds::Duration::from_secs(5) }, Liveliness::ManualByTopic { lease_duration: rustdds::Duration::from_secs(5) }]));
  }
  q
}

pub fn gen_scenario(rng: &mut Rng, max_events: u64, with_timeouts: bool) -> Scenario {
  let reader_q = vec![palette(rng), palette(rng), palette(rng)];
  let writer_q = vec![palette(rng), palette(rng)];
  let nf = 2 + rng.below(2) as usize;
  let mut leases = vec![];
  let mut eps = vec![];
  for f in 0..nf {
    leases.push(if with_timeouts && rng.chance(1, 2) { Some(2.0) } else if rng.chance(1, 2) { None } else { Some(f64::INFINITY) });
    let mut v = vec![];
    for e in 0..2 {
      let is_writer = rng.chance(1, 2);
      let mut g = [0u8; 16];
      g[12] = 0;
      g[13] = 1; // the same entity ids in every participant, as sequential allocation gives in reality
      let _ = f;
      g[14] = e as u8 + 1;
      g[15] = if is_writer { 0x02 } else { 0x07 };
      // 50%: copy the local counterpart's QoS (surely compatible), else random
      let topic = rng.below(2) as usize;
      let q = if rng.chance(1, 2) {
        if is_writer {
          reader_q[topic].clone()
        } else {
          writer_q[topic].clone()
        }
      } else {
        palette(rng)
      };
      v.push(EpDef { guid: g, is_writer, topic, q });
    }
    eps.push(v);
  }
  // up to two local endpoints are created while the scenario runs
  let mut late: Vec<(bool, Q)> = vec![];
  let nlate = rng.below(3) as usize;
  for _ in 0..nlate {
    let is_writer = rng.chance(1, 2);
    // mostly the QoS of a remote counterpart (surely compatible with it), else random
    let q = if rng.chance(2, 3) {
      let cands: Vec<&EpDef> = eps.iter().flatten().filter(|e: &&EpDef| e.is_writer != is_writer).collect();
      if cands.is_empty() { palette(rng) } else { rng.pick(&cands).q.clone() }
    } else {
      palette(rng)
    };
    late.push((is_writer, q));
  }
  let mut late_done = 0usize;
  let mut evs = vec![];
  let mut appeared = vec![false; nf];
  let mut alive = vec![false; nf];
  let n = 4 + rng.below(max_events);
  for k in 0..n {
    if late_done < late.len() && k >= 2 && rng.chance(1, 5) {
      evs.push(SEv::CreateLocal { k: late_done });
      late_done += 1;
      continue;
    }
    let f = rng.below(nf as u64) as usize;
    if !appeared[f] {
      evs.push(SEv::Appear { f });
      appeared[f] = true;
      alive[f] = true;
      continue;
    }
    if !alive[f] {
      evs.push(SEv::Reappear { f });
      alive[f] = true;
      continue;
    }
    let e = rng.below(2) as usize;
    match rng.below(20) {
      0..=7 => evs.push(SEv::Announce { f, e }),
      8 | 9 => evs.push(SEv::ReAnnounce { f, e }),
      10..=12 => evs.push(SEv::DisposeEp { f, e }),
      13 => evs.push(SEv::DisposeUnknown { f }),
      14 | 15 => {
        evs.push(SEv::DisposeParticipant { f });
        alive[f] = false;
      }
      16 | 17 => {
        if with_timeouts && leases[f].map_or(false, |l| l.is_finite()) {
          evs.push(SEv::Timeout { f });
          alive[f] = false;
        } else {
          evs.push(SEv::Announce { f, e });
        }
      }
      _ => {
        if with_timeouts {
          evs.push(SEv::Idle { ms: 300 + rng.below(1500) });
        } else {
          evs.push(SEv::ReAnnounce { f, e });
        }
      }
    }
  }
  late.truncate(late_done);
  Scenario { reader_q, writer_q, late, leases, eps, evs }
}

pub struct SOutcome {
  pub events_applied: u64,
  pub matched_events: u64,
  pub incompatible_events: u64,
  pub set_changes: u64,
  pub losses_by_timeout: u64,
  pub losses_by_dispose: u64,
  pub barrier_timeouts: u64,
  pub late_locals: u64,
  pub aborted: bool,
  pub sig: u64,
}

#[derive(Clone, Copy, PartialEq, Eq)]
pub enum SProp {
  C11,
  C12,
}

pub fn run_scenario(sc: &Scenario, domain: u16, prop: SProp, acc: &mut Acc, tag: &Value) -> SOutcome {
  let mut out = SOutcome { events_applied: 0, matched_events: 0, incompatible_events: 0, set_changes: 0, losses_by_timeout: 0, losses_by_dispose: 0, barrier_timeouts: 0, late_locals: 0, aborted: false, sig: 0 };
  let mut local = match Local::new(domain, sc.reader_q.clone(), sc.writer_q.clone()) {
    Ok(l) => l,
    Err(e) => {
      acc.inconclusive.push(format!("cannot create local participant: {e}"));
      out.aborted = true;
      return out;
    }
  };
  // the local QoS lists grow when the scenario creates further local endpoints
  let mut scx: Scenario = sc.clone();
  let mut frng = Rng::new(fnv64(tag.to_string().as_bytes()));
  let mut fakes: Vec<Fake> = sc.leases.iter().enumerate().map(|(i, l)| Fake::new(i, &mut frng, *l)).collect();
  let replay = || json!({"case": tag, "scenario": scenario_json(sc)});
  let viol = |acc: &mut Acc, p: SProp, sig: String, d: Value| {
    if p == prop {
      acc.violate(sig, d, replay());
    }
  };
  let meta = local.meta_port;
  let lp = local.prefix;

  // model
  let mut announced: BTreeSet<[u8; 16]> = BTreeSet::new();
  let mut alive = vec![false; fakes.len()];
  let ep_by_guid: BTreeMap<[u8; 16], (usize, EpDef)> = sc.eps.iter().enumerate().flat_map(|(f, v)| v.iter().map(move |e| (with_prefix(e, f), (f, e.clone())))).collect();
  // actual GUIDs carry the fake's prefix
  let mut guid_of = |f: usize, e: usize, fakes: &Vec<Fake>| -> [u8; 16] {
    let mut g = sc.eps[f][e].guid;
    g[0..12].copy_from_slice(&fakes[f].prefix);
    g
  };
  fn with_prefix(e: &EpDef, _f: usize) -> [u8; 16] {
    e.guid
  }
  let _ = &ep_by_guid;
  // per local endpoint: current matched set and counters as last reported
  #[derive(Default, Clone)]
  struct LState {
    set: BTreeSet<[u8; 16]>,
    /// matches with endpoints of the local participant itself (not part of the remote model): taken from the events
    base: BTreeSet<[u8; 16]>,
    last_total: i32,
    last_current: i32,
  }
  let mut lr = vec![LState::default(); sc.reader_q.len()];
  let mut lw = vec![LState::default(); sc.writer_q.len()];

  // ---- settle: the local participant matches its own reader/writer pairs (same topic)
  // right after creation; those matches are the baseline of every set.
  // How many such matches there must be is known (the participant's own compatible reader/writer pairs on a topic,
  // one event on each side), so the baseline is taken only when all of them have been seen: on a loaded machine
  // the participant may need longer than any fixed quiet period to discover itself.
  let expected_self_events: usize = 2 * (0..sc.reader_q.len()).flat_map(|r| (0..sc.writer_q.len()).map(move |w| (r, w))).filter(|(r, w)| r % 2 == w % 2 && qosref::incompatible(&sc.writer_q[*w], &sc.reader_q[*r]).is_empty()).count();
  let mut self_events_seen = 0usize;
  {
    let mut quiet_since = Instant::now();
    let t0 = Instant::now();
    while t0.elapsed().as_secs_f64() < 15.0 && (self_events_seen < expected_self_events || quiet_since.elapsed().as_secs_f64() < 0.5) {
      let evts = local.drain_endpoint_events();
      if !evts.is_empty() {
        quiet_since = Instant::now();
      }
      for e in evts {
        if let LEvt::Matched { local: li, is_local_reader, remote, total, current, current_change, .. } = e {
          let st = if is_local_reader { &mut lr[li] } else { &mut lw[li] };
          if current_change > 0 {
            st.set.insert(remote);
            self_events_seen += 1;
          } else {
            st.set.remove(&remote);
          }
          st.last_total = total;
          st.last_current = current;
        }
      }
      let _ = local.drain_participant_events();
      std::thread::sleep(StdDuration::from_millis(10));
    }
  }
  if self_events_seen < expected_self_events {
    acc.inconclusive.push(format!("the local participant reported {self_events_seen} of its {expected_self_events} own reader/writer matches within 15 s: no baseline, scenario not run"));
    out.aborted = true;
    return out;
  }
  for st in lr.iter_mut().chain(lw.iter_mut()) {
    st.base = st.set.clone();
  }
  let local_prefix_for_filter = lp;

  // remote endpoint vs local endpoint `li` (a reader if the remote is a writer, else a writer)
  let compatible_with = |ep: &EpDef, sc: &Scenario, li: usize| -> (bool, Vec<&'static str>) {
    let inc = if ep.is_writer { qosref::incompatible(&ep.q, &sc.reader_q[li]) } else { qosref::incompatible(&sc.writer_q[li], &ep.q) };
    (inc.is_empty(), inc)
  };
  // local counterparts of a remote endpoint: same topic
  let locals_of = |ep: &EpDef, sc: &Scenario| -> Vec<usize> {
    let n = if ep.is_writer { sc.reader_q.len() } else { sc.writer_q.len() };
    (0..n).filter(|li| li % 2 == ep.topic).collect()
  };
  let incompatible_somewhere = |ep: &EpDef, sc: &Scenario| -> bool { locals_of(ep, sc).iter().any(|li| !compatible_with(ep, sc, *li).0) };

  // keep-alive of finite-lease participants, called from every wait loop
  let mut keepalive = |fakes: &mut Vec<Fake>, alive: &Vec<bool>| {
    for f in fakes.iter_mut() {
      f.service(meta);
      if alive[f.idx] && f.alive {
        if let Some(l) = f.lease {
          if l.is_finite() {
            let due = f.last_spdp_send.map_or(true, |(_, t)| t.elapsed().as_secs_f64() > l / 6.0);
            if due {
              f.send_spdp(meta);
            }
          }
        }
      }
    }
  };

  // idle share of the machine during the last wait that ran out of time
  let mut last_timeout_idle: Option<f64> = None;
  macro_rules! wait_until {
    ($timeout_s:expr, $cond:expr) => {{
      let t0 = Instant::now();
      let stat0 = crate::ctx::proc_stat();
      let mut ok = false;
      while t0.elapsed().as_secs_f64() < $timeout_s {
        keepalive(&mut fakes, &alive);
        if $cond {
          ok = true;
          break;
        }
        std::thread::sleep(StdDuration::from_millis(2));
      }
      if !ok {
        last_timeout_idle = crate::ctx::idle_share_since(stat0);
      }
      ok
    }};
  }
  // an upper time bound that expires on a saturated machine is no verdict (the participant's threads may not have run)
  macro_rules! saturated {
    ($what:expr) => {{
      match last_timeout_idle {
        Some(idle) if idle < crate::ctx::SATURATED_IDLE => {
          acc.count("stack_waits_timed_out_on_a_saturated_machine_not_judged", 1);
          acc.inconclusive.push(format!("{} while only {:.0} % of the machine's CPU time was idle during the wait (saturated machine, not judged)", $what, idle * 100.0));
          true
        }
        _ => false,
      }
    }};
  }

  // participant-level event log since last look
  let mut plog: Vec<(String, [u8; 12], Option<(f64, f64)>, Instant)> = vec![];
  macro_rules! pump_plog {
    () => {
      for (k, p, r) in local.drain_participant_events() {
        plog.push((k, p, r, Instant::now()));
      }
    };
  }

  // checkpoint: compare endpoint events since the last checkpoint with the model
  let mut checkpoint = |sc: &Scenario, extra: Vec<LEvt>, local: &mut Local, acc: &mut Acc, out: &mut SOutcome, lr: &mut Vec<LState>, lw: &mut Vec<LState>, announced: &BTreeSet<[u8; 16]>, alive: &Vec<bool>, fakes: &Vec<Fake>, step: usize, ev: &SEv, expect_incompatible: &Vec<[u8; 16]>| {
    let mut evts = extra;
    evts.extend(local.drain_endpoint_events());
    // matches among the local participant's own endpoints are not modelled: they are taken from the events
    for e in &evts {
      if let LEvt::Matched { local: li, is_local_reader, remote, current_change, .. } = e {
        if remote[0..12] == local_prefix_for_filter {
          let st = if *is_local_reader { &mut lr[*li] } else { &mut lw[*li] };
          if *current_change > 0 {
            st.base.insert(*remote);
          } else {
            st.base.remove(remote);
          }
        }
      }
    }
    // model sets now
    let mut want_r: Vec<BTreeSet<[u8; 16]>> = lr.iter().map(|s| s.base.clone()).collect();
    let mut want_w: Vec<BTreeSet<[u8; 16]>> = lw.iter().map(|s| s.base.clone()).collect();
    for (f, v) in sc.eps.iter().enumerate() {
      for e in v {
        let mut g = e.guid;
        g[0..12].copy_from_slice(&fakes[f].prefix);
        if announced.contains(&g) && alive[f] {
          for li in locals_of(e, sc) {
            if compatible_with(e, sc, li).0 {
              if e.is_writer {
                want_r[li].insert(g);
              } else {
                want_w[li].insert(g);
              }
            }
          }
        }
      }
    }
    for (is_reader, states, wants) in [(true, &mut *lr, &want_r), (false, &mut *lw, &want_w)] {
      for i in 0..states.len() {
        let st = &mut states[i];
        let mine: Vec<&LEvt> = evts.iter().filter(|e| matches!(e, LEvt::Matched { local, is_local_reader, .. } if *local == i && *is_local_reader == is_reader)).collect();
        let changes = st.set.symmetric_difference(&wants[i]).count();
        out.set_changes += changes as u64;
        out.matched_events += mine.len() as u64;
        let side = if is_reader { "reader" } else { "writer" };
        if mine.len() != changes {
          viol(acc, SProp::C11, format!("C11/events:{}-matched-events-for-{}-set-changes:local-{side}", if mine.len() > changes { "more" } else { "fewer" }, if changes == 0 { "no" } else { "some" }), json!({"step": step, "event": format!("{ev:?}"), "local": i, "matched_events": mine.iter().map(|e| format!("{e:?}")).collect::<Vec<_>>(), "set_changes": changes, "model_set": wants[i].iter().map(|g| crate::ctx::hex(g)).collect::<Vec<_>>(), "previous_set": st.set.iter().map(|g| crate::ctx::hex(g)).collect::<Vec<_>>()}));
        }
        // replay the events on the previous set
        let mut cur = st.set.clone();
        for e in &mine {
          if let LEvt::Matched { remote, total, total_change, current, current_change, .. } = e {
            if *current_change > 0 {
              if !cur.insert(*remote) {
                viol(acc, SProp::C11, format!("C11/events:match-reported-for-already-matched-endpoint:local-{side}"), json!({"step": step, "remote": crate::ctx::hex(remote)}));
              }
              if *total != st.last_total + 1 || *total_change != 1 {
                viol(acc, SProp::C11, format!("C11/counts:total-not-incremented-by-one-on-new-match:local-{side}"), json!({"step": step, "total": total, "previous_total": st.last_total, "change": total_change}));
              }
            } else {
              if !cur.remove(remote) {
                viol(acc, SProp::C11, format!("C11/events:unmatch-reported-for-endpoint-that-was-not-matched:local-{side}"), json!({"step": step, "remote": crate::ctx::hex(remote)}));
              }
              if *total < st.last_total {
                viol(acc, SProp::C11, format!("C11/counts:total-decreased:local-{side}"), json!({"step": step, "total": total, "previous_total": st.last_total}));
              }
            }
            if *current != cur.len() as i32 {
              viol(acc, SProp::C11, format!("C11/counts:current-count-differs-from-set-size:local-{side}"), json!({"step": step, "current": current, "set_size_after_this_event": cur.len(), "event": format!("{e:?}")}));
            }
            st.last_total = (*total).max(st.last_total);
            st.last_current = *current;
          }
        }
        if cur != wants[i] {
          viol(acc, SProp::C11, format!("C11/set:matched-set-differs-from-announced-compatible-endpoints:local-{side}"), json!({"step": step, "event": format!("{ev:?}"), "local": i, "reported": cur.iter().map(|g| crate::ctx::hex(g)).collect::<Vec<_>>(), "model": wants[i].iter().map(|g| crate::ctx::hex(g)).collect::<Vec<_>>()}));
        }
        st.set = wants[i].clone();
      }
    }
    // incompatible-QoS events
    for e in &evts {
      if let LEvt::Incompatible { local: li, is_local_reader, remote, policy } = e {
        out.incompatible_events += 1;
        // find the endpoint
        let mut found = false;
        for (f, v) in sc.eps.iter().enumerate() {
          for ep in v {
            let mut g = ep.guid;
            g[0..12].copy_from_slice(&fakes[f].prefix);
            if &g == remote {
              found = true;
              if ep.topic != *li % 2 || ep.is_writer != *is_local_reader {
                viol(acc, SProp::C11, "C11/incompatible:event-on-wrong-local-endpoint".into(), json!({"step": step}));
                continue;
              }
              let (ok, inc) = compatible_with(ep, sc, *li);
              if ok {
                viol(acc, SProp::C11, "C11/incompatible:event-for-a-compatible-endpoint".into(), json!({"step": step, "remote": crate::ctx::hex(remote), "policy": policy}));
              } else if !inc.contains(&policy.as_str()) {
                viol(acc, SProp::C11, "C11/incompatible:reported-policy-is-not-incompatible".into(), json!({"step": step, "policy": policy, "really": inc}));
              }
            }
          }
        }
        if !found && remote[0..12] == local_prefix_for_filter {
          // the local participant's own reader/writer pair: not part of the remote model
          continue;
        }
        if !found {
          viol(acc, SProp::C11, "C11/incompatible:event-for-unknown-endpoint".into(), json!({"step": step, "remote": crate::ctx::hex(remote)}));
        }
      }
    }
    for g in expect_incompatible {
      let n = evts.iter().filter(|e| matches!(e, LEvt::Incompatible { remote, .. } if remote == g)).count();
      if n == 0 {
        viol(acc, SProp::C11, "C11/incompatible:no-incompatible-qos-event-for-incompatible-announcement".into(), json!({"step": step, "remote": crate::ctx::hex(g), "event": format!("{ev:?}")}));
      }
    }
  };

  let v0 = acc.violations.len();
  let mut sigbuf: Vec<u8> = vec![];
  let mut extra_evts: Vec<LEvt> = vec![];
  for (step, ev) in sc.evs.iter().enumerate() {
    if acc.violations.len() > v0 || out.aborted {
      break;
    }
    out.events_applied += 1;
    let mut expect_incompatible: Vec<[u8; 16]> = vec![];
    let mut barrier: Option<(usize, bool)> = None; // (fake, publication stream?)
    match ev {
      SEv::Appear { f } | SEv::Reappear { f } => {
        sigbuf.push(1);
        fakes[*f].alive = true;
        alive[*f] = true;
        fakes[*f].last_spdp_send = None;
        fakes[*f].max_keepalive_gap = 0.0;
        fakes[*f].restart_streams();
        fakes[*f].send_spdp(meta);
        let pf = fakes[*f].prefix;
        let ok = wait_until!(6.0, {
          pump_plog!();
          local.marker_seen(true, &[0u8; 16]);
          local.marker_seen(false, &[0u8; 16]);
          plog.iter().any(|(k, p, _, _)| k == "discovered" && *p == pf)
        });
        plog.retain(|(k, p, _, _)| !(k == "discovered" && *p == pf));
        if !ok {
          viol(acc, SProp::C12, "C12/discover:participant-announcement-not-reported".into(), json!({"step": step, "event": format!("{ev:?}")}));
          acc.count("participant_not_discovered_within_6s", 1);
          out.aborted = true;
          continue;
        }
        if matches!(ev, SEv::Reappear { .. }) {
          // re-announce everything it currently announces
          for e in 0..sc.eps[*f].len() {
            let g = guid_of(*f, e, &fakes);
            if announced.contains(&g) {
              let mut ep = sc.eps[*f][e].clone();
              ep.guid = g;
              fakes[*f].announce(&ep, &lp, meta);
              if incompatible_somewhere(&sc.eps[*f][e], &scx) {
                expect_incompatible.push(g);
              }
            }
          }
        }
        // both SEDP streams are synchronised
        barrier = Some((*f, true));
      }
      SEv::Announce { f, e } | SEv::ReAnnounce { f, e } => {
        sigbuf.push(2);
        let g = guid_of(*f, *e, &fakes);
        if matches!(ev, SEv::ReAnnounce { .. }) && !announced.contains(&g) {
          continue;
        }
        let mut ep = sc.eps[*f][*e].clone();
        ep.guid = g;
        fakes[*f].announce(&ep, &lp, meta);
        let first = announced.insert(g);
        if incompatible_somewhere(&sc.eps[*f][*e], &scx) && first {
          expect_incompatible.push(g);
        }
        barrier = Some((*f, ep.is_writer));
      }
      SEv::DisposeEp { f, e } => {
        sigbuf.push(3);
        let g = guid_of(*f, *e, &fakes);
        let is_writer = sc.eps[*f][*e].is_writer;
        fakes[*f].dispose_ep(g, is_writer, &lp, meta);
        announced.remove(&g);
        barrier = Some((*f, is_writer));
      }
      SEv::DisposeUnknown { f } => {
        sigbuf.push(4);
        let mut g = [0u8; 16];
        g[0..12].copy_from_slice(&fakes[*f].prefix);
        g[12..16].copy_from_slice(&[0x77, 0x77, 0x77, 0x02]);
        fakes[*f].dispose_ep(g, true, &lp, meta);
        barrier = Some((*f, true));
      }
      SEv::DisposeParticipant { f } => {
        sigbuf.push(5);
        let t_send = Instant::now();
        fakes[*f].send_spdp_dispose(meta);
        fakes[*f].alive = false;
        alive[*f] = false;
        let pf = fakes[*f].prefix;
        let ok = wait_until!(6.0, {
          pump_plog!();
          plog.iter().any(|(k, p, _, _)| k.starts_with("lost") && *p == pf)
        });
        if !ok && saturated!("C12/dispose:explicit-dispose-did-not-remove-participant") {
          out.aborted = true;
          continue;
        }
        if !ok {
          viol(acc, SProp::C12, "C12/dispose:explicit-dispose-did-not-remove-participant".into(), json!({"step": step, "waited_s": t_send.elapsed().as_secs_f64()}));
          out.aborted = true;
          continue;
        }
        out.losses_by_dispose += 1;
        plog.retain(|(k, p, _, _)| !(k.starts_with("lost") && *p == pf));
        // a disposed participant's endpoints are forgotten
        for e in 0..sc.eps[*f].len() {
          let g = guid_of(*f, e, &fakes);
          announced.remove(&g);
        }
        // give the event loop time to apply the loss to readers/writers
        std::thread::sleep(StdDuration::from_millis(150));
      }
      SEv::Timeout { f } => {
        sigbuf.push(6);
        let lease = fakes[*f].lease.unwrap_or(100.0);
        // one last announcement, then silence
        fakes[*f].send_spdp(meta);
        let (t_before, t_after) = fakes[*f].last_spdp_send.unwrap();
        fakes[*f].alive = false; // stops keep-alive; model still says alive until loss is reported
        let pf = fakes[*f].prefix;
        let ok = wait_until!(lease + 12.0, {
          pump_plog!();
          plog.iter().any(|(k, p, _, _)| k.starts_with("lost") && *p == pf)
        });
        if !ok && saturated!("C12/drop-after:silent-participant-not-dropped-after-lease") {
          out.aborted = true;
          continue;
        }
        if !ok {
          viol(acc, SProp::C12, "C12/drop-after:silent-participant-not-dropped-after-lease".into(), json!({"step": step, "lease_s": lease, "waited_s": t_after.elapsed().as_secs_f64()}));
          out.aborted = true;
          continue;
        }
        let (_, _, reason, t_seen) = plog.iter().find(|(k, p, _, _)| k.starts_with("lost") && *p == pf).cloned().unwrap();
        plog.retain(|(k, p, _, _)| !(k.starts_with("lost") && *p == pf));
        let silence_upper = t_seen.duration_since(t_before).as_secs_f64();
        if silence_upper < lease {
          viol(acc, SProp::C12, "C12/no-early-drop:participant-dropped-before-lease-elapsed".into(), json!({"step": step, "lease_s": lease, "silence_at_most_s": silence_upper, "reported_reason": format!("{reason:?}")}));
        }
        let late = t_seen.duration_since(t_after).as_secs_f64() - lease;
        acc.count(&format!("timeout_detection_delay_s_{:02}", (late.max(0.0) as u64).min(20)), 1);
        out.losses_by_timeout += 1;
        alive[*f] = false;
        std::thread::sleep(StdDuration::from_millis(150));
      }
      SEv::Idle { ms } => {
        sigbuf.push(7);
        let _ = wait_until!(*ms as f64 / 1000.0, false);
      }
      SEv::CreateLocal { k } => {
        sigbuf.push(8);
        let (is_writer, q) = sc.late[*k].clone();
        // The new endpoint is matched with everything already announced on its topic in one go, faster than
        // anybody can drain its status channel, which holds 4 events and drops the rest (documented as lossy).
        // The check's assumption "at most 4 status events per endpoint and step" has to hold here too.
        {
          let li = if is_writer { scx.writer_q.len() } else { scx.reader_q.len() };
          // the participant's own endpoints of the other kind on that topic are matched at once as well
          let n_own = if is_writer { scx.reader_q.len() } else { scx.writer_q.len() };
          let mut burst = (0..n_own).filter(|o| o % 2 == li % 2).count();
          for f in 0..fakes.len() {
            if !alive[f] {
              continue;
            }
            for e in 0..sc.eps[f].len() {
              let ep = &sc.eps[f][e];
              if ep.is_writer != is_writer && ep.topic == li % 2 && announced.contains(&guid_of(f, e, &fakes)) {
                burst += 1;
              }
            }
          }
          if burst > 4 {
            acc.count("late_local_endpoint_not_created_more_than_4_status_events_would_arrive_at_once", 1);
            continue;
          }
        }
        match local.add_late(is_writer, &q) {
          Ok(_) => {
            if is_writer {
              scx.writer_q.push(q);
              lw.push(LState::default());
            } else {
              scx.reader_q.push(q);
              lr.push(LState::default());
            }
            out.late_locals += 1;
          }
          Err(e) => {
            acc.inconclusive.push(format!("cannot create a further local endpoint: {e}"));
            out.aborted = true;
            continue;
          }
        }
        // no remote event to wait for: the status channels (4 slots each) are emptied all the time until nothing
        // has arrived for 0.6 s
        let t0 = Instant::now();
        let mut quiet = Instant::now();
        while t0.elapsed().as_secs_f64() < 5.0 && quiet.elapsed().as_secs_f64() < 0.6 {
          keepalive(&mut fakes, &alive);
          let v = local.drain_endpoint_events();
          if !v.is_empty() {
            quiet = Instant::now();
            extra_evts.extend(v);
          }
          std::thread::sleep(StdDuration::from_millis(5));
        }
      }
    }
    // The marker endpoints' status channels hold only 4 events and drop the rest: empty them
    // before relying on them (a lost participant unmatches all its earlier markers at once).
    {
      let none = [0u8; 16];
      let t0 = Instant::now();
      while t0.elapsed() < StdDuration::from_millis(30) {
        local.marker_seen(true, &none);
        local.marker_seen(false, &none);
        std::thread::sleep(StdDuration::from_millis(3));
      }
    }
    // ---- logical barrier on the SEDP stream(s) that carried the event
    if let Some((f, publication)) = barrier {
      let streams: Vec<bool> = if matches!(ev, SEv::Appear { .. } | SEv::Reappear { .. }) { vec![true, false] } else { vec![publication] };
      for pubs in streams {
        let g = fakes[f].marker(pubs, &lp, meta);
        let mut ok = wait_until!(6.0, local.marker_seen(pubs, &g));
        if !ok {
          // diagnostic: does one more sample on the same stream shake the first one loose?
          // (then the data was there all along and the consumer was simply not woken)
          let g2 = fakes[f].marker(pubs, &lp, meta);
          let mut first_seen = false;
          let second_seen = wait_until!(3.0, {
            // marker_seen drains the status channel: look for both
            let mut s2 = false;
            if pubs {
              while let Some(s) = local.mk_reader.try_recv_status() {
                if let DataReaderStatus::SubscriptionMatched { writer, .. } = s {
                  let w = disc::guid_bytes(writer);
                  if w == g { first_seen = true; }
                  if w == g2 { s2 = true; }
                }
              }
            } else {
              while let Some(s) = local.mk_writer.try_recv_status() {
                if let DataWriterStatus::PublicationMatched { reader, .. } = s {
                  let r = disc::guid_bytes(reader);
                  if r == g { first_seen = true; }
                  if r == g2 { s2 = true; }
                }
              }
            }
            s2
          });
          acc.count(&format!("barrier_timeout_then_second_marker:first_seen={first_seen}:second_seen={second_seen}"), 1);
          if first_seen && second_seen {
            acc.count("suspected_lost_wakeup_in_discovery_path", 1);
            ok = true; // the barrier is reached after all; keep judging the scenario
          }
        }
        if !ok {
          out.barrier_timeouts += 1;
          acc.count("barrier_timeouts", 1);
          out.aborted = true;
        }
      }
      if out.aborted {
        acc.inconclusive.push(format!("barrier marker not seen within 6 s at step {step} ({ev:?}) case={} fake_stats={:?}", tag["index"], fakes.iter().map(|f| (f.idx, f.received, f.retransmissions, f.sn_pub, f.sn_sub, f.first_pub, f.first_sub, f.acknacks.clone())).collect::<Vec<_>>()));
        continue;
      }
    }
    // unexpected participant losses (alive participants must never be dropped)
    pump_plog!();
    for (k, p, reason, _) in plog.drain(..) {
      if k.starts_with("lost") {
        if let Some(f) = fakes.iter().find(|f| f.prefix == p) {
          if alive[f.idx] {
            let lease = f.lease.unwrap_or(100.0);
            if f.max_keepalive_gap > lease * 0.6 {
              acc.inconclusive.push(format!("participant {} lost while the harness itself paused {:.2}s between keep-alives", f.idx, f.max_keepalive_gap));
              out.aborted = true;
            } else {
              viol(acc, SProp::C12, "C12/no-early-drop:live-participant-reported-lost".into(), json!({"step": step, "fake": f.idx, "lease_s": lease, "max_keepalive_gap_s": f.max_keepalive_gap, "reason": format!("{reason:?}")}));
            }
          }
        }
      }
    }
    if out.aborted {
      continue;
    }
    checkpoint(&scx, std::mem::take(&mut extra_evts), &mut local, acc, &mut out, &mut lr, &mut lw, &announced, &alive, &fakes, step, ev, &expect_incompatible);
  }
  out.sig = fnv64(&sigbuf) ^ fnv64(scenario_json(sc).to_string().as_bytes());
  drop(local);
  out
}
