//! C04 front end.
use rustdds::verif::net;
use serde_json::json;

use crate::{
  ctx::{par_cases, Args, Report},
  prng::Rng,
  wtr,
};

pub fn run_c04(args: &Args) -> i32 {
  net::set_policy_drop_all();
  let mut rep = Report::new(
    args,
    "random event histories {write (some to_single_reader, some fragmented), dispose, ACKNACK any base/bitmap incl. lying readers, reader match/loss, heartbeat tick, cache cleaning, repair-to-quiescence} over a real Writer+DataWriter with 0-3 fake readers (none / best-effort only / reliable / mixed / churn), History absent/KeepLast(1,3,40)/KeepAll, volatile and transient-local; every datagram captured per destination locator and decoded independently; distinct = hash of the event-kind sequence; non-trivial = >=1 ACKNACK injected and >=1 cleaning step and >=3 writes",
  );
  rep.assume("limit = History depth capped at the writer's hard-coded resource limit 32 (KeepAll -> 32, absent -> 1)");
  rep.assume("writer timers are not polled: repair/cleaning/heartbeat steps are fired explicitly (logical time)");
  rep.assume("each fake reader has one unicast locator with its own port, so captures are keyed by destination");
  let ncases = args.scale(30_000, 10_000_000);
  let seed = args.seed;
  let max_ev = if args.thorough() { 90 } else { 50 };
  let replay_case = crate::replay_index(args);
  let acc = par_cases(args.threads(), ncases, |i, acc| {
    if replay_case.map_or(false, |rc| rc != i) {
      return;
    }
    let mut rng = Rng::derive(seed, 0x0404, i);
    let case = wtr::gen_case(&mut rng, max_ev);
    let pad = crate::wire::choose_pad_garbage(seed, 0x0404, i);
    if pad != 0 {
      acc.count("cases_with_random_bits_in_number_set_padding", 1);
    }
    let tag = json!({"seed": seed, "stream": 0x0404, "index": i, "number_set_padding_bits": pad});
    let out = wtr::run_case(&case, acc, &tag);
    crate::wire::set_pad_garbage(0);
    acc.evaluations += 1;
    acc.count("datagrams_captured", out.datagrams);
    acc.count("heartbeats_checked", out.heartbeats);
    acc.count("requests_answered", out.answers_checked);
    acc.count("cleaning_steps", out.cleanings);
    let acks = case.evs.iter().filter(|e| matches!(e, wtr::WEv::AckNack { .. })).count();
    let writes = case.evs.iter().filter(|e| matches!(e, wtr::WEv::Write { .. })).count();
    if acks >= 1 && writes >= 3 {
      acc.distinct.insert(out.sig);
    }
    if i < 2 {
      acc.sample(json!({"case": tag, "script": wtr::case_json(&case)}), 2);
    }
  });
  rep.require("heartbeats_checked", 1000);
  rep.require("requests_answered", 500);
  rep.finish(acc)
}
