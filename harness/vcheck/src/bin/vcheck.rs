fn main() {
  std::process::exit(vcheck::main_entry());
}
