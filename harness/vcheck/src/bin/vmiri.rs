//! Workload for the interpreters (Miri; also fine under valgrind / ASan): no sockets, no threads.
//! usage: vmiri <seed> <first-index> <count>
//! Every step runs real library code on harness-generated input: hostile datagrams through the real
//! parser and per-writer bookkeeping (rustdds::verif::pure), builder -> bytes -> parser -> bytes round
//! trips (codec), number sets, PL-CDR discovery data (plcdr) incl. byte-mutated parameter lists.
use rustdds::verif::{codec, plcdr, pure::PureBench};
use vcheck::{
  hostile,
  prng::Rng,
  wire::{self, DataFragMsg},
};

fn main() {
  let a: Vec<String> = std::env::args().collect();
  let seed: u64 = a.get(1).and_then(|s| s.parse().ok()).unwrap_or(1);
  let first: u64 = a.get(2).and_then(|s| s.parse().ok()).unwrap_or(0);
  let count: u64 = a.get(3).and_then(|s| s.parse().ok()).unwrap_or(40);
  // monitor self-test: `vmiri <seed> <first> <count> selftest-ub` reads one byte past a heap buffer, which
  // valgrind memcheck and Miri must both report (tools/interp_legs.sh selftest)
  if a.get(4).map_or(false, |s| s == "selftest-ub") {
    let v: Vec<u8> = vec![1, 2, 3, 4, 5, 6, 7, 8];
    let p = v.as_ptr();
    let x = unsafe { std::ptr::read_volatile(p.add(v.len() + 3)) };
    if x == 77 {
      println!("selftest byte {x}");
    }
  }
  let ids = hostile::pure_ids();
  let mut pb = PureBench::new(1024);
  let mut st = hostile::GenState::default();
  let (mut codec_cases, mut codec_ok, mut sets, mut pl_cases, mut pl_parsed, mut pl_mut_rejected) = (0u64, 0u64, 0u64, 0u64, 0u64, 0u64);
  for i in first..first + count {
    let mut rng = Rng::derive(seed, 0x3131, i);
    // hostile datagrams (the generator keeps state so that valid prefixes build up proxy/assembler state)
    for _ in 0..6 {
      let (_label, dg) = hostile::gen_datagram(&mut rng, &ids, &mut st);
      pb.feed(&dg);
    }
    // a well-formed fragmented sample, fragments shuffled and some sent twice
    {
      let blob_len = 1500 + rng.below(3000) as usize;
      let blob = rng.bytes(blob_len);
      let pl = wire::payload(wire::CDR_LE, &wire::vsample_cdr(3, 90_000 + i as u32, &blob, true));
      let fs = 1024usize;
      let nfrags = (pl.len() + fs - 1) / fs;
      let mut order: Vec<usize> = (0..nfrags).collect();
      rng.shuffle(&mut order);
      if rng.chance(1, 2) {
        order.push(order[0]);
      }
      let sn = 1_000_000 + i as i64;
      let prefix: [u8; 12] = ids.wa[0..12].try_into().unwrap();
      let weid: [u8; 4] = ids.wa[12..16].try_into().unwrap();
      for k in order {
        let mut dg = wire::header(&prefix);
        let chunk = pl[k * fs..((k + 1) * fs).min(pl.len())].to_vec();
        wire::data_frag(&mut dg, true, &DataFragMsg { reader_id: ids.rel_reader, writer_id: weid, sn, frag_start: k as u32 + 1, frags_in_submsg: 1, frag_size: fs as u16, sample_size: pl.len() as u32, inline_qos: None, key_flag: false, bytes: chunk }, true);
        pb.feed(&dg);
      }
    }
    // codec round trip
    let c = codec::message_case(rng.next());
    codec_cases += 1;
    if c.roundtrip_equal {
      codec_ok += 1;
    }
    pb.feed(&c.bytes);
    let s = codec::sn_set_case(rng.next());
    let f = codec::fn_set_case(rng.next());
    sets += (s.reported.len() + f.reported.len()) as u64;
    // discovery data
    let kind = rng.below(6) as u8;
    let v = plcdr::V::generate(kind, rng.next());
    pl_cases += 1;
    let be = rng.chance(1, 2);
    if let Ok(mut bytes) = v.to_bytes(be) {
      if plcdr::V::parse(kind, be, &bytes).is_ok() {
        pl_parsed += 1;
      }
      if !bytes.is_empty() {
        let k = 1 + rng.below(4);
        for _ in 0..k {
          let at = rng.below(bytes.len() as u64) as usize;
          bytes[at] ^= 1 << rng.below(8);
        }
        if rng.chance(1, 3) {
          bytes.truncate(rng.below(bytes.len() as u64) as usize);
        }
        if plcdr::V::parse(kind, be, &bytes).is_err() {
          pl_mut_rejected += 1;
        }
      }
    }
  }
  println!(
    "VMIRI seed={seed} first={first} count={count} datagrams_parsed={} datagrams_rejected={} submessages={} samples_decoded={} samples_undecodable={} frags_completed={} missing_listed={} set_members_iterated={} codec_cases={codec_cases} codec_roundtrip_ok={codec_ok} set_members={sets} plcdr_cases={pl_cases} plcdr_parsed={pl_parsed} plcdr_mutated_rejected={pl_mut_rejected}",
    pb.parsed, pb.rejected, pb.submessages, pb.samples_decoded, pb.samples_undecodable, pb.frags_completed, pb.missing_listed, pb.set_members_iterated
  );
}
