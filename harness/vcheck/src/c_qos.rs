//! C10: request/offered matching against the reference table.
use rustdds::verif::{
  net,
  rbench::{Flavor, ReaderBench},
  wbench::WriterBench,
};
use serde_json::json;

use crate::{
  ctx::{par_cases, Acc, Args, Report},
  prng::{fnv64, Rng},
  qosref::{self, Q},
};

fn judge(off: &Q, req: &Q, acc: &mut Acc, how: &str) {
  let exp = qosref::incompatible(off, req);
  let got = off.build().compliance_failure_wrt(&req.build()).map(|p| format!("{p:?}"));
  acc.count("verdicts_checked", 1);
  let replay = || json!({"offered": format!("{off:?}"), "requested": format!("{req:?}"), "how": how});
  match (&got, exp.is_empty()) {
    (None, true) => {
      acc.count("verdict_compatible", 1);
    }
    (Some(p), false) => {
      acc.count("verdict_incompatible", 1);
      if !exp.contains(&p.as_str()) {
        acc.violate(format!("C10/cause:reported-policy-{p}-is-not-incompatible"), json!({"reported": p, "really_incompatible": exp}), replay());
      }
    }
    (None, false) => {
      // name the failing aspect precisely (signature = policy + aspect)
      let aspect = exp[0];
      let detail = match aspect {
        "Liveliness" => {
          let (o, r) = (off.liveliness.unwrap(), req.liveliness.unwrap());
          let kind = |l: rustdds::policy::Liveliness| match l {
            rustdds::policy::Liveliness::Automatic { .. } => 0,
            rustdds::policy::Liveliness::ManualByParticipant { .. } => 1,
            rustdds::policy::Liveliness::ManualByTopic { .. } => 2,
          };
          if kind(o) < kind(r) {
            "kind-weaker-accepted"
          } else {
            "lease-longer-accepted"
          }
        }
        _ => "accepted",
      };
      acc.violate(format!("C10/verdict:{aspect}:{detail}"), json!({"expected_incompatible": exp}), replay());
    }
    (Some(p), true) => {
      acc.violate(format!("C10/verdict:{p}:compatible-pair-rejected"), json!({"reported": p}), replay());
    }
  }
}

pub fn run_c10(args: &Args) -> i32 {
  net::set_policy_drop_all();
  let mut rep = Report::new(
    args,
    "per policy: every (absent + value)^2 pair with durations from {0, 1 ms, 1 s, 2 s, infinite} enumerated completely against the DDS 1.4 RxO table; plus random full policy sets (conjunction, reported cause really incompatible); plus the same sets pushed through Reader::update_writer_proxy and Writer::update_reader_proxy (both sides must agree with the table); plus (every 4th set) the verdict each side reaches when it knows the other side's policies only as announced over SEDP (DiscoveredWriterData / DiscoveredReaderData serialised to PL_CDR in either byte order and parsed back); distinct = hash of (offered, requested); non-trivial = both sides specify at least one common policy",
  );
  rep.assume("absent policy on either side imposes no constraint (the statement quantifies over policies both sides specify)");
  rep.assume("Reliability max_blocking_time and Ownership strength are not part of the RxO rule");
  rep.exhaustive = Some(true);
  rep.extra.insert("exhaustive_part".into(), json!("per-policy pair tables; the random conjunction part is sampled"));
  let mut acc = Acc::default();
  // ---- exhaustive per-policy tables
  macro_rules! table {
    ($dom:expr, $field:ident) => {
      for o in $dom.iter() {
        for r in $dom.iter() {
          let off = Q { $field: *o, ..Default::default() };
          let req = Q { $field: *r, ..Default::default() };
          judge(&off, &req, &mut acc, concat!("table:", stringify!($field)));
          acc.evaluations += 1;
          if o.is_some() && r.is_some() {
            acc.distinct.insert(fnv64(format!("{off:?}{req:?}").as_bytes()));
          }
        }
      }
    };
  }
  table!(qosref::dom_durability(), durability);
  table!(qosref::dom_presentation(), presentation);
  table!(qosref::dom_deadline(), deadline);
  table!(qosref::dom_latency(), latency_budget);
  table!(qosref::dom_ownership(), ownership);
  table!(qosref::dom_liveliness(), liveliness);
  table!(qosref::dom_reliability(), reliability);
  table!(qosref::dom_dest_order(), destination_order);
  acc.count("table_pairs", acc.evaluations);

  // ---- random conjunctions + both call sites
  let ncases = args.scale(60_000, 30_000_000);
  let seed = args.seed;
  let gen = |rng: &mut Rng| -> Q {
    Q {
      durability: *rng.pick(&qosref::dom_durability()),
      presentation: *rng.pick(&qosref::dom_presentation()),
      deadline: *rng.pick(&qosref::dom_deadline()),
      latency_budget: *rng.pick(&qosref::dom_latency()),
      ownership: *rng.pick(&qosref::dom_ownership()),
      liveliness: *rng.pick(&qosref::dom_liveliness()),
      reliability: *rng.pick(&qosref::dom_reliability()),
      destination_order: *rng.pick(&qosref::dom_dest_order()),
    }
  };
  let racc = par_cases(args.threads(), ncases, |i, acc| {
    let mut rng = Rng::derive(seed, 0x1010, i);
    // bias towards compatible sets: start from equal sets, perturb a few policies
    let off = gen(&mut rng);
    let mut req = if rng.chance(1, 2) { off.clone() } else { gen(&mut rng) };
    for _ in 0..rng.below(3) {
      match rng.below(8) {
        0 => req.durability = *rng.pick(&qosref::dom_durability()),
        1 => req.presentation = *rng.pick(&qosref::dom_presentation()),
        2 => req.deadline = *rng.pick(&qosref::dom_deadline()),
        3 => req.latency_budget = *rng.pick(&qosref::dom_latency()),
        4 => req.ownership = *rng.pick(&qosref::dom_ownership()),
        5 => req.liveliness = *rng.pick(&qosref::dom_liveliness()),
        6 => req.reliability = *rng.pick(&qosref::dom_reliability()),
        _ => req.destination_order = *rng.pick(&qosref::dom_dest_order()),
      }
    }
    judge(&off, &req, acc, "random");
    acc.evaluations += 1;
    acc.distinct.insert(fnv64(format!("{off:?}{req:?}").as_bytes()));
    // both call sites (every 8th case: benches are costlier)
    if i % 8 == 0 {
      let exp_match = qosref::incompatible(&off, &req).is_empty();
      let (oq, rq) = (off.build(), req.build());
      let mut rb = ReaderBench::new_with_qos(Flavor::Keyed, rq.clone(), [0, 0, 0x51]);
      let mut wg = [0u8; 16];
      wg[0] = 0xEE;
      wg[15] = 0x02;
      wg[14] = 1;
      let reader_side = rb.match_writer_qos(wg, &oq, "127.0.0.1:33000".parse().unwrap());
      let mut wb = WriterBench::new_with_qos(oq, [0, 0, 0x52]);
      let writer_side = wb.match_reader_qos(crate::wtr::reader_guid(0), &rq, "127.0.0.1:33001".parse().unwrap());
      acc.count("call_site_pairs_checked", 1);
      if reader_side != writer_side {
        acc.violate("C10/sides:reader-and-writer-reach-different-verdicts", json!({"reader_side_matched": reader_side, "writer_side_matched": writer_side, "reference_match": exp_match}), json!({"offered": format!("{off:?}"), "requested": format!("{req:?}")}));
      } else if reader_side != exp_match {
        acc.violate(format!("C10/sides:both-sides-{}-against-the-table", if reader_side { "match" } else { "refuse" }), json!({"reference_match": exp_match, "incompatible": qosref::incompatible(&off, &req)}), json!({"offered": format!("{off:?}"), "requested": format!("{req:?}")}));
      }
    }
    // the verdict a peer reaches: it knows the other side's QoS only as announced over SEDP (PL_CDR bytes)
    if i % 4 == 1 {
      let exp = qosref::incompatible(&off, &req);
      let le = rng.chance(1, 2);
      match (rustdds::verif::disc::qos_through_sedp(&off.build(), true, le), rustdds::verif::disc::qos_through_sedp(&req.build(), false, le)) {
        (Ok(off_wire), Ok(req_wire)) => {
          acc.count("verdicts_checked_after_sedp_round_trip", 1);
          // reader side: local request against the announced offer; writer side: local offer against the announced request
          for (side, got) in [("reader-side", off_wire.compliance_failure_wrt(&req.build())), ("writer-side", off.build().compliance_failure_wrt(&req_wire))] {
            let got = got.map(|p| format!("{p:?}"));
            match (&got, exp.is_empty()) {
              (None, true) => {}
              (Some(p), false) if exp.contains(&p.as_str()) => {}
              _ => acc.violate(
                format!("C10/wire:{side}:verdict-after-sedp-round-trip-differs-from-the-table:{}", if exp.is_empty() { "compatible-pair-rejected".to_string() } else { format!("{}-mismatch-{}", exp[0], if got.is_none() { "accepted" } else { "misreported" }) }),
                json!({"reported": got, "really_incompatible": exp}),
                json!({"offered": format!("{off:?}"), "requested": format!("{req:?}"), "little_endian": le}),
              ),
            }
          }
        }
        (a, b) => acc.violate("C10/wire:announced-qos-does-not-parse-back", json!({"offered": a.err(), "requested": b.err()}), json!({"offered": format!("{off:?}"), "requested": format!("{req:?}")})),
      }
    }
    if i < 2 {
      acc.sample(json!({"offered": format!("{off:?}"), "requested": format!("{req:?}"), "reference_incompatible": qosref::incompatible(&off, &req)}), 2);
    }
  });
  acc.merge(racc);
  rep.require("verdict_compatible", 1000);
  rep.require("verdict_incompatible", 1000);
  rep.require("call_site_pairs_checked", 1000);
  rep.require("verdicts_checked_after_sedp_round_trip", 5000);
  rep.finish(acc)
}
