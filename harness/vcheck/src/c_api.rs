//! C08 and C09 front ends over the E-API engine.
use rustdds::verif::net;
use serde_json::json;

use crate::{
  api,
  ctx::{par_cases, Args, Report},
  prng::Rng,
  shard,
};

pub fn run_c08(args: &Args) -> i32 {
  net::set_policy_drop_all();
  let mut rep = Report::new(
    args,
    "random scripts of value/dispose arrivals (1-4 instances, 1-2 writers, dispose by key and by key hash) interleaved with read/take/read_instance/take_instance/next_sample/iterator calls (max 0,1,2,3,inf; conditions any/not_read) on with_key and no_key DataReaders, History absent/KeepLast(1,2,3,5)/KeepAll, reliable and best-effort; every result compared with a DDS 1.4 2.2.2.5.1 reference model; distinct = hash of the (arrival kind,key | op) sequence; non-trivial = >=2 results returned samples and >=1 dispose arrived",
  );
  rep.assume("arrivals are injected in order without loss (ordering under loss is C01's subject)");
  rep.assume("view state judged only on the most recent sample of each instance in a result and only when that sample belongs to the instance's latest generation (where all readings of the spec coincide); ranks are not judged");
  rep.assume("expected state follows arrival order (DDS: receive order), also when two writers update the same instance between two reader calls");
  let ncases = args.scale(40_000, 8_000_000);
  let seed = args.seed;
  let max_steps = if args.thorough() { 60 } else { 36 };
  let replay_case: Option<u64> = crate::replay_index(args);
  let acc = par_cases(args.threads(), ncases, |i, acc| {
    if replay_case.map_or(false, |rc| rc != i) {
      return;
    }
    let mut rng = Rng::derive(seed, 0x0808, i);
    let case = api::gen_case_c08(&mut rng, max_steps);
    let tag = json!({"seed": seed, "stream": 0x0808, "index": i});
    let out = api::run_case_c08(&case, acc, &tag, &mut rng);
    acc.evaluations += 1;
    acc.count("results_checked", out.results);
    acc.count("samples_in_results", out.samples_seen);
    acc.count("view_state_judgements", out.view_judged);
    acc.count("pairs_of_changes_arriving_in_swapped_order", out.swapped_arrivals);
    if out.multi_gen {
      acc.count("cases_with_reborn_instances", 1);
    }
    let disposes = case.steps.iter().filter(|s| matches!(s, api::AStep::Inject { inj: api::Inj::DisposeKey { .. } | api::Inj::DisposeHash { .. }, .. })).count();
    if out.results >= 2 && out.samples_seen >= 2 && disposes >= 1 {
      acc.distinct.insert(out.sig);
    }
    if i < 2 {
      acc.sample(json!({"case": tag, "script": api::case_json(&case)}), 2);
    }
  });
  rep.require("samples_in_results", 5000);
  rep.require("view_state_judgements", 1000);
  rep.require("cases_with_reborn_instances", 50);
  rep.finish(acc)
}

pub fn run_c09(args: &Args) -> i32 {
  net::set_policy_drop_all();
  let mut rep = Report::new(
    args,
    "1-3 unintelligible changes (undecodable CDR, unknown representation id, dispose with never-seen key hash) at head/middle/tail among 2-15 changes from 1-2 writers, reliable and best-effort, with_key/no_key DataReader, SimpleDataReader and async stream; every reader call bracketed by a thread-CPU-time watchdog in a subprocess shard; distinct = hash of (change kinds | ops); non-trivial = >=1 bad change followed by >=1 intelligible change; second leg 'scheduled': 2-7 changes, 1-2 of them undecodable, inserted by the receive thread while the application follows the documented pattern (async stream, mio-0.6, mio-0.8) under the baton scheduler of C13 (uniform and PCT schedules): every intelligible change is delivered, nothing stays in the cache while the consumer is parked, each bad change is reported at most once",
  );
  rep.assume(&format!("a call that burns more than {} s of thread CPU time is judged as not returning (honest calls take microseconds)", shard::CPU_BUDGET_S));
  rep.assume("a bad change may be reported (Err) or skipped; both count as handled once");
  let ncases = args.scale(60_000, 16_000_000);
  let seed = args.seed;
  let replay_case: Option<u64> = crate::replay_index(args);
  let replay_is_scheduled = crate::replay_leg(args).as_deref() == Some("scheduled");
  let acc = shard::run_sharded(args, ncases, args.threads(), "C09", move |i, acc, br| {
    if replay_case.map_or(false, |rc| rc != i) || replay_is_scheduled {
      return;
    }
    let mut rng = Rng::derive(seed, 0x0909, i);
    let case = api::gen_case_c09(&mut rng);
    let tag = json!({"seed": seed, "stream": 0x0909, "index": i});
    br.set_case(json!({"case": tag, "script": api::case_json(&case)}));
    let out = api::run_case_c09(&case, acc, &tag, &mut rng, &|l| br.mark(l));
    acc.evaluations += 1;
    acc.count("bad_changes_injected", out.bad_injected);
    acc.count("payloadless_changes_with_odd_status_info_injected", out.odd_status_injected);
    acc.count("errors_reported", out.errors_reported);
    acc.count("intelligible_delivered", out.delivered);
    acc.count(&format!("cases_{:?}_{}", case.flavor, if case.reliable { "reliable" } else { "besteffort" }), 1);
    // bad change followed by an intelligible one
    let mut seen_bad = false;
    let mut nontrivial = false;
    for s in &case.steps {
      if let api::AStep::Inject { inj, .. } = s {
        match inj {
          api::Inj::BadCdr { .. } | api::Inj::BadRepId { .. } | api::Inj::UnknownKeyHash { .. } => seen_bad = true,
          _ if seen_bad => nontrivial = true,
          _ => {}
        }
      }
    }
    if nontrivial {
      acc.distinct.insert(out.sig);
    }
    if i < 2 {
      acc.sample(json!({"case": tag, "script": api::case_json(&case)}), 2);
    }
  });
  // ---- second leg: the same under interleavings (C13's baton scheduler): the receive thread inserts changes,
  // some undecodable, while the application follows the documented pattern through the async stream / mio
  let mut acc = acc;
  let replay_leg = crate::replay_leg(args);
  if replay_leg.as_deref().map_or(true, |l| l == "scheduled") {
    use rustdds::verif::schedsc;
    let n = args.scale(4000, 400_000);
    let sacc = crate::ctx::par_cases(args.threads(), n, |i, acc| {
      if replay_case.map_or(false, |rc| rc != i) {
        return;
      }
      let mut rng = Rng::derive(seed, 0x090A, i);
      let mech = *rng.pick(&[schedsc::Mech::AsyncStream, schedsc::Mech::AsyncStream, schedsc::Mech::Mio06, schedsc::Mech::Mio08]);
      let reliable = rng.chance(1, 2);
      let nsamples = 2 + rng.below(6) as usize;
      let mut bad_mask = 0u64;
      for _ in 0..1 + rng.below(2) {
        bad_mask |= 1 << rng.below(nsamples as u64);
      }
      let nbad = bad_mask.count_ones() as u64;
      let ooo = reliable && rng.chance(1, 4);
      let pct = if rng.chance(1, 2) { 1 + rng.below(3) as usize } else { 0 };
      let sseed = rng.next();
      let o = schedsc::run_reader_scenario_bad(mech, reliable, nsamples, ooo, false, bad_mask, sseed, pct);
      acc.evaluations += 1;
      acc.count("scheduled:scenarios", 1);
      acc.count("scheduled:undecodable_changes_injected", nbad);
      acc.count("scheduled:errors_reported", o.errors_reported);
      acc.count("scheduled:intelligible_delivered", o.delivered.len() as u64);
      acc.count("scheduled:consumer_parks", o.parks);
      let replay = || json!({"case": {"seed": seed, "stream": 0x090A, "index": i, "leg": "scheduled"}, "mechanism": format!("{mech:?}"), "reliable": reliable, "samples": nsamples, "undecodable_mask": bad_mask, "out_of_order": ooo, "schedule_seed": sseed, "pct_depth": pct, "trace": o.trace});
      if let Some(e) = &o.error {
        acc.violate("C09/error:consumer-call-failed-for-good", json!({"err": e}), replay());
        return;
      }
      if o.exhausted {
        acc.inconclusive.push(format!("C09 scheduled scenario {i} exhausted its step budget"));
        return;
      }
      let got: std::collections::BTreeSet<u32> = o.delivered.iter().chain(o.found_after_final_park.iter()).copied().collect();
      let want: std::collections::BTreeSet<u32> = o.produced.iter().copied().collect();
      if !o.found_after_final_park.is_empty() {
        acc.violate(format!("C09/blocked:{mech:?}:consumer-parked-with-intelligible-changes-behind-an-undecodable-one"), json!({"still_in_the_cache": o.found_after_final_park, "delivered": o.delivered, "errors_reported": o.errors_reported}), replay());
      } else if got != want {
        acc.violate(format!("C09/blocked:{mech:?}:intelligible-change-never-delivered-under-interleaving"), json!({"delivered": o.delivered, "intelligible": o.produced}), replay());
      }
      if o.delivered.len() != o.delivered.iter().collect::<std::collections::BTreeSet<_>>().len() {
        acc.violate("C09/once:intelligible-sample-delivered-twice", json!({"delivered": o.delivered}), replay());
      }
      if o.errors_reported > nbad {
        acc.violate("C09/report:bad-change-reported-more-than-once", json!({"errors": o.errors_reported, "bad_changes": nbad}), replay());
      }
      if o.parks > 0 {
        acc.distinct.insert(o.schedule_hash ^ bad_mask);
      }
    });
    acc.merge(sacc);
    rep.require("scheduled:intelligible_delivered", 1000);
    rep.require("scheduled:errors_reported", 200);
  }
  rep.require("bad_changes_injected", 1000);
  rep.require("intelligible_delivered", 1000);
  rep.finish(acc)
}
