//! C08 and C09 front ends over the E-API engine.
use rustdds::verif::net;
use serde_json::json;

use crate::{
  api,
  ctx::{par_cases, Args, Report},
  prng::Rng,
  shard,
};

pub fn run_c08(args: &Args) -> i32 {
  net::set_policy_drop_all();
  let mut rep = Report::new(
    args,
    "random scripts of value/dispose arrivals (1-4 instances, 1-2 writers, dispose by key and by key hash) interleaved with read/take/read_instance/take_instance/next_sample/iterator calls (max 0,1,2,3,inf; conditions any/not_read) on with_key and no_key DataReaders, History absent/KeepLast(1,2,3,5)/KeepAll, reliable and best-effort; every result compared with a DDS 1.4 2.2.2.5.1 reference model; distinct = hash of the (arrival kind,key | op) sequence; non-trivial = >=2 results returned samples and >=1 dispose arrived",
  );
  rep.assume("arrivals are injected in order without loss (ordering under loss is C01's subject)");
  rep.assume("view state judged only on the most recent sample of each instance in a result and only when that sample belongs to the instance's latest generation (where all readings of the spec coincide); ranks are not judged");
  rep.assume("expected state follows arrival order (DDS: receive order), also when two writers update the same instance between two reader calls");
  let ncases = args.scale(40_000, 8_000_000);
  let seed = args.seed;
  let max_steps = if args.thorough() { 60 } else { 36 };
  let replay_case: Option<u64> = crate::replay_index(args);
  let acc = par_cases(args.threads(), ncases, |i, acc| {
    if replay_case.map_or(false, |rc| rc != i) {
      return;
    }
    let mut rng = Rng::derive(seed, 0x0808, i);
    let case = api::gen_case_c08(&mut rng, max_steps);
    let tag = json!({"seed": seed, "stream": 0x0808, "index": i});
    let out = api::run_case_c08(&case, acc, &tag, &mut rng);
    acc.evaluations += 1;
    acc.count("results_checked", out.results);
    acc.count("samples_in_results", out.samples_seen);
    acc.count("view_state_judgements", out.view_judged);
    acc.count("pairs_of_changes_arriving_in_swapped_order", out.swapped_arrivals);
    if out.multi_gen {
      acc.count("cases_with_reborn_instances", 1);
    }
    let disposes = case.steps.iter().filter(|s| matches!(s, api::AStep::Inject { inj: api::Inj::DisposeKey { .. } | api::Inj::DisposeHash { .. }, .. })).count();
    if out.results >= 2 && out.samples_seen >= 2 && disposes >= 1 {
      acc.distinct.insert(out.sig);
    }
    if i < 2 {
      acc.sample(json!({"case": tag, "script": api::case_json(&case)}), 2);
    }
  });
  rep.require("samples_in_results", 5000);
  rep.require("view_state_judgements", 1000);
  rep.require("cases_with_reborn_instances", 50);
  rep.finish(acc)
}

pub fn run_c09(args: &Args) -> i32 {
  net::set_policy_drop_all();
  let mut rep = Report::new(
    args,
    "1-3 unintelligible changes (undecodable CDR, unknown representation id, dispose with never-seen key hash) at head/middle/tail among 2-15 changes from 1-2 writers, reliable and best-effort, with_key/no_key DataReader, SimpleDataReader and async stream; every reader call bracketed by a thread-CPU-time watchdog in a subprocess shard; distinct = hash of (change kinds | ops); non-trivial = >=1 bad change followed by >=1 intelligible change",
  );
  rep.assume(&format!("a call that burns more than {} s of thread CPU time is judged as not returning (honest calls take microseconds)", shard::CPU_BUDGET_S));
  rep.assume("a bad change may be reported (Err) or skipped; both count as handled once");
  let ncases = args.scale(60_000, 16_000_000);
  let seed = args.seed;
  let replay_case: Option<u64> = crate::replay_index(args);
  let acc = shard::run_sharded(args, ncases, args.threads(), "C09", move |i, acc, br| {
    if replay_case.map_or(false, |rc| rc != i) {
      return;
    }
    let mut rng = Rng::derive(seed, 0x0909, i);
    let case = api::gen_case_c09(&mut rng);
    let tag = json!({"seed": seed, "stream": 0x0909, "index": i});
    br.set_case(json!({"case": tag, "script": api::case_json(&case)}));
    let out = api::run_case_c09(&case, acc, &tag, &mut rng, &|l| br.mark(l));
    acc.evaluations += 1;
    acc.count("bad_changes_injected", out.bad_injected);
    acc.count("errors_reported", out.errors_reported);
    acc.count("intelligible_delivered", out.delivered);
    acc.count(&format!("cases_{:?}_{}", case.flavor, if case.reliable { "reliable" } else { "besteffort" }), 1);
    // bad change followed by an intelligible one
    let mut seen_bad = false;
    let mut nontrivial = false;
    for s in &case.steps {
      if let api::AStep::Inject { inj, .. } = s {
        match inj {
          api::Inj::BadCdr { .. } | api::Inj::BadRepId { .. } | api::Inj::UnknownKeyHash { .. } => seen_bad = true,
          _ if seen_bad => nontrivial = true,
          _ => {}
        }
      }
    }
    if nontrivial {
      acc.distinct.insert(out.sig);
    }
    if i < 2 {
      acc.sample(json!({"case": tag, "script": api::case_json(&case)}), 2);
    }
  });
  rep.require("bad_changes_injected", 1000);
  rep.require("intelligible_delivered", 1000);
  rep.finish(acc)
}
