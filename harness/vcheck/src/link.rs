//! E-WIRE Link: a real Writer (WriterBench) and a real Reader (ReaderBench) joined by
//! a lossy/duplicating/delaying link in logical time. Serves C02 (convergence after a
//! finite fault pattern, then quiet) and the writer+reader leg of C05.
use std::collections::{BTreeMap, BTreeSet, VecDeque};

use rustdds::verif::{
  net::Sent,
  rbench::{Flavor, ObsVal, RbCfg, ReadOp, ReaderBench},
  types::VSample,
  wbench::{WbCfg, WriterBench},
};
use serde_json::{json, Value};

use crate::{
  ctx::Acc,
  prng::{fnv64, Rng},
  wire::{self, Sub},
};

const W_PORT: u16 = 31000;
const R_PORT: u16 = 31001;

#[derive(Clone, Debug)]
pub enum LEv {
  Write { blob_len: usize },
  HbTick,
  Repair,
  MatchReader,
  /// deliver some of the held-back (delayed) datagrams
  Flush,
}

#[derive(Clone, Debug)]
pub struct LCase {
  pub wcfg: WbCfg,
  pub evs: Vec<LEv>,
  pub p_drop: u64,
  pub p_dup: u64,
  pub p_delay: u64,
  pub fault_seed: u64,
}

pub fn case_json(c: &LCase) -> Value {
  json!({"history": c.wcfg.history, "transient_local": c.wcfg.transient_local, "frag_size": c.wcfg.frag_size,
    "p_drop": c.p_drop, "p_dup": c.p_dup, "p_delay": c.p_delay, "fault_seed": c.fault_seed,
    "events": c.evs.iter().map(|e| format!("{e:?}")).collect::<Vec<_>>()})
}

pub fn gen_case(rng: &mut Rng, max_samples: u64) -> LCase {
  let frag_size = *rng.pick(&[0usize, 64, 64, 100, 256]);
  let wcfg = WbCfg { reliable: true, history: 0, transient_local: rng.chance(2, 3), frag_size, writer_key: [0, 0, 0x31] };
  let n = 1 + rng.below(max_samples);
  let late_join_after = if rng.chance(1, 3) { rng.below(n) } else { 0 };
  let mut evs = vec![];
  if late_join_after == 0 {
    evs.push(LEv::MatchReader);
  }
  let frag_rate = rng.below(4);
  for i in 0..n {
    if i == late_join_after && late_join_after > 0 {
      evs.push(LEv::MatchReader);
    }
    let blob_len = if frag_size > 0 && rng.below(4) < frag_rate { frag_size + rng.below(5 * frag_size as u64) as usize } else { rng.below(40) as usize };
    evs.push(LEv::Write { blob_len });
    match rng.below(8) {
      0 => evs.push(LEv::HbTick),
      1 => evs.push(LEv::Repair),
      2 => evs.push(LEv::Flush),
      3 => {
        evs.push(LEv::HbTick);
        evs.push(LEv::Repair);
      }
      _ => {}
    }
  }
  LCase {
    wcfg,
    evs,
    p_drop: *rng.pick(&[0u64, 10, 25, 40, 60]),
    p_dup: *rng.pick(&[0u64, 10, 30]),
    p_delay: *rng.pick(&[0u64, 10, 30]),
    fault_seed: rng.next(),
  }
}

pub struct LOutcome {
  pub written: u64,
  pub delivered: u64,
  pub frag_delivered: u64,
  pub dropped: u64,
  pub duplicated: u64,
  pub delayed: u64,
  pub rounds_to_converge: u64,
  pub converged: bool,
  pub sig: u64,
}

#[derive(Clone, Copy, PartialEq, Eq)]
pub enum LProp {
  C02,
  C05,
}

struct Net {
  to_reader: VecDeque<Vec<u8>>,
  to_writer: VecDeque<Vec<u8>>,
  held: Vec<(bool, Vec<u8>)>, // (to_reader?, bytes)
}

pub fn run_case(case: &LCase, prop: LProp, acc: &mut Acc, tag: &Value) -> LOutcome {
  let mut wb = WriterBench::new(case.wcfg.clone());
  let mut rb = ReaderBench::new(RbCfg { flavor: Flavor::Keyed, reliable: true, history: 0, max_samples: 1_000_000, reader_key: [0, 0, 0x32] });
  let wguid = wb.writer_guid();
  let mut rguid = [0u8; 16];
  rguid[0..12].copy_from_slice(&rb.own_prefix);
  rguid[12..16].copy_from_slice(&rb.reader_entity_id());
  let frag_size = if case.wcfg.frag_size == 0 { 1024 } else { case.wcfg.frag_size };
  let replay = || json!({"case": tag, "script": case_json(case)});
  let viol = |acc: &mut Acc, p: LProp, sig: String, d: Value| {
    if p == prop {
      acc.violate(sig, d, replay());
    }
  };
  let mut frng = Rng::new(case.fault_seed);
  let mut net = Net { to_reader: VecDeque::new(), to_writer: VecDeque::new(), held: vec![] };
  let mut out = LOutcome { written: 0, delivered: 0, frag_delivered: 0, dropped: 0, duplicated: 0, delayed: 0, rounds_to_converge: 0, converged: false, sig: 0 };
  let mut sigbuf: Vec<u8> = vec![];

  // truth
  let mut written: BTreeMap<i64, (u32, Vec<u8>, bool)> = BTreeMap::new(); // sn -> (id, blob, fragmented)
  let mut written_before_match: BTreeSet<i64> = BTreeSet::new();
  let mut matched = false;
  let mut delivered: BTreeMap<i64, u32> = BTreeMap::new(); // sn -> times
  // writer DATAFRAGs observed (for the byte check against the independent fragmenter)
  let mut last_acknack_base: Option<i64> = None;

  // classify + route what an endpoint sent; faults applied when `faulty`
  let mut route = |sent: Vec<Sent>, net: &mut Net, faulty: bool, frng: &mut Rng, out: &mut LOutcome, acc: &mut Acc, written: &BTreeMap<i64, (u32, Vec<u8>, bool)>, last_acknack_base: &mut Option<i64>| -> usize {
    let n = sent.len();
    for s in sent {
      let port = s.dst.map(|a| a.port()).unwrap_or(0);
      let to_reader = port == R_PORT;
      if port != R_PORT && port != W_PORT {
        continue;
      }
      // observe
      if let Ok(m) = wire::parse(&s.bytes) {
        for sub in &m.subs {
          match sub {
            Sub::DataFrag { sn, frag_start, frags_in_submsg, frag_size: fs, sample_size, bytes, .. } if to_reader => {
              if let Some((id, blob, _)) = written.get(sn) {
                let exp = wire::payload(wire::CDR_LE, &wire::vsample_cdr(id % 3, *id, blob, true));
                let from = (*frag_start as usize - 1) * frag_size;
                let to = (from + *frags_in_submsg as usize * frag_size).min(exp.len());
                let good = *fs as usize == frag_size && *sample_size as usize == exp.len() && from < exp.len() && bytes.len() >= to - from && bytes[..to - from] == exp[from..to] && bytes.len() <= to - from + 3;
                if !good {
                  viol(acc, LProp::C05, "C05/split:writer-datafrag-differs-from-independent-fragmenter".into(), json!({"sn": sn, "frag_start": frag_start, "frag_size": fs, "sample_size": sample_size, "expected_sample_size": exp.len()}));
                }
              }
            }
            Sub::AckNack { base, .. } if !to_reader => {
              *last_acknack_base = Some(*base);
            }
            _ => {}
          }
        }
      } else {
        viol(acc, LProp::C02, "C02/format:datagram-does-not-parse".into(), json!({"to_reader": to_reader}));
      }
      if faulty {
        if frng.below(100) < case.p_drop {
          out.dropped += 1;
          continue;
        }
        if frng.below(100) < case.p_delay {
          out.delayed += 1;
          net.held.push((to_reader, s.bytes.clone()));
          continue;
        }
        if frng.below(100) < case.p_dup {
          out.duplicated += 1;
          if to_reader {
            net.to_reader.push_back(s.bytes.clone());
          } else {
            net.to_writer.push_back(s.bytes.clone());
          }
        }
      }
      if to_reader {
        net.to_reader.push_back(s.bytes);
      } else {
        net.to_writer.push_back(s.bytes);
      }
    }
    n
  };

  // take everything the reader has and check it
  let mut drain_reader = |rb: &mut ReaderBench, acc: &mut Acc, out: &mut LOutcome, delivered: &mut BTreeMap<i64, u32>, written: &BTreeMap<i64, (u32, Vec<u8>, bool)>| {
    match rb.op(&ReadOp::Take { max: usize::MAX, not_read_only: false }) {
      Err(e) => viol(acc, LProp::C02, "C02/error:take-failed".into(), json!({"err": e})),
      Ok(v) => {
        for o in v {
          let sn = o.sn.unwrap_or(-1);
          match (written.get(&sn), &o.val) {
            (Some((id, blob, fragged)), ObsVal::Value { id: i2, blob: b2, .. }) => {
              if id != i2 || blob != b2 {
                let (p, s) = if *fragged { (LProp::C05, "C05/bytes:reassembled-sample-differs") } else { (LProp::C02, "C02/integrity:value-differs") };
                viol(acc, p, s.into(), json!({"sn": sn, "expected_len": blob.len(), "got_len": b2.len()}));
              }
              let c = delivered.entry(sn).or_insert(0);
              *c += 1;
              if *c > 1 {
                let (p, s) = if *fragged { (LProp::C05, "C05/once:fragmented-sample-delivered-twice") } else { (LProp::C02, "C02/once:sample-delivered-twice") };
                viol(acc, p, s.into(), json!({"sn": sn}));
              }
              out.delivered += 1;
              if *fragged {
                out.frag_delivered += 1;
              }
            }
            _ => viol(acc, LProp::C02, "C02/integrity:unknown-sample-delivered".into(), json!({"obs": format!("{o:?}")})),
          }
        }
      }
    }
  };

  // deliver queued datagrams until both queues are empty (replies are routed again)
  macro_rules! pump {
    ($faulty:expr) => {{
      let mut moved = 0usize;
      let mut guard = 0;
      while (!net.to_reader.is_empty() || !net.to_writer.is_empty()) && guard < 100_000 {
        guard += 1;
        if let Some(d) = net.to_reader.pop_front() {
          moved += 1;
          let replies = if matched { rb.inject(&d) } else { vec![] };
          route(replies, &mut net, $faulty, &mut frng, &mut out, acc, &written, &mut last_acknack_base);
        }
        if let Some(d) = net.to_writer.pop_front() {
          moved += 1;
          let replies = wb.inject(&d);
          route(replies, &mut net, $faulty, &mut frng, &mut out, acc, &written, &mut last_acknack_base);
        }
      }
      moved
    }};
  }

  let v0 = acc.violations.len();
  // ---------------- phase A: faulty
  for ev in &case.evs {
    if acc.violations.len() > v0 {
      break;
    }
    match ev {
      LEv::MatchReader => {
        matched = true;
        written_before_match = written.keys().copied().collect();
        wb.match_reader(rguid, true, format!("127.0.0.1:{R_PORT}").parse().unwrap());
        rb.match_writer(wguid, true, format!("127.0.0.1:{W_PORT}").parse().unwrap());
        sigbuf.push(9);
      }
      LEv::Write { blob_len } => {
        let id = out.written as u32 + 1;
        let blob: Vec<u8> = (0..*blob_len).map(|i| (id as usize * 13 + i) as u8).collect();
        let (r, sent) = wb.write(VSample { key: id % 3, id, blob: blob.clone() }, None, Some(((1_660_000_000u64 + id as u64) << 32) | 0x1000));
        if let Ok(sn) = r {
          let plen = 4 + 12 + blob.len();
          written.insert(sn, (id, blob, plen > frag_size));
          out.written += 1;
        }
        route(sent, &mut net, true, &mut frng, &mut out, acc, &written, &mut last_acknack_base);
        pump!(true);
        sigbuf.push(if *blob_len + 16 > frag_size { 2 } else { 1 });
      }
      LEv::HbTick => {
        let sent = wb.heartbeat_tick();
        route(sent, &mut net, true, &mut frng, &mut out, acc, &written, &mut last_acknack_base);
        pump!(true);
        sigbuf.push(3);
      }
      LEv::Repair => {
        for _ in 0..6 {
          let (sent, pending) = wb.repair_step();
          route(sent, &mut net, true, &mut frng, &mut out, acc, &written, &mut last_acknack_base);
          pump!(true);
          if !pending {
            break;
          }
        }
        sigbuf.push(4);
      }
      LEv::Flush => {
        let mut held = std::mem::take(&mut net.held);
        frng.shuffle(&mut held);
        for (to_reader, b) in held {
          if to_reader {
            net.to_reader.push_back(b);
          } else {
            net.to_writer.push_back(b);
          }
        }
        pump!(true);
        sigbuf.push(5);
      }
    }
    if matched {
      drain_reader(&mut rb, acc, &mut out, &mut delivered, &written);
    }
  }
  if !matched {
    matched = true;
    written_before_match = written.keys().copied().collect();
    wb.match_reader(rguid, true, format!("127.0.0.1:{R_PORT}").parse().unwrap());
    rb.match_writer(wguid, true, format!("127.0.0.1:{W_PORT}").parse().unwrap());
  }
  // delayed datagrams finally arrive (still part of the finite fault pattern)
  {
    let mut held = std::mem::take(&mut net.held);
    frng.shuffle(&mut held);
    for (to_reader, b) in held {
      if to_reader {
        net.to_reader.push_back(b);
      } else {
        net.to_writer.push_back(b);
      }
    }
    pump!(false);
  }
  drain_reader(&mut rb, acc, &mut out, &mut delivered, &written);

  // ---------------- phase B: fault-free rounds
  let last_written = written.keys().next_back().copied().unwrap_or(0);
  let expected: BTreeSet<i64> = wb
    .history_sns()
    .into_iter()
    .filter(|sn| case.wcfg.transient_local || !written_before_match.contains(sn))
    .collect();
  let bound = 3 + 2 * wb.history_sns().len() as u64;
  let is_converged = |delivered: &BTreeMap<i64, u32>, wb: &WriterBench| -> bool {
    expected.iter().all(|sn| delivered.contains_key(sn)) && wb.proxies().iter().all(|p| p.all_acked_before == last_written + 1) && !wb.proxies().iter().any(|p| p.repair_mode || p.frags_requested)
  };
  let mut round = 0u64;
  let mut traffic_in_round;
  while acc.violations.len() == v0 {
    if is_converged(&delivered, &wb) {
      out.converged = true;
      break;
    }
    if round >= bound {
      break;
    }
    round += 1;
    traffic_in_round = 0usize;
    let sent = wb.heartbeat_tick();
    traffic_in_round += route(sent, &mut net, false, &mut frng, &mut out, acc, &written, &mut last_acknack_base);
    traffic_in_round += pump!(false);
    let mut steps = 0;
    loop {
      let (sent, pending) = wb.repair_step();
      traffic_in_round += route(sent, &mut net, false, &mut frng, &mut out, acc, &written, &mut last_acknack_base);
      traffic_in_round += pump!(false);
      steps += 1;
      if !pending || steps > 2000 {
        break;
      }
    }
    drain_reader(&mut rb, acc, &mut out, &mut delivered, &written);
    let _ = traffic_in_round;
  }
  out.rounds_to_converge = round;
  if acc.violations.len() == v0 && !out.converged {
    // classify the stuck state for the signature
    let missing: Vec<i64> = expected.iter().copied().filter(|sn| !delivered.contains_key(sn)).collect();
    let first_missing = missing.first().copied();
    let fragged = first_missing.and_then(|sn| written.get(&sn)).map_or(false, |w| w.2);
    let kind = if missing.is_empty() {
      "all-delivered-but-writer-not-fully-acknowledged"
    } else if fragged {
      "fragmented-sample-missing"
    } else {
      "plain-sample-missing"
    };
    viol(
      acc,
      LProp::C02,
      format!("C02/stuck:{kind}"),
      json!({"rounds": round, "bound": bound, "missing": missing, "last_written": last_written, "last_acknack_base_seen": last_acknack_base, "proxies": format!("{:?}", wb.proxies()), "late_joiner": !written_before_match.is_empty(), "transient_local": case.wcfg.transient_local}),
    );
  }
  // ---------------- quiet: three more rounds must produce no datagram at all
  if acc.violations.len() == v0 && out.converged {
    let mut chatter = 0usize;
    let mut who = vec![];
    for _ in 0..3 {
      let sent = wb.heartbeat_tick();
      if !sent.is_empty() {
        who.push("writer:heartbeat");
      }
      chatter += route(sent, &mut net, false, &mut frng, &mut out, acc, &written, &mut last_acknack_base);
      let moved = pump!(false);
      if moved > 0 {
        who.push("pump");
      }
      chatter += moved;
      let (sent, _pending) = wb.repair_step();
      if !sent.is_empty() {
        who.push("writer:repair");
      }
      chatter += route(sent, &mut net, false, &mut frng, &mut out, acc, &written, &mut last_acknack_base);
      chatter += pump!(false);
    }
    if chatter > 0 {
      viol(acc, LProp::C02, "C02/quiet:traffic-continues-after-convergence".into(), json!({"datagrams": chatter, "who": who}));
    }
    drain_reader(&mut rb, acc, &mut out, &mut delivered, &written);
    // C05: every fragmented sample the reader should have got was delivered exactly once
    for sn in &expected {
      if written[sn].2 && delivered.get(sn).copied().unwrap_or(0) != 1 {
        viol(acc, LProp::C05, "C05/once:fragmented-sample-not-delivered-exactly-once".into(), json!({"sn": sn, "times": delivered.get(sn)}));
      }
    }
  }
  out.sig = fnv64(&sigbuf) ^ case.fault_seed.rotate_left(7) ^ (out.dropped << 20) ^ (out.duplicated << 40);
  out
}
