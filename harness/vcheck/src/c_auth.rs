//! C19: only CA-issued identities authenticate; forged, altered, replayed or out-of-order
//! handshake messages neither authenticate nor block the genuine handshake.
//!
//! The harness scripts the three-message PKI-DH handshake between `AuthenticationBuiltin`
//! instances through the plain-data driver `rustdds::verif::sec::auth`. The oracle only looks
//! at what the plugins answer (Err / outcome names / presence and equality of shared secrets);
//! it never consults the implementation about what *should* have happened.
use std::panic::{catch_unwind, AssertUnwindSafe};

use rustdds::verif::sec::auth::{self, Party, Tok};
use serde_json::{json, Value};

use crate::{
  ctx::{hex, par_cases, Acc, Args, Report},
  prng::{fnv64, Rng},
};

const ST_GENUINE: u64 = 0x1901;
const ST_FORGE: u64 = 0x1902;

const REQ_ID: &str = "DDS:Auth:PKI-DH:1.0+Req";
const REP_ID: &str = "DDS:Auth:PKI-DH:1.0+Reply";
const FIN_ID: &str = "DDS:Auth:PKI-DH:1.0+Final";
const DSIGN: &[u8] = b"ECDSA-SHA256";
const KAGREE: &[u8] = b"ECDH+prime256v1-CEUM";

// ------------------------------------------------------------------ fixtures

#[derive(Clone)]
struct Ident {
  name: String,
  cert: Vec<u8>,
  key: Vec<u8>,
  /// the Identity CA this identity's own plugin trusts
  ca: Vec<u8>,
  /// first 6 GUID bytes bound to the certificate subject (as the identity's own plugin adjusts it)
  start: [u8; 6],
  token: Tok,
}

struct Fx {
  /// three identities issued by the shipped Identity CA
  gen: Vec<Ident>,
  foreign: Ident,
  foreign_same_subject: Ident,
  selfsigned: Ident,
  expired: Option<Ident>,
  /// indices into `gen`, ascending GUID start (the lower GUID initiates)
  order: Vec<usize>,
}

fn load_ident(dir: &std::path::Path, name: &str, cert: &str, key: &str, ca: &str) -> Result<Ident, String> {
  let rd = |n: &str| std::fs::read(dir.join(n)).map_err(|e| format!("fixture {n}: {e}"));
  let (cert, key, ca) = (rd(cert)?, rd(key)?, rd(ca)?);
  let p = Party::new(&cert, &key, &ca, [0x11; 16]).map_err(|e| format!("validate_local_identity({name}): {e}"))?;
  let mut start = [0u8; 6];
  start.copy_from_slice(&p.guid()[..6]);
  let token = p.identity_token()?;
  Ok(Ident { name: name.to_string(), cert, key, ca, start, token })
}

fn load_fx(args: &Args) -> Result<Fx, String> {
  let d = args.verif_dir.join("fixtures/c19");
  let gen = vec![
    load_ident(&d, "p1", "p1_cert.pem", "p1_key.pem", "ca.cert.pem")?,
    load_ident(&d, "p2", "p2_cert.pem", "p2_key.pem", "ca.cert.pem")?,
    load_ident(&d, "p3", "p3_cert.pem", "p3_key.pem", "ca.cert.pem")?,
  ];
  let mut order: Vec<usize> = (0..gen.len()).collect();
  order.sort_by_key(|i| gen[*i].start);
  Ok(Fx {
    foreign: load_ident(&d, "foreign", "foreign_p_cert.pem", "foreign_p_key.pem", "foreign_ca.cert.pem")?,
    foreign_same_subject: load_ident(&d, "foreign-p2", "foreign_p2_cert.pem", "foreign_p2_key.pem", "foreign_ca.cert.pem")?,
    selfsigned: load_ident(&d, "selfsigned-p2", "selfsigned_p2_cert.pem", "selfsigned_p2_key.pem", "selfsigned_p2_cert.pem")?,
    // a plugin that checks validity periods would refuse this as a local identity: then there is nothing to observe
    expired: load_ident(&d, "expired", "expired_cert.pem", "expired_key.pem", "ca.cert.pem").ok(),
    gen,
    order,
  })
}

fn perm_doc(name: &str) -> Vec<u8> {
  format!("MIME-Version: 1.0\n-- signed permissions document of {name} (opaque to the authentication plugin) --\n").repeat(3).into_bytes()
}

// ------------------------------------------------------------------ sessions

/// error texts of the plugin can be very long (they Debug-print whole handshake states)
fn short(e: impl std::fmt::Display) -> String {
  let e = e.to_string();
  if e.chars().count() > 200 {
    format!("{}...", e.chars().take(200).collect::<String>())
  } else {
    e
  }
}

fn pfx(g: [u8; 16]) -> [u8; 12] {
  let mut p = [0u8; 12];
  p.copy_from_slice(&g[..12]);
  p
}

fn mk_party(id: &Ident, rng: &mut Rng) -> Result<Party, String> {
  let mut cg = [0u8; 16];
  cg.copy_from_slice(&rng.bytes(16));
  let mut p = Party::new(&id.cert, &id.key, &id.ca, cg)?;
  p.set_permissions_document(&perm_doc(&id.name))?;
  Ok(p)
}

struct Sess {
  ini: Party,
  rep: Party,
  ini_id: usize,
  rep_id: usize,
  /// initiator's identity handle for the replier, and vice versa
  h_i2r: u32,
  h_r2i: u32,
}

/// both parties see each other's identity token and GUID prefix; -> (outcome at a, a's handle for b, outcome at b, b's handle for a)
fn cross_validate(a: &mut Party, b: &mut Party, auth_req: Option<&Tok>) -> Result<(String, u32, String, u32), String> {
  let (ta, tb) = (a.identity_token()?, b.identity_token()?);
  let (oa, ha) = a.validate_remote(&tb, pfx(b.guid()), auth_req).map_err(|e| format!("validate_remote_identity: {}", short(e)))?;
  let (ob, hb) = b.validate_remote(&ta, pfx(a.guid()), auth_req).map_err(|e| format!("validate_remote_identity: {}", short(e)))?;
  Ok((oa, ha, ob, hb))
}

fn into_sess(a: Party, ai: usize, b: Party, bi: usize, v: (String, u32, String, u32)) -> Result<Sess, String> {
  let (oa, ha, ob, hb) = v;
  match (oa.as_str(), ob.as_str()) {
    ("PendingHandshakeRequest", "PendingHandshakeMessage") => Ok(Sess { ini: a, rep: b, ini_id: ai, rep_id: bi, h_i2r: ha, h_r2i: hb }),
    ("PendingHandshakeMessage", "PendingHandshakeRequest") => Ok(Sess { ini: b, rep: a, ini_id: bi, rep_id: ai, h_i2r: hb, h_r2i: ha }),
    _ => Err(format!("validate_remote_identity outcomes are not complementary: {oa} / {ob}")),
  }
}

fn setup(fx: &Fx, x: usize, y: usize, rng: &mut Rng, auth_req: Option<&Tok>) -> Result<Sess, String> {
  let mut a = mk_party(&fx.gen[x], rng)?;
  let mut b = mk_party(&fx.gen[y], rng)?;
  let v = cross_validate(&mut a, &mut b, auth_req)?;
  into_sess(a, x, b, y, v)
}

impl Sess {
  fn request(&mut self) -> Result<(u32, Tok), String> {
    let pd = self.ini.pdata();
    let (o, h, t) = self.ini.begin_request(self.h_i2r, pd).map_err(|e| format!("begin_handshake_request: {}", short(e)))?;
    if o != "PendingHandshakeMessage" {
      return Err(format!("begin_handshake_request: outcome {o}"));
    }
    Ok((h, t))
  }
  fn reply(&mut self, req: &Tok) -> Result<(u32, Tok), String> {
    let pd = self.rep.pdata();
    let (o, h, t) = self.rep.begin_reply(self.h_r2i, req, pd).map_err(|e| format!("begin_handshake_reply(genuine request): {}", short(e)))?;
    if o != "PendingHandshakeMessage" {
      return Err(format!("begin_handshake_reply(genuine request): outcome {o}"));
    }
    Ok((h, t))
  }
  fn fin(&mut self, hs_i: u32, rep: &Tok) -> Result<Tok, String> {
    match self.ini.process(hs_i, rep).map_err(|e| format!("process_handshake(genuine reply): {}", short(e)))? {
      (o, Some(t)) if o == "OkFinalMessage" => Ok(t),
      (o, t) => Err(format!("process_handshake(genuine reply): outcome {o}, final token present: {}", t.is_some())),
    }
  }
  fn done(&mut self, hs_r: u32, fin: &Tok) -> Result<(), String> {
    match self.rep.process(hs_r, fin).map_err(|e| format!("process_handshake(genuine final): {}", short(e)))? {
      (o, None) if o == "Ok" => Ok(()),
      (o, t) => Err(format!("process_handshake(genuine final): outcome {o}, token present: {}", t.is_some())),
    }
  }
  /// both ends hold a shared secret and the three values (secret, challenge1, challenge2) agree
  fn secrets(&self) -> Result<Vec<u8>, String> {
    match (self.ini.shared_secret(self.h_i2r), self.rep.shared_secret(self.h_r2i)) {
      (Some(a), Some(b)) => {
        if a == b {
          Ok(a.0)
        } else {
          Err("shared secrets (or challenges) of the two ends differ".to_string())
        }
      }
      (a, b) => Err(format!("shared secret missing: initiator has one: {}, replier has one: {}", a.is_some(), b.is_some())),
    }
  }
}

struct Transcript {
  req: Tok,
  rep: Tok,
  fin: Tok,
  hs_i: u32,
  hs_r: u32,
}

fn run_all(s: &mut Sess) -> Result<Transcript, String> {
  let (hs_i, req) = s.request()?;
  let (hs_r, rep) = s.reply(&req)?;
  let fin = s.fin(hs_i, &rep)?;
  s.done(hs_r, &fin)?;
  s.secrets()?;
  Ok(Transcript { req, rep, fin, hs_i, hs_r })
}

// ------------------------------------------------------------------ tokens as data

fn tokj(t: &Tok) -> Value {
  json!({"class_id": t.class_id, "properties": t.props,
    "binary_properties": t.bprops.iter().map(|(n, v)| json!([n, hex(v)])).collect::<Vec<_>>()})
}

fn getp(t: &Tok, name: &str) -> Vec<u8> {
  t.bprops.iter().rev().find(|(n, _)| n == name).map(|(_, v)| v.clone()).unwrap_or_default()
}

fn msgtype(t: &Tok) -> &'static str {
  match t.class_id.as_str() {
    REQ_ID => "request",
    REP_ID => "reply",
    FIN_ID => "final",
    _ => "message-of-unknown-class",
  }
}

fn bp(name: &str, v: Vec<u8>) -> (String, Vec<u8>) {
  (name.to_string(), v)
}

/// DDS Security 1.1, 9.3.2.5.1-3: properties whose inclusion is optional ("troubleshooting only");
/// the receiver signs / verifies with its own copies, so it may ignore them altogether.
fn optional_field(msg: &str, field: &str) -> bool {
  matches!(
    (msg, field),
    ("request", "hash_c1") | ("reply", "hash_c1") | ("reply", "hash_c2") | ("reply", "dh1") | ("final", "hash_c1") | ("final", "hash_c2") | ("final", "dh1") | ("final", "dh2")
  )
}

// ---- what a forger with a key pair of his own can build (hash / sign helpers are generators in the driver)

struct Forger<'a> {
  cert: &'a [u8],
  key: &'a [u8],
  perm: Vec<u8>,
  pdata: Vec<u8>,
}

fn c_props(f: &Forger) -> Vec<(String, Vec<u8>)> {
  vec![
    bp("c.id", f.cert.to_vec()),
    bp("c.perm", f.perm.clone()),
    bp("c.pdata", f.pdata.clone()),
    bp("c.dsign_algo", DSIGN.to_vec()),
    bp("c.kagree_algo", KAGREE.to_vec()),
  ]
}

fn forge_request(f: &Forger, rng: &mut Rng) -> Result<Tok, String> {
  let mut b = c_props(f);
  let h = auth::forge_hash(&b)?;
  b.push(bp("hash_c1", h));
  b.push(bp("dh1", auth::forge_dh_public()));
  b.push(bp("challenge1", rng.bytes(32)));
  Ok(Tok { class_id: REQ_ID.to_string(), props: vec![], bprops: b })
}

fn forge_reply(f: &Forger, req: &Tok, rng: &mut Rng) -> Result<Tok, String> {
  let mut b = c_props(f);
  let hash_c2 = auth::forge_hash(&b)?;
  // hash_c1 as the receiver of the request would compute it
  let c1: Vec<(String, Vec<u8>)> =
    ["c.id", "c.perm", "c.pdata", "c.dsign_algo", "c.kagree_algo"].iter().map(|n| bp(n, getp(req, n))).collect();
  let hash_c1 = auth::forge_hash(&c1)?;
  let (dh1, ch1) = (getp(req, "dh1"), getp(req, "challenge1"));
  let (dh2, ch2) = (auth::forge_dh_public(), rng.bytes(32));
  let sig = auth::forge_sign(
    f.key,
    &[
      bp("hash_c2", hash_c2.clone()),
      bp("challenge2", ch2.clone()),
      bp("dh2", dh2.clone()),
      bp("challenge1", ch1.clone()),
      bp("dh1", dh1.clone()),
      bp("hash_c1", hash_c1.clone()),
    ],
  )?;
  b.push(bp("hash_c1", hash_c1));
  b.push(bp("dh1", dh1));
  b.push(bp("hash_c2", hash_c2));
  b.push(bp("dh2", dh2));
  b.push(bp("challenge1", ch1));
  b.push(bp("challenge2", ch2));
  b.push(bp("signature", sig));
  Ok(Tok { class_id: REP_ID.to_string(), props: vec![], bprops: b })
}

/// final message for the exchange (req, rep), signed with `key`
fn forge_final(key: &[u8], req: &Tok, rep: &Tok) -> Result<Tok, String> {
  let (hash_c1, hash_c2) = (getp(rep, "hash_c1"), getp(rep, "hash_c2"));
  let (dh1, ch1) = (getp(req, "dh1"), getp(req, "challenge1"));
  let (dh2, ch2) = (getp(rep, "dh2"), getp(rep, "challenge2"));
  let sig = auth::forge_sign(
    key,
    &[
      bp("hash_c1", hash_c1.clone()),
      bp("challenge1", ch1.clone()),
      bp("dh1", dh1.clone()),
      bp("challenge2", ch2.clone()),
      bp("dh2", dh2.clone()),
      bp("hash_c2", hash_c2.clone()),
    ],
  )?;
  Ok(Tok {
    class_id: FIN_ID.to_string(),
    props: vec![],
    bprops: vec![
      bp("hash_c1", hash_c1),
      bp("dh1", dh1),
      bp("hash_c2", hash_c2),
      bp("dh2", dh2),
      bp("challenge1", ch1),
      bp("challenge2", ch2),
      bp("signature", sig),
    ],
  })
}

fn guid_with_start(start: [u8; 6], rng: &mut Rng) -> [u8; 16] {
  let mut g = [0u8; 16];
  g[..6].copy_from_slice(&start);
  g[6..12].copy_from_slice(&rng.bytes(6));
  g[12..].copy_from_slice(&[0, 0, 1, 0xc1]);
  g
}

// ------------------------------------------------------------------ catalogue of forgeries

#[derive(Clone, Copy, Debug, PartialEq, Eq)]
enum Slot {
  /// replier waits for the request (SecureDiscovery hands any message to begin_handshake_reply)
  A,
  /// initiator has sent its request and waits for the reply (process_handshake)
  B,
  /// replier has sent its reply and waits for the final message (process_handshake)
  C,
}

impl Slot {
  fn state(self) -> &'static str {
    match self {
      Slot::A => "replier-awaiting-request",
      Slot::B => "initiator-awaiting-reply",
      Slot::C => "replier-awaiting-final",
    }
  }
  fn expected_msg(self) -> &'static str {
    match self {
      Slot::A => "request",
      Slot::B => "reply",
      Slot::C => "final",
    }
  }
  fn expected_class(self) -> &'static str {
    match self {
      Slot::A => REQ_ID,
      Slot::B => REP_ID,
      Slot::C => FIN_ID,
    }
  }
}

#[derive(Clone, Debug)]
enum Entry {
  Alter { slot: Slot, field: String, kind: &'static str },
  ClassId { slot: Slot, variant: usize },
  Replay { slot: Slot, src: &'static str, msg: &'static str },
  Forger { slot: Slot, who: &'static str },
  Garbage { slot: Slot, kind: &'static str },
  Multi { slot: Slot },
}

impl Entry {
  fn slot(&self) -> Slot {
    match self {
      Entry::Alter { slot, .. } | Entry::ClassId { slot, .. } | Entry::Replay { slot, .. } | Entry::Forger { slot, .. } | Entry::Garbage { slot, .. } | Entry::Multi { slot } => *slot,
    }
  }
}

const ALT_KINDS: [&str; 10] = ["random-same-length", "truncated", "emptied", "swapped-from-other-session", "swapped-from-third-party-session", "removed", "duplicated-with-other-value", "byte-flip", "byte-flip", "byte-flip"];
const FORGERS_AB: [&str; 10] = [
  "foreign-ca",
  "foreign-ca+copied-guid",
  "foreign-ca+same-subject",
  "self-signed",
  "unbound-guid-random",
  "unbound-guid-copied",
  "unbound-guid-bitflip",
  "unbound-guid-topbit",
  "sender-guid-mismatch",
  "expired-certificate",
];
const FORGERS_C: [&str; 3] = ["foreign-ca", "self-signed", "other-ca-issued-identity"];
const GARBAGE: [&str; 3] = ["no-properties", "random-properties", "right-names-random-values"];

fn class_variants(slot: Slot) -> Vec<String> {
  let right = slot.expected_class();
  let mut v: Vec<String> = [REQ_ID, REP_ID, FIN_ID].iter().filter(|c| **c != right).map(|c| c.to_string()).collect();
  v.push(String::new());
  v.push("DDS:Auth:PKI-DH:1.0".to_string());
  v.push(right.to_lowercase());
  v.push(format!("{right} "));
  v
}

fn catalogue(t: &Transcript) -> Vec<Entry> {
  let mut c = vec![];
  for (slot, tok) in [(Slot::A, &t.req), (Slot::B, &t.rep), (Slot::C, &t.fin)] {
    for (name, _) in &tok.bprops {
      for kind in ALT_KINDS {
        c.push(Entry::Alter { slot, field: name.clone(), kind });
      }
    }
    for variant in 0..class_variants(slot).len() {
      c.push(Entry::ClassId { slot, variant });
    }
    for src in ["other-session", "third-party-session"] {
      for msg in ["request", "reply", "final"] {
        c.push(Entry::Replay { slot, src, msg });
      }
    }
    for kind in GARBAGE {
      c.push(Entry::Garbage { slot, kind });
    }
    c.push(Entry::Multi { slot });
    c.push(Entry::Multi { slot });
  }
  // messages of this very session at a point where they are not due
  c.push(Entry::Replay { slot: Slot::B, src: "same-session", msg: "request" });
  c.push(Entry::Replay { slot: Slot::C, src: "same-session", msg: "request" });
  c.push(Entry::Replay { slot: Slot::C, src: "same-session", msg: "reply" });
  for who in FORGERS_AB {
    c.push(Entry::Forger { slot: Slot::A, who });
    c.push(Entry::Forger { slot: Slot::B, who });
  }
  for who in FORGERS_C {
    c.push(Entry::Forger { slot: Slot::C, who });
  }
  c
}

struct Forged {
  /// `C19/forgery:<family>:<what>:<effect>`
  family: String,
  what: String,
  how: String,
  tok: Tok,
  /// acceptance is not a violation (reason), see rep.assume
  not_judged: Option<&'static str>,
  /// key with which the forger could sign a final message of his own
  forger_key: Option<Vec<u8>>,
  /// a recorded final message the attacker can replay next
  next_final: Option<Tok>,
}

struct Live<'a> {
  fx: &'a Fx,
  slot: Slot,
  ini_id: usize,
  rep_id: usize,
  ini_guid: [u8; 16],
  rep_guid: [u8; 16],
  req: &'a Tok,
  rep: Option<&'a Tok>,
  fin: Option<&'a Tok>,
  other: Option<Transcript>,
  third: Option<Transcript>,
}

impl<'a> Live<'a> {
  fn expected(&self) -> &'a Tok {
    match self.slot {
      Slot::A => self.req,
      Slot::B => self.rep.expect("reply exists in slot B"),
      Slot::C => self.fin.expect("final exists in slot C"),
    }
  }
  fn third_id(&self) -> usize {
    (0..3).find(|i| *i != self.ini_id && *i != self.rep_id).unwrap_or(0)
  }
  /// earlier complete handshake between the same two identities (fresh plugin instances, other nonces)
  fn other(&mut self, rng: &mut Rng) -> Result<&Transcript, String> {
    if self.other.is_none() {
      let mut s = setup(self.fx, self.ini_id, self.rep_id, rng, None)?;
      self.other = Some(run_all(&mut s)?);
    }
    Ok(self.other.as_ref().unwrap())
  }
  /// complete handshake between the third CA-issued identity and the identity that receives in this slot
  fn third(&mut self, rng: &mut Rng) -> Result<&Transcript, String> {
    if self.third.is_none() {
      let recv = if self.slot == Slot::B { self.ini_id } else { self.rep_id };
      let mut s = setup(self.fx, self.third_id(), recv, rng, None)?;
      self.third = Some(run_all(&mut s)?);
    }
    Ok(self.third.as_ref().unwrap())
  }
}

fn pick<'t>(t: &'t Transcript, msg: &str) -> &'t Tok {
  match msg {
    "request" => &t.req,
    "reply" => &t.rep,
    _ => &t.fin,
  }
}

/// Ok(None): the alteration would not change the message (nothing to deliver)
fn build(e: &Entry, lv: &mut Live, rng: &mut Rng) -> Result<Option<Forged>, String> {
  let slot = lv.slot;
  let msg = slot.expected_msg();
  match e {
    Entry::Alter { field, kind, .. } => {
      let mut t = lv.expected().clone();
      let Some(idx) = t.bprops.iter().position(|(n, _)| n == field) else { return Ok(None) };
      let old = t.bprops[idx].1.clone();
      let mut how = kind.to_string();
      match *kind {
        "random-same-length" => {
          if old.is_empty() {
            return Ok(None);
          }
          let mut v = rng.bytes(old.len());
          while v == old {
            v = rng.bytes(old.len());
          }
          t.bprops[idx].1 = v;
        }
        "truncated" => {
          if old.len() < 2 {
            return Ok(None);
          }
          let n = 1 + rng.below(old.len() as u64 - 1) as usize;
          how = format!("truncated from {} to {n} bytes", old.len());
          t.bprops[idx].1.truncate(n);
        }
        "emptied" => {
          if old.is_empty() {
            return Ok(None);
          }
          t.bprops[idx].1.clear();
        }
        "swapped-from-other-session" | "swapped-from-third-party-session" => {
          let donor = if *kind == "swapped-from-other-session" { lv.other(rng)? } else { lv.third(rng)? };
          let d = pick(donor, msg);
          match d.bprops.iter().find(|(n, _)| n == field) {
            Some((_, v)) if *v != old => t.bprops[idx].1 = v.clone(),
            _ => return Ok(None),
          }
        }
        "removed" => {
          t.bprops.remove(idx);
        }
        "duplicated-with-other-value" => {
          let mut v = rng.bytes(old.len().max(1));
          while v == old {
            v = rng.bytes(old.len().max(1));
          }
          t.bprops.push((field.clone(), v));
        }
        _ => {
          if old.is_empty() {
            return Ok(None);
          }
          let (pos, bit) = (rng.below(old.len() as u64) as usize, rng.below(8));
          how = format!("byte {pos} of {} xor {:#04x}", old.len(), 1u8 << bit);
          t.bprops[idx].1[pos] ^= 1 << bit;
        }
      }
      let not_judged = if optional_field(msg, field) {
        Some("optional-troubleshooting-property")
      } else if *kind == "duplicated-with-other-value" {
        Some("which-of-two-same-named-properties-counts-is-unspecified")
      } else {
        None
      };
      Ok(Some(Forged { family: "altered".into(), what: format!("{msg}.{field}"), how, tok: t, not_judged, forger_key: None, next_final: None }))
    }
    Entry::ClassId { variant, .. } => {
      let mut t = lv.expected().clone();
      t.class_id = class_variants(slot)[*variant].clone();
      Ok(Some(Forged { family: "altered".into(), what: format!("{msg}.class_id"), how: format!("class_id set to {:?}", t.class_id), tok: t, not_judged: None, forger_key: None, next_final: None }))
    }
    Entry::Replay { src, msg: m, .. } => {
      let (tok, next_final) = match *src {
        "same-session" => (if *m == "request" { lv.req.clone() } else { lv.rep.expect("reply exists").clone() }, None),
        "other-session" => {
          let t = lv.other(rng)?;
          (pick(t, m).clone(), Some(t.fin.clone()))
        }
        _ => {
          let t = lv.third(rng)?;
          (pick(t, m).clone(), Some(t.fin.clone()))
        }
      };
      let family = if *src == "same-session" { "out-of-order".to_string() } else { format!("replayed-from-{src}") };
      Ok(Some(Forged { family, what: m.to_string(), how: format!("genuine {m} of {src} delivered to {}", slot.state()), tok, not_judged: None, forger_key: None, next_final }))
    }
    Entry::Garbage { kind, .. } => {
      let exp = lv.expected();
      let bprops = match *kind {
        "no-properties" => vec![],
        "random-properties" => (0..1 + rng.below(6))
          .map(|i| {
            let n = rng.below(80) as usize;
            (format!("x{i}"), rng.bytes(n))
          })
          .collect(),
        _ => exp.bprops.iter().map(|(n, v)| (n.clone(), rng.bytes(v.len()))).collect(),
      };
      let tok = Tok { class_id: exp.class_id.clone(), props: vec![], bprops };
      Ok(Some(Forged { family: "made-up".into(), what: format!("{msg}:{kind}"), how: kind.to_string(), tok, not_judged: None, forger_key: None, next_final: None }))
    }
    Entry::Forger { who, .. } => {
      let fx = lv.fx;
      // whom the forger impersonates at the RTPS level: the peer the receiver has validated
      let peer_guid = if slot == Slot::B { lv.rep_guid } else { lv.ini_guid };
      let third = &fx.gen[lv.third_id()];
      let (id, guid, not_judged): (&Ident, [u8; 16], Option<&'static str>) = match *who {
        "foreign-ca" => (&fx.foreign, guid_with_start(fx.foreign.start, rng), None),
        "foreign-ca+copied-guid" => (&fx.foreign, peer_guid, None),
        "foreign-ca+same-subject" => (&fx.foreign_same_subject, guid_with_start(fx.foreign_same_subject.start, rng), None),
        "self-signed" => (&fx.selfsigned, guid_with_start(fx.selfsigned.start, rng), None),
        "unbound-guid-random" => {
          let mut g = guid_with_start(third.start, rng);
          g[..6].copy_from_slice(&rng.bytes(6));
          g[0] |= 0x80;
          if g[..6] == third.start {
            g[5] ^= 1;
          }
          (third, g, None)
        }
        "unbound-guid-copied" => (third, peer_guid, None),
        "unbound-guid-bitflip" => {
          let mut g = guid_with_start(third.start, rng);
          let bit = 1 + rng.below(47) as usize; // one of the 47 bits after the leading 1
          g[bit / 8] ^= 0x80 >> (bit % 8);
          (third, g, None)
        }
        "unbound-guid-topbit" => {
          let mut g = guid_with_start(third.start, rng);
          g[0] &= 0x7f;
          (third, g, None)
        }
        // everything in the message is consistent and CA-issued, but it is not the participant
        // (GUID) the receiver has validated and is talking to
        "sender-guid-mismatch" | "other-ca-issued-identity" => (third, guid_with_start(third.start, rng), None),
        _ => match &fx.expired {
          Some(x) => (x, guid_with_start(x.start, rng), Some("validity-period-is-not-part-of-the-statement")),
          None => return Ok(None),
        },
      };
      let f = Forger { cert: &id.cert, key: &id.key, perm: perm_doc(&id.name), pdata: auth::pdata_for_guid(guid) };
      let tok = match slot {
        Slot::A => forge_request(&f, rng)?,
        Slot::B => forge_reply(&f, lv.req, rng)?,
        Slot::C => forge_final(&id.key, lv.req, lv.rep.expect("reply exists"))?,
      };
      Ok(Some(Forged {
        family: who.to_string(),
        what: msg.to_string(),
        how: format!("built and signed by {} ({}), c.pdata GUID {}", id.name, who, hex(&guid)),
        tok,
        not_judged,
        forger_key: Some(id.key.clone()),
        next_final: None,
      }))
    }
    Entry::Multi { .. } => Ok(None), // expanded by the caller
  }
}

// ------------------------------------------------------------------ the forgery / no-dos case

fn authenticated(outcome: &str) -> bool {
  outcome == "Ok" || outcome == "OkFinalMessage"
}

fn run_forgery_case(fx: &Fx, cat: &[Entry], seed: u64, i: u64, acc: &mut Acc) {
  let mut rng = Rng::derive(seed, ST_FORGE, i);
  let e = &cat[(i % cat.len() as u64) as usize];
  let slot = e.slot();
  let pairs = [(0usize, 1usize), (0, 2), (1, 2)];
  let (x, y) = pairs[((i / cat.len() as u64) % 3) as usize];
  let case = json!({"seed": seed, "stream": ST_FORGE, "index": i});
  acc.evaluations += 1;

  macro_rules! genuine_step {
    ($r:expr) => {
      match $r {
        Ok(v) => v,
        Err(err) => {
          acc.violate(
            "C19/genuine:handshake-without-any-forgery-failed",
            json!({"error": err, "entry": format!("{e:?}")}),
            json!({"case": case, "identities": [fx.gen[x].name, fx.gen[y].name]}),
          );
          return;
        }
      }
    };
  }
  let mut s = genuine_step!(setup(fx, x, y, &mut rng, None));
  let (hs_i, req) = genuine_step!(s.request());
  let (mut hs_r, mut rep, mut fin) = (None, None, None);
  if slot != Slot::A {
    let (h, t) = genuine_step!(s.reply(&req));
    hs_r = Some(h);
    rep = Some(t);
  }
  if slot == Slot::C {
    fin = Some(genuine_step!(s.fin(hs_i, rep.as_ref().unwrap())));
  }
  let mut lv = Live {
    fx,
    slot,
    ini_id: s.ini_id,
    rep_id: s.rep_id,
    ini_guid: s.ini.guid(),
    rep_guid: s.rep.guid(),
    req: &req,
    rep: rep.as_ref(),
    fin: fin.as_ref(),
    other: None,
    third: None,
  };
  // ---- the forged message(s)
  let entries: Vec<Entry> = match e {
    Entry::Multi { .. } => {
      let same_slot: Vec<&Entry> = cat.iter().filter(|c| c.slot() == slot && !matches!(c, Entry::Multi { .. })).collect();
      (0..2 + rng.below(2)).map(|_| (*rng.pick(&same_slot)).clone()).collect()
    }
    other => vec![other.clone()],
  };
  let mut forged = vec![];
  for en in &entries {
    match build(en, &mut lv, &mut rng) {
      Ok(Some(f)) => forged.push(f),
      Ok(None) => acc.count("alteration_without_effect_skipped", 1),
      Err(err) => {
        // building needs genuine side sessions: a failure there is a failure of the genuine rule
        acc.violate("C19/genuine:handshake-without-any-forgery-failed", json!({"error": err, "while": "recording another session"}), json!({"case": case}));
        return;
      }
    }
  }
  if forged.is_empty() {
    return;
  }
  let names = json!({"initiator": fx.gen[s.ini_id].name, "replier": fx.gen[s.rep_id].name});
  let replay = |f: &Forged| json!({"case": case, "identities": names, "delivered_in_state": slot.state(), "forgery": {"family": f.family, "what": f.what, "how": f.how}, "forged_token": tokj(&f.tok)});
  acc.distinct.insert(fnv64(format!("{e:?}|{x}{y}").as_bytes()));
  if matches!(e, Entry::Multi { .. }) {
    acc.count("cases_with_several_forged_messages", 1);
  }

  // ---- deliver
  let mut first_rejected: Option<(String, String)> = None; // (message type, what) of the first rejected forgery
  for f in &forged {
    acc.count("forged_messages_delivered", 1);
    acc.count(&format!("family:{}", f.family), 1);
    acc.count(&format!("state:{}", slot.state()), 1);
    if let Entry::Alter { kind, .. } = e {
      acc.count(&format!("alteration:{kind}"), 1);
    }
    let sig = |effect: &str| format!("C19/forgery:{}:{}:{}", f.family, f.what, effect);
    match slot {
      Slot::A => {
        let pd = s.rep.pdata();
        match s.rep.begin_reply(s.h_r2i, &f.tok, pd) {
          Err(_) => {
            acc.count("forged_messages_rejected", 1);
            first_rejected.get_or_insert((msgtype(&f.tok).to_string(), f.what.clone()));
          }
          Ok((outcome, hs_r2, rep2)) => {
            // A reply to an unverifiable request is not yet authentication. Follow the exchange to its end.
            acc.count("forged_requests_answered_with_a_reply", 1);
            if authenticated(&outcome) || s.rep.shared_secret(s.h_r2i).is_some() {
              if f.not_judged.is_none() {
                acc.violate(sig("replier-authenticated"), json!({"outcome": outcome, "at": "begin_handshake_reply"}), replay(f));
              }
              return;
            }
            let forged_final = match (&f.forger_key, &f.next_final) {
              (Some(key), _) => forge_final(key, &f.tok, &rep2).ok(),
              (None, Some(fin0)) if rng.chance(1, 2) => Some(fin0.clone()),
              _ => None,
            };
            if let Some(ff) = forged_final {
              match s.rep.process(hs_r2, &ff) {
                Ok((o, _)) if authenticated(&o) || s.rep.shared_secret(s.h_r2i).is_some() => {
                  if f.not_judged.is_none() {
                    acc.violate(
                      sig("replier-authenticated"),
                      json!({"outcome": o, "replier_holds_shared_secret": s.rep.shared_secret(s.h_r2i).is_some(), "after": "forged request answered, then final message signed by the forger"}),
                      json!({"case": case, "identities": names, "forgery": {"family": f.family, "what": f.what, "how": f.how}, "forged_token": tokj(&f.tok), "forged_final": tokj(&ff)}),
                    );
                  } else {
                    acc.count(&format!("accepted_not_judged:{}", f.not_judged.unwrap()), 1);
                  }
                }
                _ => acc.count("forged_messages_rejected", 1),
              }
            } else {
              // the reply to the forged request goes to the genuine initiator
              match s.ini.process(hs_i, &rep2) {
                Ok((o, fin2)) if authenticated(&o) || s.ini.shared_secret(s.h_i2r).is_some() => {
                  let mut replier_too = false;
                  if let Some(fin2) = &fin2 {
                    if let Ok((o2, _)) = s.rep.process(hs_r2, fin2) {
                      replier_too = authenticated(&o2);
                    }
                  }
                  match f.not_judged {
                    None => {
                      acc.violate(
                        sig("initiator-authenticated"),
                        json!({"outcome": o, "initiator_holds_shared_secret": s.ini.shared_secret(s.h_i2r).is_some(), "replier_authenticated_too": replier_too,
                          "after": "replier answered the forged request; its reply was accepted by the genuine initiator"}),
                        replay(f),
                      );
                      if replier_too {
                        acc.violate(sig("replier-authenticated"), json!({"after": "final message of the initiator that accepted the reply to a forged request"}), replay(f));
                      }
                    }
                    Some(r) => acc.count(&format!("accepted_not_judged:{r}"), 1),
                  }
                }
                _ => acc.count("replies_to_forged_requests_rejected_by_initiator", 1),
              }
            }
            acc.count("unverifiable_forged_request_occupies_replier", 1);
            return; // not judged further, see rep.assume
          }
        }
      }
      Slot::B | Slot::C => {
        let (party, hs, handle, who) = if slot == Slot::B { (&mut s.ini, hs_i, s.h_i2r, "initiator") } else { (&mut s.rep, hs_r.unwrap(), s.h_r2i, "replier") };
        match party.process(hs, &f.tok) {
          Err(_) => {
            acc.count("forged_messages_rejected", 1);
            if party.shared_secret(handle).is_some() {
              acc.violate(sig("shared-secret-despite-rejection"), json!({"at": who}), replay(f));
              return;
            }
            first_rejected.get_or_insert((msgtype(&f.tok).to_string(), f.what.clone()));
          }
          Ok((o, _)) => {
            let has_secret = party.shared_secret(handle).is_some();
            if authenticated(&o) || has_secret {
              match f.not_judged {
                None => acc.violate(sig(&format!("{who}-authenticated")), json!({"outcome": o, "holds_shared_secret": has_secret}), replay(f)),
                Some(r) => acc.count(&format!("accepted_not_judged:{r}"), 1),
              }
            } else {
              acc.count("forged_message_accepted_without_authentication", 1);
            }
            return;
          }
        }
      }
    }
  }

  // ---- every forged message was rejected: the genuine handshake must still complete
  let Some((mt, what)) = first_rejected else { return };
  acc.count("genuine_continuations_after_rejection", 1);
  let cont = (|| -> Result<(), String> {
    let (hs_r, rep) = match (hs_r, &rep) {
      (Some(h), Some(t)) => (h, t.clone()),
      _ => s.reply(&req)?,
    };
    let fin = match &fin {
      Some(t) => t.clone(),
      None => s.fin(hs_i, &rep)?,
    };
    s.done(hs_r, &fin)?;
    s.secrets().map(|_| ())
  })();
  match cont {
    Ok(()) => acc.count("genuine_handshake_completed_after_rejection", 1),
    Err(err) => {
      // could the stack restart at the plugin level? (diagnosis only)
      let pd = s.ini.pdata();
      let restart_i = s.ini.begin_request(s.h_i2r, pd).map(|(o, _, t)| (o, t));
      let restart = match &restart_i {
        Ok((_, req2)) => {
          let pd = s.rep.pdata();
          json!({"initiator_begin_handshake_request_again": "ok", "replier_begin_handshake_reply_to_it": s.rep.begin_reply(s.h_r2i, req2, pd).map(|(o, _, _)| o).unwrap_or_else(|e| format!("Err: {}", short(e)))})
        }
        Err(e) => json!({"initiator_begin_handshake_request_again": format!("Err: {}", short(e))}),
      };
      acc.count("genuine_handshake_blocked_after_rejection", 1);
      let f = &forged[0];
      acc.violate(
        format!("C19/no-dos:genuine-handshake-blocked-after-forged-{mt}-in-state-{}", slot.state()),
        json!({"genuine_step_that_failed": err, "first_rejected_forgery": what, "forged_messages_delivered": forged.len(), "restart_probe": restart}),
        replay(f),
      );
    }
  }
}

// ------------------------------------------------------------------ the genuine case

fn run_genuine_case(fx: &Fx, seed: u64, i: u64, acc: &mut Acc) {
  let mut rng = Rng::derive(seed, ST_GENUINE, i);
  let pairs = [(0usize, 1usize), (1, 0), (0, 2), (2, 0), (1, 2), (2, 1)];
  let (x, y) = pairs[(i % 6) as usize];
  let variant = (i / 6) % 4;
  let case = json!({"seed": seed, "stream": ST_GENUINE, "index": i});
  acc.evaluations += 1;
  let fail = |acc: &mut Acc, what: &str, err: String| {
    acc.violate(
      format!("C19/genuine:{what}"),
      json!({"error": err}),
      json!({"case": case, "identities": [fx.gen[x].name, fx.gen[y].name], "variant": variant}),
    );
  };
  // an AuthRequestMessageToken may accompany the identity token (variant 3)
  let auth_req = Tok { class_id: "DDS:Auth:PKI-DH:1.0+AuthReq".into(), props: vec![], bprops: vec![bp("future_challenge", rng.bytes(32))] };
  let mut s = match setup(fx, x, y, &mut rng, if variant == 3 { Some(&auth_req) } else { None }) {
    Ok(s) => s,
    Err(e) => return fail(acc, "validate-remote-identity-failed", e),
  };
  acc.count(&format!("roles:{}-initiates-to-{}", fx.gen[s.ini_id].name, fx.gen[s.rep_id].name), 1);
  if s.ini.shared_secret(s.h_i2r).is_some() || s.rep.shared_secret(s.h_r2i).is_some() {
    return fail(acc, "shared-secret-before-handshake", String::new());
  }
  let t = match run_all(&mut s) {
    Ok(t) => t,
    Err(e) => return fail(acc, "handshake-between-ca-issued-identities-failed", e),
  };
  let secret1 = s.secrets().unwrap_or_default();
  acc.count("genuine_handshakes_completed", 1);
  acc.distinct.insert(fnv64(&secret1));
  if i < 2 {
    acc.sample(json!({"initiator": fx.gen[s.ini_id].name, "replier": fx.gen[s.rep_id].name, "request_properties": t.req.bprops.iter().map(|p| format!("{}[{}]", p.0, p.1.len())).collect::<Vec<_>>(), "shared_secret": hex(&secret1)}), 2);
  }
  match variant {
    1 => {
      // the same two plugin instances meet again (new identity handles): second handshake, first one untouched
      let v = match cross_validate(&mut s.ini, &mut s.rep, None) {
        Ok(v) => v,
        Err(e) => return fail(acc, "repeated-validate-remote-identity-failed", e),
      };
      let (old_i2r, old_r2i) = (s.h_i2r, s.h_r2i);
      if v.0 != "PendingHandshakeRequest" || v.2 != "PendingHandshakeMessage" {
        return fail(acc, "repeated-validate-remote-identity-failed", format!("roles changed: {} / {}", v.0, v.2));
      }
      s.h_i2r = v.1;
      s.h_r2i = v.3;
      if let Err(e) = run_all(&mut s) {
        return fail(acc, "repeated-handshake-failed", e);
      }
      let first_still = s.ini.shared_secret(old_i2r).map(|x| x.0) == Some(secret1.clone()) && s.rep.shared_secret(old_r2i).map(|x| x.0) == Some(secret1.clone());
      if !first_still {
        return fail(acc, "repeated-handshake-disturbed-the-first-one", String::new());
      }
      acc.count("genuine_handshakes_completed", 1);
      acc.count("repeated_handshakes_completed", 1);
    }
    2 => {
      // one party in two handshakes at once, steps interleaved
      let z = (0..3).find(|k| *k != x && *k != y).unwrap();
      let r = (|| -> Result<(), String> {
        let mut c = mk_party(&fx.gen[z], &mut rng)?;
        let mut d = mk_party(&fx.gen[y], &mut rng)?;
        let mut e2 = mk_party(&fx.gen[x], &mut rng)?;
        // c talks to d and to e2 at the same time
        let v1 = cross_validate(&mut c, &mut d, None)?;
        let v2 = cross_validate(&mut c, &mut e2, None)?;
        // drive both through c step by step; roles as they fall
        struct Leg {
          c_initiates: bool,
          hc: u32,
          hp: u32,
        }
        let leg = |v: &(String, u32, String, u32)| Leg { c_initiates: v.0 == "PendingHandshakeRequest", hc: v.1, hp: v.3 };
        let (l1, l2) = (leg(&v1), leg(&v2));
        // step 1: requests
        let cpd = c.pdata();
        let mut reqs = vec![];
        for (l, p) in [(&l1, &mut d), (&l2, &mut e2)] {
          let r = if l.c_initiates { c.begin_request(l.hc, cpd.clone())? } else { let pd = p.pdata(); p.begin_request(l.hp, pd)? };
          reqs.push(r);
        }
        // step 2: replies
        let mut reps = vec![];
        for ((l, p), (_, _, req)) in [(&l1, &mut d), (&l2, &mut e2)].into_iter().zip(reqs.iter()) {
          let r = if l.c_initiates { let pd = p.pdata(); p.begin_reply(l.hp, req, pd)? } else { c.begin_reply(l.hc, req, cpd.clone())? };
          reps.push(r);
        }
        // step 3 + 4, second leg first
        for k in [1usize, 0] {
          let (l, p) = if k == 0 { (&l1, &mut d) } else { (&l2, &mut e2) };
          let (hs_ini, hs_rep) = (reqs[k].1, reps[k].1);
          let (o, fin) = if l.c_initiates { c.process(hs_ini, &reps[k].2)? } else { p.process(hs_ini, &reps[k].2)? };
          let fin = fin.ok_or(format!("no final token, outcome {o}"))?;
          let (o2, _) = if l.c_initiates { p.process(hs_rep, &fin)? } else { c.process(hs_rep, &fin)? };
          if o != "OkFinalMessage" || o2 != "Ok" {
            return Err(format!("outcomes {o} / {o2}"));
          }
          let (a, b) = (c.shared_secret(l.hc), p.shared_secret(l.hp));
          if a.is_none() || a != b {
            return Err("shared secrets of an interleaved handshake missing or different".into());
          }
        }
        if c.shared_secret(l1.hc) == c.shared_secret(l2.hc) {
          return Err("two different peers, same shared secret".into());
        }
        Ok(())
      })();
      match r {
        Ok(()) => {
          acc.count("genuine_handshakes_completed", 2);
          acc.count("interleaved_handshakes_completed", 2);
        }
        Err(e) => return fail(acc, "interleaved-handshakes-failed", e),
      }
    }
    _ => {}
  }
  // observation only (not judged): what a stray message does to a *completed* handshake
  if variant == 0 {
    let _ = s.ini.process(t.hs_i, &t.rep);
    let _ = s.rep.process(t.hs_r, &t.fin);
    acc.count("observed:completed_handshake_hit_by_repeated_message", 1);
    if s.secrets().is_err() {
      acc.count("observed:shared_secret_gone_after_repeated_message_to_completed_handshake", 1);
    }
  }
}

/// The initiator is an implementation that chooses the other key agreement algorithm the specification allows,
/// DH+MODP-2048-256: its request is the genuine one with c.kagree_algo, dh1 and hash_c1 replaced, its final is
/// built with the toolkit and signed with the initiator's own (CA-issued) key. The RustDDS replier must complete
/// and hold the secret the initiator computes in that group.
fn run_modp_initiator_case(fx: &Fx, seed: u64, i: u64, acc: &mut Acc) {
  let mut rng = Rng::derive(seed, ST_GENUINE ^ 0x40, i);
  let pairs = [(0usize, 1usize), (1, 0), (0, 2), (2, 0), (1, 2), (2, 1)];
  let (x, y) = pairs[(i % 6) as usize];
  let case = json!({"seed": seed, "stream": ST_GENUINE ^ 0x40, "index": i});
  acc.evaluations += 1;
  let r = (|| -> Result<(Vec<u8>, Vec<u8>, bool), String> {
    let mut s = setup(fx, x, y, &mut rng, None)?;
    let (_hs_i, req) = s.request()?;
    let key = auth::ModpKey::generate()?;
    let mut req2 = req.clone();
    for (n, v) in req2.bprops.iter_mut() {
      match n.as_str() {
        "c.kagree_algo" => *v = b"DH+MODP-2048-256".to_vec(),
        "dh1" => *v = key.public(),
        _ => {}
      }
    }
    let c1: Vec<(String, Vec<u8>)> = ["c.id", "c.perm", "c.pdata", "c.dsign_algo", "c.kagree_algo"].iter().map(|n| bp(n, getp(&req2, n))).collect();
    let h = auth::forge_hash(&c1)?;
    for (n, v) in req2.bprops.iter_mut() {
      if n == "hash_c1" {
        *v = h.clone();
      }
    }
    let (hs_r, rep) = s.reply(&req2)?;
    let dh2 = getp(&rep, "dh2");
    let in_group = key.in_subgroup(&dh2);
    let fin = forge_final(&fx.gen[s.ini_id].key, &req2, &rep)?;
    s.done(hs_r, &fin)?;
    let theirs = s.rep.shared_secret(s.h_r2i).map(|x| x.0).ok_or("the replier holds no shared secret after the final message")?;
    let mine = key.shared_secret(&dh2)?;
    Ok((theirs, mine, in_group))
  })();
  match r {
    Err(e) => acc.violate("C19/genuine:modp-2048-256-initiator:handshake-failed", json!({"error": e}), json!({"case": case, "identities": [fx.gen[x].name, fx.gen[y].name]})),
    Ok((theirs, mine, in_group)) => {
      if theirs != mine {
        acc.violate(
          "C19/genuine:modp-2048-256-initiator:shared-secrets-differ",
          json!({"replier": hex(&theirs), "initiator": hex(&mine), "repliers_dh2_is_in_the_2048_256_subgroup": in_group}),
          json!({"case": case, "identities": [fx.gen[x].name, fx.gen[y].name]}),
        );
      } else {
        acc.count("genuine_handshakes_completed_with_modp_2048_256_initiator", 1);
        acc.distinct.insert(fnv64(&mine));
      }
    }
  }
}

// ------------------------------------------------------------------ positive controls for the forger's toolkit

/// A message built with the toolkit by somebody who *has* a CA-issued identity and uses the GUID
/// bound to it must be accepted: otherwise the forged messages might be rejected for a reason
/// that has nothing to do with the forgery.
fn controls(fx: &Fx, seed: u64, acc: &mut Acc) {
  let mut rng = Rng::derive(seed, ST_FORGE, u64::MAX);
  let (lo, mid, hi) = (fx.order[0], fx.order[1], fx.order[2]);
  let m = &fx.gen[mid];
  let guid = guid_with_start(m.start, &mut rng);
  let f = Forger { cert: &m.cert, key: &m.key, perm: perm_doc(&m.name), pdata: auth::pdata_for_guid(guid) };
  // toolkit as initiator towards the highest identity
  let r = (|| -> Result<(), String> {
    let mut h = mk_party(&fx.gen[hi], &mut rng)?;
    let (o, handle) = h.validate_remote(&m.token, pfx(guid), None)?;
    if o != "PendingHandshakeMessage" {
      return Err(format!("role {o}"));
    }
    let req = forge_request(&f, &mut rng)?;
    let pd = h.pdata();
    let (_, hs, rep) = h.begin_reply(handle, &req, pd)?;
    let fin = forge_final(&m.key, &req, &rep)?;
    match h.process(hs, &fin)? {
      (o, _) if o == "Ok" && h.shared_secret(handle).is_some() => Ok(()),
      (o, _) => Err(format!("outcome {o}")),
    }
  })();
  match r {
    Ok(()) => acc.count("control:toolkit_request_and_final_accepted_when_ca_issued", 1),
    Err(e) => acc.inconclusive.push(format!("positive control (toolkit request/final with a CA-issued identity) failed: {e}")),
  }
  // toolkit as replier towards the lowest identity
  let r = (|| -> Result<(), String> {
    let mut l = mk_party(&fx.gen[lo], &mut rng)?;
    let (o, handle) = l.validate_remote(&m.token, pfx(guid), None)?;
    if o != "PendingHandshakeRequest" {
      return Err(format!("role {o}"));
    }
    let pd = l.pdata();
    let (_, hs, req) = l.begin_request(handle, pd)?;
    let rep = forge_reply(&f, &req, &mut rng)?;
    match l.process(hs, &rep)? {
      (o, Some(_)) if o == "OkFinalMessage" && l.shared_secret(handle).is_some() => Ok(()),
      (o, _) => Err(format!("outcome {o}")),
    }
  })();
  match r {
    Ok(()) => acc.count("control:toolkit_reply_accepted_when_ca_issued", 1),
    Err(e) => acc.inconclusive.push(format!("positive control (toolkit reply with a CA-issued identity) failed: {e}")),
  }
}

// ------------------------------------------------------------------ front end

pub fn run_c19(args: &Args) -> i32 {
  let mut rep = Report::new(
    args,
    "three identities issued by the shipped Identity CA (committed fixtures), every unordered pair, roles as the GUID order dictates. \
     genuine: request -> reply -> final between fresh plugin instances, also repeated on the same instances, interleaved with a third party, and with an AuthRequest token; and with an initiator of another implementation that chooses DH+MODP-2048-256 (genuine request with c.kagree_algo, dh1, hash_c1 replaced, final built with the toolkit and signed with its CA-issued key): the replier's shared secret must be the one the initiator computes in the RFC 5114 2048/256 group. \
     forgery/no-dos: a catalogue enumerated completely in every round: for each of the three receiver states (replier awaiting request, initiator awaiting reply, replier awaiting final) \
     x {every binary property of the message due in that state x (random same length, truncated, emptied, swapped with the same property of another session of the same pair / of a third-party session, removed, duplicated with another value, 3 sampled single-bit flips); \
     class_id changed 6 ways; request/reply/final recorded in another session of the same pair or in a third-party session; messages of this session delivered where they are not due; made-up tokens; \
     messages built and signed by a forger with his own key: foreign CA (own GUID, GUID copied from the impersonated peer, same subject name as a genuine participant), self-signed, CA-issued certificate with a c.pdata GUID not bound to it (random, copied, one bit off, leading bit cleared), \
     CA-issued third party answering in place of the validated peer; 2-3 of the above in a row}. The forged message is delivered in that state of an otherwise genuine handshake; \
     if rejected, the genuine messages follow and must complete the handshake. distinct = (catalogue entry, pair); non-trivial = the delivered token differs from the genuine one due (alterations without effect are skipped)",
  );
  rep.assume("authenticated = the call answers Ok / OkFinalMessage or get_shared_secret yields a secret for that peer; PendingHandshakeMessage from begin_handshake_reply (a reply was produced) is not authentication");
  rep.assume("a handshake request is unsigned by protocol design: a replier cannot tell a forged, altered or stale request from a fresh one. When the replier answers such a request the exchange is followed to its end (nobody may authenticate from it), but that the replier is then occupied with the forger's exchange is not judged (counter unverifiable_forged_request_occupies_replier); the spec's remedy (AuthRequestMessageToken.future_challenge) is ignored by the builtin plugin");
  rep.assume("acceptance is not judged for alterations of properties whose inclusion DDS Security 1.1 (9.3.2.5.1-3) makes optional 'for troubleshooting' (request.hash_c1; reply.hash_c1, reply.hash_c2, reply.dh1; final.hash_c1, final.hash_c2, final.dh1, final.dh2): a receiver may ignore them. c.id, c.perm, c.pdata, c.dsign_algo, c.kagree_algo are covered through hash_c1/hash_c2 inside the signatures and ARE judged, as are dh1 (request), dh2, challenge1, challenge2, signature and class_id");
  rep.assume("a duplicated property carrying another value: which of two same-named properties counts is unspecified, acceptance not judged; an expired CA-issued certificate: validity periods are not part of the statement, observed only");
  rep.assume("no-dos is judged after rejected messages in the three waiting states; messages hitting an already completed handshake are observed only (SecureDiscovery does not pass them to the plugin)");
  let fx = match load_fx(args) {
    Ok(f) => f,
    Err(e) => {
      let mut acc = Acc::default();
      acc.inconclusive.push(format!("fixtures: {e}"));
      return rep.finish(acc);
    }
  };
  let seed = args.seed;
  let mut acc = Acc::default();
  // template transcript: property names of the three messages
  let template = {
    let mut rng = Rng::derive(seed, ST_GENUINE, u64::MAX);
    match setup(&fx, 0, 1, &mut rng, None).and_then(|mut s| run_all(&mut s)) {
      Ok(t) => t,
      Err(e) => {
        acc.violate("C19/genuine:handshake-between-ca-issued-identities-failed", json!({"error": e}), json!({"case": {"seed": seed, "stream": ST_GENUINE, "index": u64::MAX}}));
        return rep.finish(acc);
      }
    }
  };
  let cat = catalogue(&template);
  rep.extra.insert("catalogue_entries".into(), json!(cat.len()));
  rep.extra.insert(
    "message_properties".into(),
    json!({"request": template.req.bprops.iter().map(|p| p.0.clone()).collect::<Vec<_>>(),
      "reply": template.rep.bprops.iter().map(|p| p.0.clone()).collect::<Vec<_>>(),
      "final": template.fin.bprops.iter().map(|p| p.0.clone()).collect::<Vec<_>>()}),
  );
  rep.extra.insert("guid_order_of_identities".into(), json!(fx.order.iter().map(|i| fx.gen[*i].name.clone()).collect::<Vec<_>>()));
  rep.extra.insert("expired_certificate_usable_as_local_identity".into(), json!(fx.expired.is_some()));
  controls(&fx, seed, &mut acc);
  // observation only: does an expired (but CA-issued) certificate authenticate against a genuine participant?
  if let Some(x) = &fx.expired {
    let mut rng = Rng::derive(seed, ST_GENUINE, u64::MAX - 1);
    let r = (|| -> Result<(), String> {
      let mut a = mk_party(x, &mut rng)?;
      let mut b = mk_party(&fx.gen[0], &mut rng)?;
      let v = cross_validate(&mut a, &mut b, None)?;
      let mut s = into_sess(a, 0, b, 0, v)?;
      run_all(&mut s).map(|_| ())
    })();
    rep.extra.insert("observed_expired_certificate_completes_handshake".into(), json!(r.is_ok()));
  }

  let replay_case = crate::replay_index(args);
  let replay_stream = args.replay.as_ref().and_then(|p| std::fs::read_to_string(p).ok()).and_then(|s| serde_json::from_str::<Value>(&s).ok()).and_then(|v| v["replay"]["case"]["stream"].as_u64());
  let guarded = |acc: &mut Acc, stream: u64, i: u64, f: &dyn Fn(&mut Acc)| {
    if catch_unwind(AssertUnwindSafe(|| f(acc))).is_err() {
      acc.violate("C19/no-dos:panic-while-handling-handshake-messages", json!({}), json!({"case": {"seed": seed, "stream": stream, "index": i}}));
    }
  };
  // ---- genuine
  let n_gen = args.scale(2_400, 72_000);
  let g = par_cases(args.threads(), n_gen, |i, acc| {
    let (is_gen, is_modp) = (replay_stream.map_or(true, |s| s == ST_GENUINE), replay_stream.map_or(true, |s| s == ST_GENUINE ^ 0x40));
    if replay_case.map_or(false, |rc| rc != i) {
      return;
    }
    if is_gen {
      guarded(acc, ST_GENUINE, i, &|acc| run_genuine_case(&fx, seed, i, acc));
    }
    if is_modp && i % 4 == 0 {
      guarded(acc, ST_GENUINE ^ 0x40, i, &|acc| run_modp_initiator_case(&fx, seed, i, acc));
    }
  });
  acc.merge(g);
  // ---- forgery / no-dos: whole catalogue per round
  let rounds = args.scale(100, 3_000);
  let n_forge = rounds * cat.len() as u64;
  let f = par_cases(args.threads(), n_forge, |i, acc| {
    if replay_case.map_or(false, |rc| rc != i || replay_stream != Some(ST_FORGE)) {
      return;
    }
    guarded(acc, ST_FORGE, i, &|acc| run_forgery_case(&fx, &cat, seed, i, acc));
  });
  acc.merge(f);
  if replay_case.is_none() {
    rep.require("genuine_handshakes_completed", 2000);
    rep.require("genuine_handshakes_completed_with_modp_2048_256_initiator", 300);
    rep.require("repeated_handshakes_completed", 300);
    rep.require("interleaved_handshakes_completed", 300);
    rep.require("forged_messages_rejected", 20_000);
    rep.require("genuine_continuations_after_rejection", 20_000);
    rep.require("control:toolkit_request_and_final_accepted_when_ca_issued", 1);
    rep.require("control:toolkit_reply_accepted_when_ca_issued", 1);
    for st in ["replier-awaiting-request", "initiator-awaiting-reply", "replier-awaiting-final"] {
      rep.require(&format!("state:{st}"), 5000);
    }
    for fam in ["altered", "out-of-order", "replayed-from-other-session", "replayed-from-third-party-session", "made-up", "foreign-ca", "foreign-ca+copied-guid", "foreign-ca+same-subject", "self-signed", "unbound-guid-random", "unbound-guid-copied", "unbound-guid-bitflip", "unbound-guid-topbit", "sender-guid-mismatch", "other-ca-issued-identity"] {
      rep.require(&format!("family:{fam}"), 80);
    }
  }
  rep.finish(acc)
}
