//! C19 (stub)
use rustdds::verif::sec::auth::{Party, Tok};
use crate::ctx::Args;
pub fn run_c19(args: &Args) -> i32 {
  let d = args.verif_dir.join("fixtures/c19");
  let rd = |n: &str| std::fs::read(d.join(n)).unwrap();
  let mut a = Party::new(&rd("p1_cert.pem"), &rd("p1_key.pem"), &rd("ca.cert.pem"), [1; 16]).unwrap();
  let mut b = Party::new(&rd("p2_cert.pem"), &rd("p2_key.pem"), &rd("ca.cert.pem"), [2; 16]).unwrap();
  println!("{:?} {:?}", a.guid(), b.guid());
  let ta: Tok = a.identity_token().unwrap();
  println!("{ta:?}");
  let mut gp = [0u8; 12];
  gp.copy_from_slice(&b.guid()[..12]);
  println!("{:?}", a.validate_remote(&b.identity_token().unwrap(), gp, None));
  gp.copy_from_slice(&a.guid()[..12]);
  println!("{:?}", b.validate_remote(&ta, gp, None));
  0
}
