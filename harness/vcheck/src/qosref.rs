//! Reference request/offered table (DDS 1.4 section 2.2.3, table "RxO") written
//! independently of the implementation's Ord impls, plus value domains.
use rustdds::{policy::*, Duration, QosPolicies, QosPolicyBuilder};

pub fn durations() -> Vec<Duration> {
  vec![Duration::ZERO, Duration::from_millis(1), Duration::from_secs(1), Duration::from_secs(2), Duration::INFINITE]
}

fn dur_le(a: Duration, b: Duration) -> bool {
  a.to_nanoseconds() <= b.to_nanoseconds() || b == Duration::INFINITE
}

#[derive(Clone, Debug, Default)]
pub struct Q {
  pub durability: Option<Durability>,
  pub presentation: Option<Presentation>,
  pub deadline: Option<Deadline>,
  pub latency_budget: Option<LatencyBudget>,
  pub ownership: Option<Ownership>,
  pub liveliness: Option<Liveliness>,
  pub reliability: Option<Reliability>,
  pub destination_order: Option<DestinationOrder>,
}

impl Q {
  pub fn build(&self) -> QosPolicies {
    let mut b = QosPolicyBuilder::new();
    if let Some(x) = self.durability {
      b = b.durability(x);
    }
    if let Some(x) = self.presentation {
      b = b.presentation(x);
    }
    if let Some(x) = self.deadline {
      b = b.deadline(x);
    }
    if let Some(x) = self.latency_budget {
      b = b.latency_budget(x);
    }
    if let Some(x) = self.ownership {
      b = b.ownership(x);
    }
    if let Some(x) = self.liveliness {
      b = b.liveliness(x);
    }
    if let Some(x) = self.reliability {
      b = b.reliability(x);
    }
    if let Some(x) = self.destination_order {
      b = b.destination_order(x);
    }
    b.build()
  }
}

fn rank_durability(d: Durability) -> u8 {
  match d {
    Durability::Volatile => 0,
    Durability::TransientLocal => 1,
    Durability::Transient => 2,
    Durability::Persistent => 3,
  }
}
fn rank_scope(s: PresentationAccessScope) -> u8 {
  match s {
    PresentationAccessScope::Instance => 0,
    PresentationAccessScope::Topic => 1,
    PresentationAccessScope::Group => 2,
  }
}
fn live_parts(l: Liveliness) -> (u8, Duration) {
  match l {
    Liveliness::Automatic { lease_duration } => (0, lease_duration),
    Liveliness::ManualByParticipant { lease_duration } => (1, lease_duration),
    Liveliness::ManualByTopic { lease_duration } => (2, lease_duration),
  }
}

/// Names (as the implementation's QosPolicyId prints them) of all policies that are
/// incompatible by the reference table. Empty = compatible.
pub fn incompatible(off: &Q, req: &Q) -> Vec<&'static str> {
  let mut v = vec![];
  if let (Some(o), Some(r)) = (off.durability, req.durability) {
    if rank_durability(o) < rank_durability(r) {
      v.push("Durability");
    }
  }
  if let (Some(o), Some(r)) = (off.presentation, req.presentation) {
    if rank_scope(o.access_scope) < rank_scope(r.access_scope) || (r.coherent_access && !o.coherent_access) || (r.ordered_access && !o.ordered_access) {
      v.push("Presentation");
    }
  }
  if let (Some(o), Some(r)) = (off.deadline, req.deadline) {
    if !dur_le(o.0, r.0) {
      v.push("Deadline");
    }
  }
  if let (Some(o), Some(r)) = (off.latency_budget, req.latency_budget) {
    if !dur_le(o.duration, r.duration) {
      v.push("LatencyBudget");
    }
  }
  if let (Some(o), Some(r)) = (off.ownership, req.ownership) {
    let k = |x: Ownership| matches!(x, Ownership::Exclusive { .. });
    if k(o) != k(r) {
      v.push("Ownership");
    }
  }
  if let (Some(o), Some(r)) = (off.liveliness, req.liveliness) {
    let (ok, od) = live_parts(o);
    let (rk, rd) = live_parts(r);
    if ok < rk || !dur_le(od, rd) {
      v.push("Liveliness");
    }
  }
  if let (Some(o), Some(r)) = (off.reliability, req.reliability) {
    let k = |x: Reliability| matches!(x, Reliability::Reliable { .. });
    if !k(o) && k(r) {
      v.push("Reliability");
    }
  }
  if let (Some(o), Some(r)) = (off.destination_order, req.destination_order) {
    let k = |x: DestinationOrder| matches!(x, DestinationOrder::BySourceTimeStamp);
    if !k(o) && k(r) {
      v.push("DestinationOrder");
    }
  }
  v
}

pub fn dom_durability() -> Vec<Option<Durability>> {
  vec![None, Some(Durability::Volatile), Some(Durability::TransientLocal), Some(Durability::Transient), Some(Durability::Persistent)]
}
pub fn dom_presentation() -> Vec<Option<Presentation>> {
  let mut v = vec![None];
  for s in [PresentationAccessScope::Instance, PresentationAccessScope::Topic, PresentationAccessScope::Group] {
    for c in [false, true] {
      for o in [false, true] {
        v.push(Some(Presentation { access_scope: s, coherent_access: c, ordered_access: o }));
      }
    }
  }
  v
}
pub fn dom_deadline() -> Vec<Option<Deadline>> {
  let mut v = vec![None];
  v.extend(durations().into_iter().map(|d| Some(Deadline(d))));
  v
}
pub fn dom_latency() -> Vec<Option<LatencyBudget>> {
  let mut v = vec![None];
  v.extend(durations().into_iter().map(|d| Some(LatencyBudget { duration: d })));
  v
}
pub fn dom_ownership() -> Vec<Option<Ownership>> {
  vec![None, Some(Ownership::Shared), Some(Ownership::Exclusive { strength: 0 }), Some(Ownership::Exclusive { strength: 7 })]
}
pub fn dom_liveliness() -> Vec<Option<Liveliness>> {
  let mut v = vec![None];
  for d in durations() {
    v.push(Some(Liveliness::Automatic { lease_duration: d }));
    v.push(Some(Liveliness::ManualByParticipant { lease_duration: d }));
    v.push(Some(Liveliness::ManualByTopic { lease_duration: d }));
  }
  v
}
pub fn dom_reliability() -> Vec<Option<Reliability>> {
  vec![
    None,
    Some(Reliability::BestEffort),
    Some(Reliability::Reliable { max_blocking_time: Duration::ZERO }),
    Some(Reliability::Reliable { max_blocking_time: Duration::from_millis(100) }),
  ]
}
pub fn dom_dest_order() -> Vec<Option<DestinationOrder>> {
  vec![None, Some(DestinationOrder::ByReceptionTimestamp), Some(DestinationOrder::BySourceTimeStamp)]
}
