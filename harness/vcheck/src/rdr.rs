//! E-WIRE reader-side engine: generated DATA/DATAFRAG/GAP/HEARTBEAT histories with
//! loss, duplication and reordering, injected into the real Reader through the
//! in-crate ReaderBench, with application reads interleaved.
//! Oracles (all in this file, plain data only):
//!   C01  order / once / no holes / integrity at every hand-over
//!   C03  truthfulness of every captured ACKNACK / NACKFRAG
//!   C05  (reader leg) reassembly: bytes, once, never premature, complete => delivered
use std::collections::{BTreeMap, BTreeSet};

use rustdds::verif::rbench::{Flavor, Obs, ObsVal, RbCfg, ReadOp, ReaderBench};
use serde_json::{json, Value};

use crate::{
  ctx::{hex, Acc},
  prng::{fnv64, Rng},
  wire::{self, DataFragMsg, DataMsg, InlineQos, Sub},
};

#[derive(Clone, Debug)]
pub enum TruthKind {
  Value { key: u32, id: u32, blob: Vec<u8> },
  DisposeKey { key: u32 },
  Unavailable,
}

#[derive(Clone, Debug)]
pub struct Truth {
  pub kind: TruthKind,
  pub ts: Option<u64>,
  pub fragmented: bool,
  /// full serialized payload (encapsulation header + CDR)
  pub payload: Vec<u8>,
  pub le: bool,
}

#[derive(Clone, Debug)]
pub struct WriterTruth {
  pub guid: [u8; 16],
  pub frag_size: u16,
  pub samples: Vec<Truth>, // index = sn-1
}
impl WriterTruth {
  fn prefix(&self) -> [u8; 12] {
    self.guid[0..12].try_into().unwrap()
  }
  fn eid(&self) -> [u8; 4] {
    self.guid[12..16].try_into().unwrap()
  }
  fn nfrags(&self, sn: i64) -> u32 {
    let t = &self.samples[(sn - 1) as usize];
    ((t.payload.len() + self.frag_size as usize - 1) / self.frag_size as usize) as u32
  }
}

#[derive(Clone, Debug)]
pub enum Unit {
  Data { w: usize, sn: i64 },
  Frags { w: usize, sn: i64, start: u32, count: u16 },
  Gap { w: usize, start: i64, base: i64, nbits: u32, members: Vec<i64> },
  Hb { w: usize, first: i64, last: i64, count: i32, fin: bool },
}

#[derive(Clone, Debug)]
pub enum Step {
  /// one datagram: units of one writer, reader id addressing, endianness
  Dgram { units: Vec<Unit>, to_unknown: bool, le: bool },
  Op(ReadOp),
  /// Discovery announces the already matched writer `w` once more (same data): nothing the reader knows about
  /// the writer may change (what it has received, its ACKNACK count, its assemblers)
  Reannounce { w: usize },
}

#[derive(Clone, Debug)]
pub struct Case {
  pub flavor: Flavor,
  pub writers: Vec<WriterTruth>,
  pub steps: Vec<Step>,
  pub faults: (u32, u32, u32), // dropped, duplicated, reordered-windows
}

pub struct GenParams {
  pub max_samples_per_writer: u64,
  pub max_writers: u64,
  pub wide_windows: bool,
}

fn writer_guid(widx: usize, keyed: bool, rng: &mut Rng) -> [u8; 16] {
  let mut g = [0u8; 16];
  g[0] = 0xEE;
  g[1] = widx as u8 + 1;
  for b in g[2..12].iter_mut() {
    *b = rng.next() as u8;
  }
  // entity key differs per writer so that UNKNOWN-reader dispatch (by entity id) works
  g[12] = 0;
  g[13] = 0x10;
  g[14] = widx as u8 + 1;
  g[15] = if keyed { 0x02 } else { 0x03 };
  g
}

pub fn sample_id(widx: usize, sn: i64) -> u32 {
  (((widx as u32) + 1) << 20) | (sn as u32 & 0xFFFFF)
}

pub fn gen_case(rng: &mut Rng, p: &GenParams) -> Case {
  let flavor = *rng.pick(&[Flavor::Keyed, Flavor::Keyed, Flavor::NoKey, Flavor::Simple, Flavor::SimpleNoKey]);
  let keyed = matches!(flavor, Flavor::Keyed | Flavor::Simple);
  let nw = 1 + rng.below(p.max_writers) as usize;
  let mut writers = vec![];
  for w in 0..nw {
    let n = 1 + rng.below(p.max_samples_per_writer) as i64;
    let frag_size = *rng.pick(&[8u16, 12, 16, 24, 64]);
    let frag_rate = rng.below(4); // 0 = none fragmented
    let unavail_rate = rng.below(4);
    let mut samples = vec![];
    for sn in 1..=n {
      let id = sample_id(w, sn);
      let le = !rng.chance(1, 5);
      let ts = if rng.chance(1, 10) { None } else { Some(((1_700_000_000u64 + id as u64) << 32) | (rng.next() & 0xFFFF_FFF0)) };
      let kind_roll = rng.below(20);
      let t = if kind_roll < unavail_rate {
        Truth { kind: TruthKind::Unavailable, ts: None, fragmented: false, payload: vec![], le }
      } else if keyed && kind_roll < unavail_rate + 2 {
        let key = 0x4000_0000 | id;
        let pl = wire::payload(if le { wire::CDR_LE } else { wire::CDR_BE }, &wire::vkey_cdr(key, le));
        Truth { kind: TruthKind::DisposeKey { key }, ts, fragmented: false, payload: pl, le }
      } else {
        let fragmented = frag_rate > 0 && rng.below(4) < frag_rate;
        let blob_len = if fragmented {
          // make payload strictly larger than one fragment, up to ~7 fragments
          let hdr = if keyed { 16 } else { 12 };
          let min = (frag_size as usize + 1).saturating_sub(hdr);
          min + rng.below(6 * frag_size as u64) as usize
        } else {
          rng.below(40) as usize
        };
        let blob = rng.bytes(blob_len);
        let key = id % 4;
        let body = if keyed { wire::vsample_cdr(key, id, &blob, le) } else { wire::vnokey_cdr(id, &blob, le) };
        let pl = wire::payload(if le { wire::CDR_LE } else { wire::CDR_BE }, &body);
        let fragmented = fragmented && pl.len() > frag_size as usize;
        Truth { kind: TruthKind::Value { key: if keyed { key } else { 0 }, id, blob }, ts, fragmented, payload: pl, le }
      };
      samples.push(t);
    }
    writers.push(WriterTruth { guid: writer_guid(w, keyed, rng), frag_size, samples });
  }

  // per-writer base transmission lists
  let mut faults = (0u32, 0u32, 0u32);
  let mut per_writer: Vec<Vec<Unit>> = vec![];
  for (w, wt) in writers.iter().enumerate() {
    let n = wt.samples.len() as i64;
    let mut units: Vec<Unit> = vec![];
    let mut hb_count = 0i32;
    let mut trimmed = 1i64;
    let hb_every = 1 + rng.below(6) as i64;
    let mut pending_gap: Vec<i64> = vec![];
    let emit_gap = |units: &mut Vec<Unit>, pg: &mut Vec<i64>, rng: &mut Rng| {
      if pg.is_empty() {
        return;
      }
      // contiguous prefix as range, rest as bitmap
      let start = pg[0];
      let mut base = start;
      let style = rng.below(3);
      if style != 1 {
        while pg.contains(&base) {
          base += 1;
        }
      }
      let members: Vec<i64> = pg.iter().copied().filter(|m| *m >= base && *m < base + 256).collect();
      let nbits = members.iter().map(|m| (m - base + 1) as u32).max().unwrap_or(0);
      let nbits = if rng.chance(1, 3) { (nbits + rng.below(40) as u32).min(256) } else { nbits };
      units.push(Unit::Gap { w, start, base, nbits, members });
      // leftovers beyond window get their own gap
      let rest: Vec<i64> = pg.iter().copied().filter(|m| *m >= base + 256).collect();
      pg.clear();
      pg.extend(rest);
    };
    for sn in 1..=n {
      let t = &wt.samples[(sn - 1) as usize];
      match t.kind {
        TruthKind::Unavailable => pending_gap.push(sn),
        _ => {
          if !pending_gap.is_empty() && rng.chance(2, 3) {
            emit_gap(&mut units, &mut pending_gap, rng);
          }
          if t.fragmented {
            let total = wt.nfrags(sn);
            let mut f = 1u32;
            while f <= total {
              let c = (1 + rng.below(3) as u32).min(total - f + 1);
              units.push(Unit::Frags { w, sn, start: f, count: c as u16 });
              f += c;
            }
          } else {
            units.push(Unit::Data { w, sn });
          }
        }
      }
      if sn % hb_every == 0 || sn == n {
        if rng.chance(1, 8) && trimmed < sn {
          trimmed = trimmed + 1 + rng.below((sn - trimmed) as u64) as i64;
        }
        hb_count += 1;
        let (first, last) = if p.wide_windows && rng.chance(1, 30) {
          // unusual but legal advertisements
          match rng.below(3) {
            0 => (sn + 1, sn),          // empty history
            1 => (trimmed, sn + 300),   // advertises far beyond what was sent
            _ => (trimmed, sn),
          }
        } else {
          (trimmed, sn)
        };
        units.push(Unit::Hb { w, first, last, count: hb_count, fin: rng.chance(1, 2) });
      }
    }
    while !pending_gap.is_empty() {
      emit_gap(&mut units, &mut pending_gap, rng);
    }

    // faults
    let p_drop = *rng.pick(&[0u64, 5, 15, 30, 50]);
    let p_dup = *rng.pick(&[0u64, 5, 15, 30]);
    let mut kept: Vec<Unit> = vec![];
    let mut dropped: Vec<Unit> = vec![];
    for u in units {
      if rng.below(100) < p_drop {
        faults.0 += 1;
        dropped.push(u);
        continue;
      }
      if rng.below(100) < p_dup {
        faults.1 += 1;
        kept.push(u.clone());
      }
      kept.push(u);
    }
    match rng.below(4) {
      0 => {}
      1 => {
        rng.shuffle(&mut kept);
        faults.2 += 1;
      }
      _ => {
        let win = 2 + rng.below(6) as usize;
        let mut i = 0;
        while i < kept.len() {
          let e = (i + win).min(kept.len());
          if rng.chance(1, 2) {
            rng.shuffle(&mut kept[i..e]);
            faults.2 += 1;
          }
          i = e;
        }
      }
    }
    // repair rounds: heartbeat then a (faulty) resend of what was dropped
    let rounds = rng.below(3);
    for _ in 0..rounds {
      hb_count += 1;
      kept.push(Unit::Hb { w, first: trimmed, last: n, count: hb_count, fin: rng.chance(1, 2) });
      let mut still: Vec<Unit> = vec![];
      for u in dropped.drain(..) {
        if matches!(u, Unit::Hb { .. }) {
          continue;
        }
        if rng.chance(1, 4) {
          still.push(u);
        } else {
          kept.push(u);
        }
      }
      dropped = still;
    }
    per_writer.push(kept);
  }

  // interleave writers, group into datagrams, sprinkle ops
  let mut steps: Vec<Step> = vec![];
  let mut cursors = vec![0usize; per_writer.len()];
  let total_units: usize = per_writer.iter().map(|v| v.len()).sum();
  let op_rate = 1 + rng.below(8);
  let mut emitted = 0;
  while emitted < total_units {
    let live: Vec<usize> = (0..per_writer.len()).filter(|w| cursors[*w] < per_writer[*w].len()).collect();
    let w = *rng.pick(&live);
    let mut units = vec![];
    let group = 1 + if rng.chance(1, 3) { rng.below(3) as usize } else { 0 };
    for _ in 0..group {
      if cursors[w] >= per_writer[w].len() {
        break;
      }
      let u = per_writer[w][cursors[w]].clone();
      let is_hb = matches!(u, Unit::Hb { .. });
      units.push(u);
      cursors[w] += 1;
      emitted += 1;
      if is_hb {
        break; // heartbeat is always last in a datagram (one per datagram)
      }
    }
    steps.push(Step::Dgram { units, to_unknown: rng.chance(1, 4), le: !rng.chance(1, 6) });
    if rng.below(10) < op_rate {
      steps.push(Step::Op(gen_op(rng, flavor)));
    }
  }
  // a quarter of the cases: the writers are announced again by discovery at random points (drawn last, so the
  // history itself is the one the same seed always gave)
  if rng.chance(1, 4) {
    for _ in 0..1 + rng.below(3) {
      let at = rng.below(steps.len() as u64 + 1) as usize;
      let w = rng.below(writers.len() as u64) as usize;
      steps.insert(at, Step::Reannounce { w });
    }
  }
  Case { flavor, writers, steps, faults }
}

pub fn gen_op(rng: &mut Rng, flavor: Flavor) -> ReadOp {
  match flavor {
    Flavor::Keyed | Flavor::NoKey => {
      let max = *rng.pick(&[1usize, 2, 5, usize::MAX]);
      let nr = rng.chance(1, 2);
      match rng.below(10) {
        0..=3 => ReadOp::Take { max, not_read_only: nr },
        4 => ReadOp::TakeNext,
        5 => ReadOp::IterTake { not_read_only: true },
        6 => ReadOp::Read { max, not_read_only: nr },
        7 => ReadOp::ReadNext,
        8 => ReadOp::IterRead { not_read_only: true },
        _ => ReadOp::Take { max: usize::MAX, not_read_only: false },
      }
    }
    Flavor::Simple | Flavor::SimpleNoKey => {
      if rng.chance(1, 2) {
        ReadOp::SimpleTakeOne
      } else {
        ReadOp::StreamPoll
      }
    }
  }
}

// ----------------------------------------------------------------------------
// Datagram construction
// ----------------------------------------------------------------------------

pub fn build_dgram(case: &Case, units: &[Unit], reader_eid: [u8; 4], own_prefix: &[u8; 12], to_unknown: bool, le: bool, rng_addr: bool) -> Vec<u8> {
  let w0 = match &units[0] {
    Unit::Data { w, .. } | Unit::Frags { w, .. } | Unit::Gap { w, .. } | Unit::Hb { w, .. } => *w,
  };
  let wt = &case.writers[w0];
  let mut out = wire::header(&wt.prefix());
  if rng_addr {
    wire::info_dst(&mut out, le, own_prefix);
  }
  let rid = if to_unknown { wire::ENTITYID_UNKNOWN } else { reader_eid };
  for u in units {
    match u {
      Unit::Data { sn, .. } => {
        let t = &wt.samples[(*sn - 1) as usize];
        match t.ts {
          Some(ts) => wire::info_ts(&mut out, le, ts),
          None => wire::info_ts_invalidate(&mut out, le),
        }
        let (key_flag, iq) = match t.kind {
          TruthKind::DisposeKey { key } => (
            true,
            Some(InlineQos { key_hash: Some(wire::vkey_hash(key)), status_info: Some(0x01), extra: vec![] }),
          ),
          _ => (false, None),
        };
        wire::data(&mut out, le, &DataMsg { reader_id: rid, writer_id: wt.eid(), sn: *sn, inline_qos: iq, payload: Some(t.payload.clone()), key_flag });
      }
      Unit::Frags { sn, start, count, .. } => {
        let t = &wt.samples[(*sn - 1) as usize];
        match t.ts {
          Some(ts) => wire::info_ts(&mut out, le, ts),
          None => wire::info_ts_invalidate(&mut out, le),
        }
        let fs = wt.frag_size as usize;
        let from = (*start as usize - 1) * fs;
        let to = (from + *count as usize * fs).min(t.payload.len());
        wire::data_frag(
          &mut out,
          le,
          &DataFragMsg {
            reader_id: rid,
            writer_id: wt.eid(),
            sn: *sn,
            frag_start: *start,
            frags_in_submsg: *count,
            frag_size: wt.frag_size,
            sample_size: t.payload.len() as u32,
            inline_qos: None,
            key_flag: false,
            bytes: t.payload[from..to].to_vec(),
          },
          true,
        );
      }
      Unit::Gap { start, base, nbits, members, .. } => {
        wire::gap(&mut out, le, rid, wt.eid(), *start, *base, *nbits, members);
      }
      Unit::Hb { first, last, count, fin, .. } => {
        wire::heartbeat(&mut out, le, rid, wt.eid(), *first, *last, *count, *fin, false);
      }
    }
  }
  out
}

// ----------------------------------------------------------------------------
// Shadow model + oracles
// ----------------------------------------------------------------------------

#[derive(Default, Debug)]
struct WShadow {
  // what was injected
  data_injected: BTreeSet<i64>, // valid DATA or complete fragment set injected
  frags: BTreeMap<i64, (u32, BTreeSet<u32>)>, // partial assemblies: total, got
  told_max: BTreeSet<i64>,      // every SN any GAP / HB first ever covered
  told_min: BTreeSet<i64>,      // only by valid GAPs and fresh valid heartbeats
  told_below_max: i64,          // SNs < this told unavailable (permissive)
  told_below_min: i64,
  last_fresh_hb: i32,
  // hand-over tracking
  first_seen: BTreeSet<i64>,
  taken: BTreeSet<i64>,
  max_first_seen: i64,
  // acknack tracking
  last_base: Option<i64>,
  last_acknack_count: Option<i32>,
  last_nackfrag_count: Option<i32>,
  counts_seen: BTreeSet<i32>,
}

impl WShadow {
  fn told_max_has(&self, sn: i64) -> bool {
    sn < self.told_below_max || self.told_max.contains(&sn)
  }
  fn told_min_has(&self, sn: i64) -> bool {
    sn < self.told_below_min || self.told_min.contains(&sn)
  }
  fn have_max(&self, sn: i64) -> bool {
    self.data_injected.contains(&sn) || self.told_max_has(sn)
  }
  fn have_min(&self, sn: i64) -> bool {
    self.data_injected.contains(&sn) || self.told_min_has(sn)
  }
}

pub struct Outcome {
  pub handed: u64,
  pub acknacks: u64,
  pub nackfrags: u64,
  pub frag_samples_delivered: u64,
  pub arrival_sig: u64,
  pub reannouncements: u64,
}

fn unit_json(u: &Unit) -> Value {
  match u {
    Unit::Data { w, sn } => json!({"DATA": [w, sn]}),
    Unit::Frags { w, sn, start, count } => json!({"DATAFRAG": [w, sn, start, count]}),
    Unit::Gap { w, start, base, nbits, members } => json!({"GAP": {"w": w, "start": start, "base": base, "nbits": nbits, "members": members}}),
    Unit::Hb { w, first, last, count, fin } => json!({"HB": {"w": w, "first": first, "last": last, "count": count, "final": fin}}),
  }
}

pub fn case_json(case: &Case) -> Value {
  json!({
    "flavor": format!("{:?}", case.flavor),
    "writers": case.writers.iter().map(|w| json!({
      "guid": hex(&w.guid), "frag_size": w.frag_size,
      "samples": w.samples.iter().map(|t| match &t.kind {
        TruthKind::Value{id, blob, ..} => json!({"v": id, "len": blob.len(), "frag": t.fragmented}),
        TruthKind::DisposeKey{key} => json!({"dispose": key}),
        TruthKind::Unavailable => json!("unavailable"),
      }).collect::<Vec<_>>() })).collect::<Vec<_>>(),
    "steps": case.steps.iter().map(|s| match s {
      Step::Dgram{units, to_unknown, le} => json!({"dgram": units.iter().map(unit_json).collect::<Vec<_>>(), "to_unknown": to_unknown, "le": le}),
      Step::Op(op) => json!({"op": format!("{op:?}")}),
      Step::Reannounce { w } => json!({"writer_announced_again": w}),
    }).collect::<Vec<_>>(),
  })
}

/// Which property's rules are reported (others are still evaluated but ignored).
#[derive(Clone, Copy, PartialEq, Eq)]
pub enum Prop {
  C01,
  C03,
  C05,
}

pub fn run_case(case: &Case, prop: Prop, acc: &mut Acc, case_tag: &Value) -> Outcome {
  let mut rb = ReaderBench::new(RbCfg {
    flavor: case.flavor,
    reliable: true,
    history: 0,
    max_samples: 1_000_000,
    reader_key: [0, 0, 7],
  });
  let reader_eid = rb.reader_entity_id();
  let own_prefix = rb.own_prefix;
  for (i, w) in case.writers.iter().enumerate() {
    rb.match_writer(w.guid, true, format!("127.0.0.1:{}", 20000 + i).parse().unwrap());
  }
  let mut sh: Vec<WShadow> = case.writers.iter().map(|_| WShadow { told_below_max: 1, told_below_min: 1, ..Default::default() }).collect();
  let mut out = Outcome { handed: 0, acknacks: 0, nackfrags: 0, frag_samples_delivered: 0, arrival_sig: 0, reannouncements: 0 };
  let mut arrivals: Vec<u8> = vec![];
  let by_guid: BTreeMap<[u8; 16], usize> = case.writers.iter().enumerate().map(|(i, w)| (w.guid, i)).collect();
  let mut by_id: BTreeMap<u32, (usize, i64)> = BTreeMap::new();
  let mut by_dkey: BTreeMap<u32, (usize, i64)> = BTreeMap::new();
  for (wi, w) in case.writers.iter().enumerate() {
    for (i, t) in w.samples.iter().enumerate() {
      match &t.kind {
        TruthKind::Value { id, .. } => {
          by_id.insert(*id, (wi, i as i64 + 1));
        }
        TruthKind::DisposeKey { key } => {
          by_dkey.insert(*key, (wi, i as i64 + 1));
        }
        _ => {}
      }
    }
  }

  let viol = |acc: &mut Acc, p: Prop, sig: &str, detail: Value| {
    if p == prop {
      acc.violate(sig.to_string(), detail, json!({"case": case_tag, "history": case_json(case)}));
    }
  };

  // process a list of observations from one op
  let mut handle_obs = |acc: &mut Acc, sh: &mut Vec<WShadow>, out: &mut Outcome, op: &ReadOp, res: &Result<Vec<Obs>, String>, step_no: usize| {
    let removing = matches!(op, ReadOp::Take { .. } | ReadOp::TakeNext | ReadOp::IterTake { .. } | ReadOp::TakeInstance { .. } | ReadOp::SimpleTakeOne | ReadOp::StreamPoll);
    let obs = match res {
      Ok(v) => v,
      Err(e) => {
        viol(acc, Prop::C01, "C01/integrity:valid-sample-reported-as-error", json!({"step": step_no, "op": format!("{op:?}"), "error": e}));
        return;
      }
    };
    let mut last_in_result: BTreeMap<usize, i64> = BTreeMap::new();
    for o in obs {
      // identify
      let ident = match (&o.writer, o.sn) {
        (Some(g), Some(sn)) => match by_guid.get(g) {
          Some(wi) => Some((*wi, sn)),
          None => {
            viol(acc, Prop::C01, "C01/integrity:unknown-writer-guid", json!({"step": step_no, "obs": format!("{o:?}")}));
            None
          }
        },
        _ => match &o.val {
          ObsVal::Value { id, .. } => by_id.get(id).copied(),
          ObsVal::Dispose { key } => by_dkey.get(key).copied(),
        },
      };
      let (wi, sn) = match ident {
        Some(x) => x,
        None => {
          viol(acc, Prop::C01, "C01/integrity:unidentifiable-sample", json!({"step": step_no, "obs": format!("{o:?}")}));
          continue;
        }
      };
      let wt = &case.writers[wi];
      if sn < 1 || sn as usize > wt.samples.len() {
        viol(acc, Prop::C01, "C01/integrity:sn-never-sent", json!({"step": step_no, "writer": wi, "sn": sn}));
        continue;
      }
      let t = &wt.samples[(sn - 1) as usize];
      let s = &mut sh[wi];
      // --- integrity
      let ok_val = match (&t.kind, &o.val) {
        (TruthKind::Value { key, id, blob }, ObsVal::Value { key: k2, id: i2, blob: b2 }) => key == k2 && id == i2 && blob == b2,
        (TruthKind::DisposeKey { key }, ObsVal::Dispose { key: k2 }) => key == k2,
        _ => false,
      };
      if !ok_val {
        let p = if t.fragmented { Prop::C05 } else { Prop::C01 };
        let sig = if t.fragmented { "C05/bytes:reassembled-sample-differs" } else { "C01/integrity:value-differs" };
        viol(acc, p, sig, json!({"step": step_no, "writer": wi, "sn": sn, "expected": format!("{:?}", t.kind), "got": format!("{:?}", o.val)}));
        if t.fragmented {
          viol(acc, Prop::C01, "C01/integrity:value-differs", json!({"step": step_no, "writer": wi, "sn": sn, "fragmented": true}));
        }
      }
      if o.writer.is_some() && o.src_ts != t.ts {
        viol(acc, Prop::C01, "C01/integrity:source-timestamp-differs", json!({"step": step_no, "writer": wi, "sn": sn, "expected": t.ts, "got": o.src_ts}));
      }
      // --- delivered without having been received?
      if !s.data_injected.contains(&sn) {
        let p = if t.fragmented { Prop::C05 } else { Prop::C01 };
        let sig = if t.fragmented { "C05/premature:handed-over-before-all-fragments-arrived" } else { "C01/integrity:handed-over-but-never-received" };
        viol(acc, p, sig, json!({"step": step_no, "writer": wi, "sn": sn, "frags_seen": format!("{:?}", s.frags.get(&sn))}));
      }
      // --- within-result order
      if let Some(prev) = last_in_result.get(&wi) {
        if sn <= *prev {
          viol(acc, Prop::C01, "C01/order:within-result", json!({"step": step_no, "writer": wi, "sn": sn, "after": prev, "op": format!("{op:?}")}));
        }
      }
      last_in_result.insert(wi, sn);
      // --- once
      if s.taken.contains(&sn) {
        let p = if t.fragmented { Prop::C05 } else { Prop::C01 };
        let sig = if t.fragmented { "C05/once:fragmented-sample-delivered-twice" } else { "C01/dup:sample-handed-over-after-take" };
        viol(acc, p, sig, json!({"step": step_no, "writer": wi, "sn": sn, "op": format!("{op:?}")}));
        if t.fragmented {
          viol(acc, Prop::C01, "C01/dup:sample-handed-over-after-take", json!({"step": step_no, "writer": wi, "sn": sn, "fragmented": true}));
        }
      }
      let first_time = !s.first_seen.contains(&sn);
      if first_time {
        // --- order across hand-overs
        if sn <= s.max_first_seen {
          viol(acc, Prop::C01, "C01/order:across-handovers", json!({"step": step_no, "writer": wi, "sn": sn, "already_handed_up_to": s.max_first_seen, "op": format!("{op:?}")}));
        }
        // --- no holes: every lower SN handed over or declared unavailable (permissive set)
        let mut m = s.max_first_seen.max(0) + 1;
        while m < sn {
          if !s.first_seen.contains(&m) && !s.told_max_has(m) {
            viol(acc, Prop::C01, "C01/hole:handed-over-past-undeclared-missing-sn", json!({"step": step_no, "writer": wi, "sn": sn, "missing": m, "op": format!("{op:?}")}));
            break;
          }
          m += 1;
        }
        s.first_seen.insert(sn);
        s.max_first_seen = s.max_first_seen.max(sn);
        out.handed += 1;
        if t.fragmented {
          out.frag_samples_delivered += 1;
        }
      }
      if removing {
        s.taken.insert(sn);
      }
    }
  };

  for (step_no, step) in case.steps.iter().enumerate() {
    match step {
      Step::Op(op) => {
        let res = rb.op(op);
        handle_obs(acc, &mut sh, &mut out, op, &res, step_no);
      }
      Step::Reannounce { w } => {
        rb.match_writer(case.writers[*w].guid, true, format!("127.0.0.1:{}", 20000 + *w).parse().unwrap());
        out.reannouncements += 1;
      }
      Step::Dgram { units, to_unknown, le } => {
        let bytes = build_dgram(case, units, reader_eid, &own_prefix, *to_unknown, *le, step_no % 3 == 0);
        // model update first (everything before the heartbeat, which is last)
        let mut hb: Option<(usize, i64, i64, i32, bool, bool)> = None;
        for u in units {
          match u {
            Unit::Data { w, sn } => {
              sh[*w].data_injected.insert(*sn);
              arrivals.extend_from_slice(&[1, *w as u8, *sn as u8]);
            }
            Unit::Frags { w, sn, start, count } => {
              let total = case.writers[*w].nfrags(*sn);
              let e = sh[*w].frags.entry(*sn).or_insert((total, BTreeSet::new()));
              for f in *start..(*start + *count as u32) {
                e.1.insert(f);
              }
              if e.1.len() as u32 == total {
                sh[*w].frags.remove(sn);
                sh[*w].data_injected.insert(*sn);
              }
              arrivals.extend_from_slice(&[2, *w as u8, *sn as u8, *start as u8]);
            }
            Unit::Gap { w, start, base, members, .. } => {
              let s = &mut sh[*w];
              let valid = *start > 0 && *base > 0;
              for m in *start..*base {
                s.told_max.insert(m);
                if valid {
                  s.told_min.insert(m);
                }
              }
              for m in members {
                s.told_max.insert(*m);
                if valid {
                  s.told_min.insert(*m);
                }
              }
              arrivals.extend_from_slice(&[3, *w as u8, *start as u8]);
            }
            Unit::Hb { w, first, last, count, fin } => {
              let s = &mut sh[*w];
              s.told_below_max = s.told_below_max.max(*first);
              let fresh = *count > s.last_fresh_hb;
              if fresh {
                s.last_fresh_hb = *count;
                // RTPS 8.3.7.5.3 validity
                if *first > 0 && *last >= 0 && *last >= *first - 1 {
                  s.told_below_min = s.told_below_min.max(*first);
                }
              }
              hb = Some((*w, *first, *last, *count, *fin, fresh));
              arrivals.extend_from_slice(&[4, *w as u8, *first as u8, *last as u8]);
            }
          }
        }
        let sent = rb.inject(&bytes);
        // ---- C03 oracle on the replies
        let mut acknacks_here = 0;
        let mut requested: BTreeSet<i64> = BTreeSet::new(); // SNs requested via ACKNACK members or NACKFRAG
        let mut ack_base_here: Option<i64> = None;
        for sdg in &sent {
          let parsed = match wire::parse(&sdg.bytes) {
            Ok(m) => m,
            Err(e) => {
              viol(acc, Prop::C03, "C03/format:reply-does-not-parse", json!({"step": step_no, "err": e, "bytes": hex(&sdg.bytes)}));
              continue;
            }
          };
          for sub in &parsed.subs {
            match sub {
              Sub::AckNack { reader_id, writer_id, base, members, count, .. } => {
                out.acknacks += 1;
                acknacks_here += 1;
                let (w, first, last, _c, _fin, _fresh) = match hb {
                  Some(h) => h,
                  None => {
                    viol(acc, Prop::C03, "C03/unsolicited:acknack-without-heartbeat", json!({"step": step_no}));
                    continue;
                  }
                };
                let wt = &case.writers[w];
                if *writer_id != wt.eid() || *reader_id != reader_eid {
                  viol(acc, Prop::C03, "C03/addressing:wrong-entity-ids", json!({"step": step_no}));
                }
                let s = &mut sh[w];
                // base truthful (permissive knowledge)
                let mut lowest_unknown = 1i64;
                while s.have_max(lowest_unknown) {
                  lowest_unknown += 1;
                }
                if *base > lowest_unknown {
                  viol(acc, Prop::C03, "C03/base:acknowledges-sn-neither-received-nor-declared", json!({"step": step_no, "writer": w, "base": base, "lowest_unknown": lowest_unknown}));
                }
                if let Some(pb) = s.last_base {
                  if *base < pb {
                    viol(acc, Prop::C03, "C03/base:decreased", json!({"step": step_no, "writer": w, "base": base, "previous": pb}));
                  }
                }
                s.last_base = Some(*base);
                ack_base_here = Some(*base);
                for m in members {
                  if s.have_min(*m) {
                    viol(acc, Prop::C03, "C03/members:requests-sn-it-already-has", json!({"step": step_no, "writer": w, "sn": m}));
                  }
                  if *m < first || *m > last {
                    viol(acc, Prop::C03, "C03/members:outside-advertised-range", json!({"step": step_no, "writer": w, "sn": m, "first": first, "last": last}));
                  }
                  requested.insert(*m);
                }
                if let Some(pc) = s.last_acknack_count {
                  if *count <= pc {
                    viol(acc, Prop::C03, "C03/count:acknack-count-not-increasing", json!({"step": step_no, "writer": w, "count": count, "previous": pc}));
                  }
                }
                s.last_acknack_count = Some(*count);
                if !s.counts_seen.insert(*count) {
                  viol(acc, Prop::C03, "C03/count:count-reused-across-acknack-nackfrag", json!({"step": step_no, "writer": w, "count": count}));
                }
              }
              Sub::NackFrag { writer_id, sn, base, members, count, .. } => {
                out.nackfrags += 1;
                let (w, first, last, ..) = match hb {
                  Some(h) => h,
                  None => {
                    viol(acc, Prop::C03, "C03/unsolicited:nackfrag-without-heartbeat", json!({"step": step_no}));
                    continue;
                  }
                };
                let wt = &case.writers[w];
                if *writer_id != wt.eid() {
                  viol(acc, Prop::C03, "C03/addressing:wrong-entity-ids", json!({"step": step_no}));
                }
                let s = &mut sh[w];
                if *sn < first || *sn > last {
                  viol(acc, Prop::C03, "C03/nackfrag:outside-advertised-range", json!({"step": step_no, "writer": w, "sn": sn}));
                }
                if s.have_min(*sn) {
                  viol(acc, Prop::C03, "C03/nackfrag:requests-fragments-of-sn-it-already-has", json!({"step": step_no, "writer": w, "sn": sn}));
                }
                match s.frags.get(sn) {
                  None => {
                    if !s.have_min(*sn) {
                      viol(acc, Prop::C03, "C03/nackfrag:sn-has-no-fragments-received", json!({"step": step_no, "writer": w, "sn": sn}));
                    }
                  }
                  Some((total, got)) => {
                    let missing: Vec<u32> = (1..=*total).filter(|f| !got.contains(f)).collect();
                    let lo = missing[0];
                    let expect: Vec<u32> = missing.iter().copied().filter(|f| *f < lo + 256).collect();
                    if *base != lo || *members != expect {
                      viol(acc, Prop::C03, "C03/nackfrag:does-not-name-exactly-the-missing-fragments", json!({"step": step_no, "writer": w, "sn": sn, "base": base, "members": members, "expected": expect}));
                    }
                  }
                }
                requested.insert(*sn);
                if let Some(pc) = s.last_nackfrag_count {
                  if *count <= pc {
                    viol(acc, Prop::C03, "C03/count:nackfrag-count-not-increasing", json!({"step": step_no, "writer": w, "count": count, "previous": pc}));
                  }
                }
                s.last_nackfrag_count = Some(*count);
                if !s.counts_seen.insert(*count) {
                  viol(acc, Prop::C03, "C03/count:count-reused-across-acknack-nackfrag", json!({"step": step_no, "writer": w, "count": count}));
                }
              }
              Sub::InfoDst { .. } => {}
              other => {
                viol(acc, Prop::C03, "C03/format:unexpected-submessage-in-reply", json!({"step": step_no, "sub": format!("{other:?}")}));
              }
            }
          }
        }
        if let Some((w, first, last, _c, fin, fresh)) = hb {
          let s = &sh[w];
          if fresh {
            if !fin && acknacks_here == 0 {
              viol(acc, Prop::C03, "C03/answer:non-final-heartbeat-not-answered", json!({"step": step_no, "writer": w}));
            }
            // lowest missing requested (sound under ambiguity, see DESIGN 3/C03):
            // surely-missing lower bound uses have_max, possibly-missing uses have_min.
            let lo_from = first.max(1);
            let mut surely_missing: Option<i64> = None;
            let mut m = lo_from;
            // cap the scan: windows can be wide but the interesting point is the first hole
            while m <= last && m < lo_from + 100_000 {
              if !s.have_max(m) {
                surely_missing = Some(m);
                break;
              }
              m += 1;
            }
            if let Some(sm) = surely_missing {
              // there is a missing sample in the advertised range => something must be requested,
              // and the lowest requested one must not skip a surely-missing one.
              match requested.iter().next() {
                None => viol(acc, Prop::C03, "C03/request:missing-sample-in-range-not-requested", json!({"step": step_no, "writer": w, "lowest_missing": sm, "first": first, "last": last, "ack_base": ack_base_here})),
                Some(e) => {
                  if *e > sm {
                    viol(acc, Prop::C03, "C03/request:lowest-missing-sample-skipped", json!({"step": step_no, "writer": w, "lowest_missing": sm, "lowest_requested": e}));
                  }
                }
              }
            }
          } else if acknacks_here > 0 {
            // answering a stale heartbeat is not forbidden by the statement; count only
            acc.count("stale_hb_answered", 1);
          }
        }
      }
    }
  }

  // ---- closure: resend everything without faults, declare unavailable ones, drain
  for (w, wt) in case.writers.iter().enumerate() {
    let n = wt.samples.len() as i64;
    for sn in 1..=n {
      let t = &wt.samples[(sn - 1) as usize];
      let units: Vec<Unit> = match t.kind {
        TruthKind::Unavailable => vec![Unit::Gap { w, start: sn, base: sn + 1, nbits: 0, members: vec![] }],
        _ if sh[w].data_injected.contains(&sn) => vec![],
        _ if t.fragmented => (1..=wt.nfrags(sn)).map(|f| Unit::Frags { w, sn, start: f, count: 1 }).collect(),
        _ => vec![Unit::Data { w, sn }],
      };
      for u in units {
        let bytes = build_dgram(case, &[u.clone()], reader_eid, &own_prefix, false, true, false);
        match &u {
          Unit::Gap { .. } => {
            sh[w].told_max.insert(sn);
            sh[w].told_min.insert(sn);
          }
          Unit::Data { .. } => {
            sh[w].data_injected.insert(sn);
          }
          Unit::Frags { start, .. } => {
            let total = wt.nfrags(sn);
            let e = sh[w].frags.entry(sn).or_insert((total, BTreeSet::new()));
            e.1.insert(*start);
            if e.1.len() as u32 == total {
              sh[w].frags.remove(&sn);
              sh[w].data_injected.insert(sn);
            }
          }
          _ => {}
        }
        rb.inject(&bytes);
      }
    }
  }
  let drain_op = match case.flavor {
    Flavor::Keyed | Flavor::NoKey => ReadOp::Take { max: usize::MAX, not_read_only: false },
    _ => ReadOp::SimpleTakeOne,
  };
  let mut guard = 0;
  loop {
    let res = rb.op(&drain_op);
    let n = res.as_ref().map(|v| v.len()).unwrap_or(0);
    handle_obs(acc, &mut sh, &mut out, &drain_op, &res, usize::MAX);
    guard += 1;
    if n == 0 || guard > 100_000 {
      break;
    }
  }
  // complete => delivered (fragmented samples; C05), by the end of the closure
  for (w, wt) in case.writers.iter().enumerate() {
    for (i, t) in wt.samples.iter().enumerate() {
      let sn = i as i64 + 1;
      if matches!(t.kind, TruthKind::Unavailable) {
        continue;
      }
      if !sh[w].first_seen.contains(&sn) {
        if sh[w].told_max_has(sn) {
          // a heartbeat/gap declared it unavailable before it was delivered: skipping is legitimate
          acc.count("closure_skipped_declared_unavailable", 1);
        } else if t.fragmented {
          viol(acc, Prop::C05, "C05/lost:complete-fragmented-sample-never-delivered", json!({"writer": w, "sn": sn}));
        } else {
          acc.count("closure_plain_sample_not_delivered", 1);
        }
      }
    }
  }
  out.arrival_sig = fnv64(&arrivals);
  out
}
