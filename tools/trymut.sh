#!/bin/bash
# usage: trymut.sh <file-in-repo> <python-regex> <replacement> <check ids...>
# applies a one-off textual mutation to /repo, runs the checks, restores the file.
f="$1"; pat="$2"; rep="$3"; shift 3
# one mutation of /repo at a time, and no ./check of anybody else while /repo is mutated
if [ -z "${VERIF_LOCK_HELD:-}" ]; then
  exec env VERIF_LOCK_HELD=1 flock -x /tmp/verif-repo.lock "$0" "$f" "$pat" "$rep" "$@"
fi
cd /repo || exit 2
python3 - "$f" "$pat" "$rep" <<'P' || { echo "pattern not found"; exit 2; }
import re,sys
f,pat,rep=sys.argv[1:4]
s=open(f).read()
n,c=re.subn(pat,rep,s,count=1,flags=re.S)
if c==0: sys.exit(1)
open(f,'w').write(n)
P
git -C /repo diff --stat | tail -1
for id in "$@"; do
  ( cd /verif && VERIF_TARGET_DIR=${VERIF_TARGET_DIR:-/verif/target} ./check $id 2>&1 | grep -E "VIOLATION|KNOWN|INCONCLUSIVE|quick:|thorough:" | cut -c1-260 | head -6 )
done
git -C /repo checkout -- "$f"
