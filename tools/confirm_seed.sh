#!/bin/bash
# usage: confirm_seed.sh <ID> <mN>  — independently confirms a seeded defect in the scratch worktree /tmp/wt-<ID>:
#   (1) demo passes without patch, (2) demo fails with patch, (3) pinned suite passes with patch.
# Writes /tmp/mutout/<ID>/<mN>/confirm.txt
ID=$1; M=$2; WT=${WT:-/tmp/wt-$ID}; D=/tmp/mutout/$ID/$M; OUT=$D/confirm.txt
cd $WT || exit 2
FEAT=""; case " C16 C17 C18 C19 " in *" $ID "*) FEAT="--features security";; esac; [ -n "${SEC:-}" ] && FEAT="--features security"
git checkout -q -- . && git clean -fdq -e target
names=$(grep -E '^\+\s*(pub )?(async )?fn [a-z0-9_]+\(\)' $D/demo.diff | sed -E 's/.*fn ([a-z0-9_]+)\(\).*/\1/' | sort -u)
[ -z "$names" ] && names="__no_test_found__"
echo "demo tests: $names" > $OUT
git apply $D/demo.diff || { echo "demo.diff does not apply" >> $OUT; exit 1; }
r1=0; for n in $names; do cargo test --offline $FEAT --lib $n > /tmp/confirm-$ID-$M-a.log 2>&1 || r1=1; grep -E "^test result" /tmp/confirm-$ID-$M-a.log | head -1 >> $OUT; done
echo "demo_without_patch_exit=$r1 (want 0)" >> $OUT
git apply $D/patch.diff || { echo "patch.diff does not apply on demo" >> $OUT; exit 1; }
r2=0; for n in $names; do cargo test --offline $FEAT --lib $n > /tmp/confirm-$ID-$M-b.log 2>&1 || r2=1; grep -E "^test result" /tmp/confirm-$ID-$M-b.log | head -1 >> $OUT; done
echo "demo_with_patch_exit=$r2 (want 1)" >> $OUT
git apply -R $D/demo.diff
cargo test --workspace --no-fail-fast --offline > /tmp/confirm-$ID-$M-c.log 2>&1; r3=$?
# the suite binds fixed UDP ports (11401, ...): a concurrent suite run elsewhere on the box makes one test fail with AddrInUse
if [ $r3 != 0 ] && grep -q AddrInUse /tmp/confirm-$ID-$M-c.log; then sleep 20; cargo test --workspace --no-fail-fast --offline > /tmp/confirm-$ID-$M-c.log 2>&1; r3=$?; fi
grep -E "^test result" /tmp/confirm-$ID-$M-c.log >> $OUT
if [ -n "$FEAT" ] && [ $r3 = 0 ]; then cargo test --offline $FEAT --lib > /tmp/confirm-$ID-$M-d.log 2>&1; r3=$?; grep -E "^test result" /tmp/confirm-$ID-$M-d.log >> $OUT; fi
echo "suite_with_patch_exit=$r3 (want 0)" >> $OUT
git checkout -q -- . && git clean -fdq -e target
if [ $r1 = 0 ] && [ $r2 = 1 ] && [ $r3 = 0 ]; then echo CONFIRMED >> $OUT; else echo NOT-CONFIRMED >> $OUT; fi
tail -1 $OUT
