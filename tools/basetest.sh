#!/bin/bash
# Runs the pinned suite (hooks off) on a scratch worktree of /repo HEAD, so that
# ad-hoc mutations of /repo's working tree cannot interfere. Log: /tmp/basetest.log
set -u
WT=/tmp/wt-base
if [ ! -d $WT ]; then git -C /repo worktree add -q --detach $WT HEAD; fi
git -C $WT checkout -q --detach "$(git -C /repo rev-parse HEAD)" && cp /repo/Cargo.lock $WT/
cd $WT && cargo test --workspace --no-fail-fast --offline > /tmp/basetest.log 2>&1
echo "EXIT=$? HEAD=$(git -C $WT rev-parse --short HEAD)" >> /tmp/basetest.log
grep -E "^test result|EXIT=" /tmp/basetest.log
