#!/bin/bash
# Interpreter / memcheck legs of C06. usage: interp_legs.sh <seed> <out.json> [scale] [quick|thorough]
# quick: only valgrind on the socket-free workload (a few seconds); thorough: everything below.
#   miri     : N processes of `cargo +nightly miri run --bin vmiri` (socket-free workload, see src/bin/vmiri.rs)
#   valgrind : memcheck on the native vmiri (many more iterations) and on one real C06 shard (sockets, benches)
# Writes a JSON summary; never decides anything itself (vcheck turns reports into VIOLATION lines).
set -u
SEED=${1:-1}; OUT=${2:-/verif/target/interp-legs.json}; SCALE=${3:-1}; MODE=${4:-thorough}
# MODE selftest: like thorough at the smallest scale, but the workload commits a deliberate out-of-bounds read,
# which both tools must report (checks the tool chain and this script's log parsing)
EXTRA=""; if [ "$MODE" = selftest ]; then EXTRA="selftest-ub"; SCALE=0.01; fi
HERE="$(cd "$(dirname "${BASH_SOURCE[0]}")/.." && pwd)"
export RUSTDDS_VERIF_DIR="$HERE" CARGO_NET_OFFLINE=true
TD="${CARGO_TARGET_DIR:-$HERE/target}"
LOGS="$TD/interp-logs"; rm -rf "$LOGS"; mkdir -p "$LOGS"
NPROC=${VERIF_THREADS:-$(nproc)}
PER=$(python3 -c "print(max(2,int(12*$SCALE)))")
# ---- miri
MIRI_OK=1
[ "$MODE" = quick ] && MIRI_OK=skip
[ "$MODE" = quick ] || ( cd "$HERE/harness" && CARGO_TARGET_DIR="$TD-miri" MIRIFLAGS="-Zmiri-disable-isolation" cargo +nightly miri run --offline --bin vmiri -- $SEED 0 0 ) > "$LOGS/miri-build.log" 2>&1 || MIRI_OK=0
if [ "$MIRI_OK" = 1 ]; then
  for k in $(seq 0 $((NPROC-1))); do
    ( cd "$HERE/harness" && CARGO_TARGET_DIR="$TD-miri" MIRIFLAGS="-Zmiri-disable-isolation" timeout 3000 cargo +nightly miri run --offline --bin vmiri -- $SEED $((k*PER)) $PER $EXTRA > "$LOGS/miri-$k.log" 2>&1; echo "EXIT=$?" >> "$LOGS/miri-$k.log" ) &
  done
  wait
fi
# ---- valgrind memcheck, native binaries
VG_ITERS=$(python3 -c "print(int(1500*$SCALE))")
( cd "$HERE/harness" && CARGO_TARGET_DIR="$TD" cargo build --offline --release --bin vmiri --bin vcheck ) > "$LOGS/native-build.log" 2>&1
for k in 0 1 2 3; do
  ( valgrind --tool=memcheck --error-exitcode=9 --errors-for-leak-kinds=none --leak-check=no --num-callers=20 "$TD/release/vmiri" $SEED $((100000+k*VG_ITERS)) $VG_ITERS $EXTRA > "$LOGS/vg-vmiri-$k.log" 2>&1; echo "EXIT=$?" >> "$LOGS/vg-vmiri-$k.log" ) &
done
# full-stack scenarios over real loopback UDP (pinned C07 witnesses): the only unsafe block of the library
# (UDPListener::messages: set_len before recv) and the socket paths run under memcheck; only valgrind's own
# diagnostics count, the scenario verdicts (timing under a 30x slow-down) are ignored
PROBES="5"; [ "$MODE" = quick ] || PROBES="1 3 5 7"
for pr in $PROBES; do
  ( VERIF_PROBE=$pr valgrind --tool=memcheck --error-exitcode=9 --errors-for-leak-kinds=none --leak-check=no --num-callers=20 "$TD/release/vcheck" C07probe > "$LOGS/vg-stack-$pr.log" 2>&1; rc=$?; [ $rc = 9 ] || rc=0; echo "EXIT=$rc" >> "$LOGS/vg-stack-$pr.log" ) &
done
# the security build (ring / openssl behind FFI) on a small C16 run, thorough only
if [ "$MODE" != quick ] && ( cd "$HERE/harness" && CARGO_TARGET_DIR="$TD" cargo build --offline --release --features security --bin vcheck-sec ) > "$LOGS/native-build-sec.log" 2>&1; then
  ( VERIF_SCALE=0.01 VERIF_THREADS=4 RUSTDDS_VERIF_DIR=/tmp/interp-sec-evidence-$$ valgrind --tool=memcheck --error-exitcode=9 --errors-for-leak-kinds=none --leak-check=no --num-callers=20 "$TD/release/vcheck-sec" C16 > "$LOGS/vg-sec-C16.log" 2>&1; rc=$?; [ $rc = 9 ] || rc=0; echo "EXIT=$rc" >> "$LOGS/vg-sec-C16.log"; rm -rf /tmp/interp-sec-evidence-$$ ) &
fi
# a full-stack scenario between SECURED participants over real UDP (handshake, key exchange, protected SEDP and user
# traffic through ring / openssl), thorough only; as above, only valgrind's own diagnostics count
if [ "$MODE" != quick ] && [ -x "$TD/release/vcheck-sec" ]; then
  ( VERIF_PROBE=1 VERIF_PROBE_SEC=origin RUSTDDS_VERIF_DIR="$HERE" valgrind --tool=memcheck --error-exitcode=9 --errors-for-leak-kinds=none --leak-check=no --num-callers=20 "$TD/release/vcheck-sec" C07probe > "$LOGS/vg-stack-sec-1.log" 2>&1; rc=$?; [ $rc = 9 ] || rc=0; echo "EXIT=$rc" >> "$LOGS/vg-stack-sec-1.log" ) &
fi
SH_CASES=$(python3 -c "print(max(10,int(60*$SCALE)))")
[ "$MODE" = quick ] || for k in 0 1 2 3; do
  ( VERIF_SEED=$SEED VERIF_DOMAIN=$((200+k)) valgrind --tool=memcheck --error-exitcode=9 --errors-for-leak-kinds=none --leak-check=no --num-callers=20 "$TD/release/vcheck" C06 --tier quick --shard-range $((500000+k*SH_CASES)) $((500000+(k+1)*SH_CASES)) --shard-out "$LOGS/vg-shard-$k.json" > "$LOGS/vg-shard-$k.log" 2>&1; echo "EXIT=$?" >> "$LOGS/vg-shard-$k.log" ) &
done
wait
python3 - "$LOGS" "$OUT" "$MIRI_OK" <<'P'
import sys,os,re,json,glob
logs,out,miri_ok=sys.argv[1],sys.argv[2],sys.argv[3]=="1"
miri_skipped=sys.argv[3]=="skip"
res={"mode":"quick" if miri_skipped else "thorough","miri":{"built":miri_ok,"skipped":miri_skipped,"processes":0,"processes_clean":0,"counters":{},"reports":[]},
     "valgrind":{"processes":0,"processes_clean":0,"counters":{},"reports":[],"shard_cases":0,"shard_violations":[]}}
def counters(line,dst):
    for kv in line.split()[1:]:
        if '=' in kv:
            k,v=kv.split('=',1)
            if v.isdigit() and k not in('seed','first'): dst[k]=dst.get(k,0)+int(v)
for f in sorted(glob.glob(logs+'/miri-[0-9]*.log')):
    t=open(f,errors='replace').read(); res["miri"]["processes"]+=1
    m=re.search(r'^VMIRI .*$',t,re.M); ex=re.search(r'EXIT=(\d+)',t)
    errs=re.findall(r'^error: (.*)$',t,re.M)
    errs=[e for e in errs if not e.startswith('aborting')]
    if m and ex and ex.group(1)=='0' and not errs:
        res["miri"]["processes_clean"]+=1; counters(m.group(0),res["miri"]["counters"])
    else:
        # first in-repo frame if any
        tail=t[t.find('error: '):] if 'error: ' in t else t
        fr=re.search(r'(/repo/src/[^\s:]+:\d+)',tail) or re.search(r'--> ([^\s]+:\d+)',tail)
        res["miri"]["reports"].append({"log":f,"error":(errs[0] if errs else ("no summary line, exit "+(ex.group(1) if ex else "?")))[:300],"at":fr.group(1) if fr else None,"is_ub":any('Undefined Behavior' in e for e in errs)})
for f in sorted(glob.glob(logs+'/vg-*.log')):
    t=open(f,errors='replace').read(); res["valgrind"]["processes"]+=1
    ex=re.search(r'EXIT=(\d+)',t); m=re.search(r'^VMIRI .*$',t,re.M)
    if m: counters(m.group(0),res["valgrind"]["counters"])
    if '/vg-stack-' in f and re.search(r'^completed=',t,re.M): res["valgrind"]["counters"]["real_udp_scenarios_run_to_the_end"]=res["valgrind"]["counters"].get("real_udp_scenarios_run_to_the_end",0)+1
    if '/vg-stack-sec-' in f and re.search(r'^completed=',t,re.M): res["valgrind"]["counters"]["real_udp_scenarios_between_secured_participants_run_to_the_end"]=res["valgrind"]["counters"].get("real_udp_scenarios_between_secured_participants_run_to_the_end",0)+1
    if '/vg-sec-' in f and re.search(r'^C16 ',t,re.M): res["valgrind"]["counters"]["security_build_runs_to_the_end"]=res["valgrind"]["counters"].get("security_build_runs_to_the_end",0)+1
    verrs=re.findall(r'^==\d+== ((?:Invalid|Conditional jump|Use of uninit|Syscall param|Mismatched|Source and dest|Argument).*)$',t,re.M)
    if ex and ex.group(1)=='0' and not verrs:
        res["valgrind"]["processes_clean"]+=1
    else:
        fr=re.search(r'\(([^()\s]*repo/src/[^\s:()]+\.rs:\d+)\)',t) or re.search(r'\(((?:[^()\s]*/)?[^\s:()/]+\.rs:\d+)\)',t)
        res["valgrind"]["reports"].append({"log":f,"error":(verrs[0] if verrs else "exit "+(ex.group(1) if ex else "?"))[:300],"at":fr.group(1) if fr else None})
for f in sorted(glob.glob(logs+'/vg-shard-*.json')):
    try:
        j=json.load(open(f)); a=j["acc"]; res["valgrind"]["shard_cases"]+=a.get("evaluations",0)
        for k,v in a.get("counters",{}).items():
            if k in("datagrams_fed","aftermath_ok"): res["valgrind"]["counters"]["shard_"+k]=res["valgrind"]["counters"].get("shard_"+k,0)+v
        for v in a.get("violations",[]):
            # timing and memory budgets do not hold under a 25x slow-down / valgrind's allocator
            if v["signature"].startswith("C06/time") or v["signature"].startswith("C06/hang"): continue
            res["valgrind"]["shard_violations"].append(v["signature"])
    except Exception as e:
        res["valgrind"]["reports"].append({"log":f,"error":"shard report unreadable: "+str(e)[:100],"at":None})
json.dump(res,open(out,'w'),indent=1)
print(json.dumps({k:({kk:vv for kk,vv in v.items() if kk!='counters'} if isinstance(v,dict) else v) for k,v in res.items()})[:1500])
P
