#!/bin/bash
# usage: runall.sh [tier] [ids...]  — runs the checks one after another, prints the summary line(s) of each
TIER=${1:-quick}; shift
IDS=${@:-C01 C02 C03 C04 C05 C06 C07 C08 C09 C10 C11 C12 C13 C14 C15 C16 C17 C18 C19 C20}
cd /verif
for id in $IDS; do
  out=$(./check $id --tier $TIER 2>&1); rc=$?
  echo "$out" | grep -E "VIOLATION|KNOWN-FINDING|INCONCLUSIVE| $TIER:" | cut -c1-260 | head -6
  echo "  -> $id exit=$rc"
done
