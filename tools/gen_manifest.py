#!/usr/bin/env python3
"""Regenerates /verif/MANIFEST.json from the table below (single source of truth)."""
import json, os, subprocess
HERE = os.path.dirname(os.path.dirname(os.path.abspath(__file__)))

def repo_hook_commits():
    out = subprocess.run(["git", "-C", "/repo", "log", "--format=%H %s"], capture_output=True, text=True).stdout
    return [l.split()[0] for l in out.splitlines() if " verif hook" in l or l.split(" ", 1)[1].startswith("verif hooks")]

CHECKS = {
 "C01": dict(engine="E-WIRE/ReaderBench", technique="runtime monitoring: trace oracle (order/once/no-hole/integrity) over take/read results of the real Reader+DataReader under generated lossy/duplicated/reordered RTPS histories",
   text="Exploration. The real Reader, MessageReceiver, TopicCache and four reader API flavours are run on generated histories (drop, duplicate, reorder, GAP/HEARTBEAT declarations, fragments, several writers, SN windows > 256) and every hand-over is judged by a shadow model that only knows what was injected. A second leg runs two reliable DataReaders of one participant on one topic (shared TopicCache) with per-reader repairs and GAPs; each reader on its own must obey the same rules (one open known finding there). Holds on the executions produced; says nothing about histories the generator does not reach.",
   note="Trusts the in-crate bench wiring (mirrors Subscriber::create_simple_datareader_internal) and the harness's own RTPS builder; reader QoS fixed to Reliable/KeepAll/large limits; event-loop dispatch bypassed.", ref="3/C01"),
 "C03": dict(engine="E-WIRE/ReaderBench", technique="runtime monitoring: every ACKNACK/NACKFRAG captured at the UDPSender tap is decoded by an independent walker and checked against a set-logic shadow model",
   text="Exploration. Every reply datagram the Reader emits for an injected HEARTBEAT is captured at UDPSender::send_to_locator and judged (base truthful and monotone, members really missing and in the advertised range, counts increasing, lowest missing requested, NACKFRAG names exactly the missing fragments, non-final heartbeats answered).",
   note="Shadow model uses a permissive and a strict knowledge set so that stale/invalid heartbeats never produce a false alarm; pre-emptive ACKNACKs are not driven.", ref="3/C03"),
 "C05": dict(engine="E-WIRE/ReaderBench", technique="runtime monitoring: reassembly oracle (bytes, exactly once, never premature, complete implies delivered) over real FragmentAssembler/Reader with an independent fragmenter",
   text="Exploration. Payloads are split by the harness's own fragmenter (RTPS 8.3.8.3), fragments are permuted, duplicated, grouped 1-3 per submessage and interleaved across samples and writers; the bytes handed over must equal the bytes fragmented, once, and only after the injected fragment set is complete.",
   note="One constant fragment size per writer; writer-side fragmentation is covered by the writer leg (C02/C04 engine).", ref="3/C05"),
}
CHECKS.update({
 "C08": dict(engine="E-API", technique="runtime monitoring: DDS 1.4 2.2.2.5.1 reference model run in lock-step with the real DataReader; every read/take result compared",
   text="Exploration. Random scripts of value/dispose arrivals (1-4 instances, 1-2 writers, dispose by key and by key hash) interleaved with all read/take forms; each result is compared with a reference model for membership (condition, instance, max_samples, KeepLast depth), per-writer order, sample state, instance state, generation counts and the view state of the most recent sample of each instance.",
   note="Arrivals are lossless and in order (loss is C01's subject); ranks are not judged; view state judged only where all readings of the spec text coincide; NOT_ALIVE_NO_WRITERS is not driven.", ref="3/C08"),
 "C09": dict(engine="E-API", technique="runtime monitoring: thread-CPU-time hang watchdog around every reader call in subprocess shards, plus exactly-once delivery oracle around injected unintelligible changes",
   text="Exploration. Undecodable CDR, unknown representation ids and disposes with never-seen key hashes are injected at head/middle/tail positions; every take form must return within a CPU-time budget, report or skip the bad change once, and deliver every intelligible change exactly once.",
   note="A call is judged hung when it burns > 2 s of thread CPU time; a shard whose call hangs is abandoned and restarted after the culprit.", ref="3/C09"),
})
CHECKS.update({
 "C02": dict(engine="E-WIRE/Link", technique="runtime monitoring: bounded-progress oracle (convergence within R rounds after faults stop, then silence) over a real Writer and real Reader joined by a fault-injecting link in logical time",
   text="Exploration. A real Writer+DataWriter and a real Reader+DataReader exchange captured datagrams through a link that drops, duplicates and delays in both directions during a faulty phase; afterwards fault-free rounds must bring the reader to hold every sample the writer holds for it, the writer to see ack base = last+1, and then three further rounds must be silent. Liveness is restated as bounded progress in protocol rounds.",
   note="Logical time (timers fired explicitly, 10 s assembly GC cannot fire); writer KeepAll without cleaning; one reader; bound R = 3 + 2*held rounds.", ref="3/C02"),
 "C04": dict(engine="E-WIRE/WriterBench", technique="runtime monitoring: per-destination capture of everything a real Writer sends, judged against a shadow of writes/ACKNACKs (retention, bound after cleaning, every request answered by bytes or GAP, HEARTBEAT truth, single-reader privacy)",
   text="Exploration. Scripted populations of fake readers (none, best-effort only, reliable, mixed, churn, late joiners) drive a real Writer with writes (some to_single_reader, some fragmented), arbitrary ACKNACKs, match/loss, heartbeat ticks, cleaning and repair-to-quiescence; all datagrams are decoded independently and compared with what was written.",
   note="Limit = History depth capped at the hard-coded 32; NACKFRAG-driven partial repair is exercised through C02's link, not here; dispose payload bytes are not compared.", ref="3/C04"),
 "C20": dict(engine="E-WIRE/WriterBench", technique="runtime monitoring: model of pending reliable readers vs the return value / completion of the real wait_for_acknowledgments (sync on a thread with measured time, async under executor discipline)",
   text="Exploration. Random histories of match/loss/write/ACKNACK (boundary bases last and last+1) around the call; success only when the model's pending set is empty, prompt success when it is, timeout not before the requested time, async future re-polled only when its waker fired. Second leg: two threads calling the sync form on one DataWriter at once; neither may report success before everything is acknowledged.",
   note="False yes is looked for during 3 ms windows and at the end; upper completion bound is a watchdog (8 s), not a verdict.", ref="3/C20"),
})
CHECKS.update({
 "C10": dict(engine="E-CODEC/QoS", technique="runtime monitoring against a reference RxO table: exhaustive per-policy pair enumeration plus sampled conjunctions, through the public compliance function and through both Reader/Writer match call sites",
   text="Per-policy request/offered tables are enumerated completely (all absent+value pairs, durations 0/1 ms/1 s/2 s/infinite) and compared with a table written from DDS 1.4; 60k+ random full policy sets check the conjunction, that a reported cause is really incompatible, and that Reader::update_writer_proxy and Writer::update_reader_proxy reach the table's verdict.",
   note="Per-policy part exhaustive over the listed value domains; the conjunction part is sampled. Partition/time-based-filter/lifespan are not RxO policies in this implementation.", ref="3/C10", category="exploration"),
 "C14": dict(engine="E-CODEC/RTPS", technique="runtime monitoring: messages built by the implementation's own constructors are serialised, parsed back and compared; an independent walker re-derives framing, flags and every field from the bytes; number-set membership rules",
   text="Exploration. 1-5 submessages per message from MessageBuilder / create_submessage / direct structs with boundary values, inline QoS, payload lengths of every residue mod 4, 0-256-bit number sets, per-submessage endianness. Oracles: structural round trip, canonical re-serialisation, framing (lengths, alignment, end), flags vs content, field-level equality with an independent decoder, number-set window rules.",
   note="HEARTBEAT_FRAG and the security submessages are not generated in the default-feature build (INFO_REPLY is, since dd5cddb); interoperability with other vendors is out of reach offline.", ref="3/C14"),
})
CHECKS.update({
 "C06": dict(engine="E-HOSTILE", technique="runtime monitoring under hostile input: panic capture with first in-library frame, per-datagram thread-CPU-time and heap high-water monitors (counting global allocator with single-allocation guard), CPU-time hang watchdog in subprocess shards, aftermath delivery check",
   text="Exploration. Structure-aware hostile datagrams (boundary-valued fields, wide ranges, lying lengths/offsets/counts, inconsistent fragments, truncation, mutation, concatenation, random bytes) interleaved with state-building valid traffic are fed to a reliable keyed reader, a best-effort no_key reader and a reliable writer; each datagram is judged for panic, disproportionate CPU time or heap growth, and afterwards a never-impersonated peer's valid traffic must be delivered in order and unaltered.",
   note="Thresholds (0.2 s CPU, 64*len+1 MiB heap, 256 MiB single request, 2 s = hang) are far from honest behaviour (microseconds, <100 KiB). Two builds (release; same with overflow checks and debug assertions on). Memcheck (both tiers) and Miri (thorough) legs run a socket-free workload over the parser and the per-writer bookkeeping plus, under valgrind, real-UDP scenarios, real shards and a security-build run; Miri cannot open sockets, so Reader/Writer objects are out of its reach.", ref="3/C06"),
})
CHECKS.update({
 "C11": dict(engine="E-STACK/fake-participants", technique="runtime monitoring at the public API: status events of a real DomainParticipant under wire-level discovery event histories from harness-controlled remote participants, with logical barriers, against a set model and the C10 reference table",
   text="Exploration. One real participant (Discovery thread, event loop, SPDP/SEDP readers, all real) is driven over loopback UDP by 2-3 fake remote participants that announce, re-announce and dispose endpoints, get disposed and reappear. After each event a marker announced on the same SEDP stream must be matched (logical barrier); the matched/incompatible status events drained through the public API must then equal exactly the model's set changes with correct current/total counts. Up to two further local readers/writers are created while the scenario runs; their matched sets must equal the model at that moment.",
   note="Timeout-based participant loss is exercised under C12; a reappearing participant re-announces its endpoints; barrier timeouts are inconclusive; <=4 events per endpoint and step (status channel capacity).", ref="3/C11"),
 "C15": dict(engine="E-CODEC/PL-CDR", technique="runtime monitoring: generated discovery values through the real PL-CDR (de)serialisers in both encodings; independent parameter-list walker inserts unknown/vendor parameters at every boundary; defaults table from RTPS 2.5",
   text="Exploration. SpdpDiscoveredParticipantData, DiscoveredReader/Writer/TopicData, ParticipantMessageData and QosPolicies with every optional field independently present/absent: round trip equality (both encodings), unchanged result with foreign parameters of length 0-64 inserted at every boundary, RTPS defaults for absent parameters (including the lease default observed through a real DiscoveryDB in the thorough tier).",
   note="Locally stamped fields (updated_time, last_updated) are excluded; must-understand PIDs (bit 14) may be refused; interoperability with other vendors is out of reach offline.", ref="3/C15"),
 "C16": dict(engine="E-SEC/crypto", technique="runtime monitoring: three CryptographicBuiltin parties wired through the plugin's own key factory/exchange; round trip, tamper (named fields located by an independent walker), wrong-key and wrong-receiver oracles at payload/submessage/message level, plugin-only and through real DATA/DATAFRAG framing",
   text="Exploration. All transformation kinds (GMAC/GCM, 128/256) with and without origin authentication at all three levels; every length 0-70 and random lengths up to 64 KiB; every named field of CryptoHeader/Content/Footer altered must be rejected, any other altered byte must not change the output; keys of another registration and missing/foreign receiver-specific MACs must be rejected; the framing leg runs payloads through MessageBuilder, serialisation, parsing and the receive-side decode path so RTPS padding is in the loop.",
   note="Security build (cargo feature security); fabricated shared secrets (no certificates); the secure full-stack scenarios belong to C07.", ref="3/C16"),
})
CHECKS.update({
 "C12": dict(engine="E-DISC + E-STACK/fake-participants", technique="runtime monitoring with interval-bracketed real time: a real DiscoveryDB driven synchronously with short leases (only verdicts decided by the measured brackets are judged), plus a real participant whose fake remote peers go silent, are disposed and reappear",
   text="Exploration. DB leg: random scripts of update/alive/cleanup/dispose/endpoint announcements/sleeps with leases 40-400 ms, infinite and absent; rules no-early-drop, drop-after, dispose-immediate, attic-restore. Stack leg: ParticipantLost and unmatch events of a real participant must not come before the advertised lease has elapsed since the last announcement, must come within a generous bound after it, never for a peer that keeps announcing (half of the fake peers address SPDP to ENTITYID_UNKNOWN, half repeat the announcement with the same sequence number), and at once after an explicit dispose.",
   note="Wall-clock enters only through measured brackets (DB leg) and generous watchdogs (stack leg: lease + 12 s); liveliness assertions through ParticipantMessageData are exercised only at the DB level (participant_is_alive).", ref="3/C12"),
 "C18": dict(engine="E-SEC/access", technique="runtime monitoring: signed-document alteration sweep through the real S/MIME verification path with an independent MIME walker; random permissions/governance documents through the real XML parsers and decision functions against a reference evaluator (own fnmatch) that judges only verdicts every reading of the statement agrees on",
   text="Exploration. Signature leg: every alteration class at sampled positions of each region of committed signed fixtures (content changes rejected; anything accepted returns byte-identical signed content; foreign-CA, transplanted and unsigned documents rejected; also through validate_local/remote_permissions). Decision leg: generated grants/rules/domain sets/patterns/validity windows/defaults, queries through check_entity (with partitions) and the public check_* functions, compared with the reference evaluator.",
   note="Security build; fixtures signed once with the shipped Permissions CA key and committed; corners the statement does not decide (empty partition lists, partially matching partitions, conflicting grants, ...) are excluded and listed in the evidence assumptions.", ref="3/C18"),
 "C19": dict(engine="E-SEC/auth", technique="runtime monitoring: scripted three-message handshakes between real AuthenticationBuiltin instances with committed CA-issued / foreign-CA / self-signed identities; catalogue of field and byte alterations, replays, reorderings and forger-built messages in every waiting state; oracle = nobody authenticates or gets a secret from a forgery, and the genuine handshake still completes afterwards",
   text="Exploration. Genuine pairs complete with equal secrets (both role orders, repeated, interleaved). A 347-entry forgery catalogue is run in all waiting states: any forgery must not lead to Ok/OkFinalMessage or a shared secret, and the genuine next message must still complete the handshake (no-dos).",
   note="Security build; plugin level (SecureDiscovery's resend logic is read, not driven); properties the spec makes optional are not judged when altered; certificate validity periods are not checked by the implementation (observed, not judged).", ref="3/C19"),
})
CHECKS.update({
 "C13": dict(engine="E-SCHED", technique="runtime monitoring under a controlled scheduler: real threads, one runnable at a time, seeded uniform-random and PCT priority schedules over yield points placed between the critical sections; lost wake-up decided at quiescence by a fresh take / re-poll",
   text="Exploration of interleavings. Producer thread (real Reader fed with DATA) against a consumer thread that follows the documented pattern through the async stream, mio-0.6 or mio-0.8, with modelled parking; and an async task writing against the full 16-slot command queue while another thread runs the Writer's command loop. At quiescence a parked consumer/task that got no wake-up although a sample is available (or its future would complete) is a lost wake-up; delivered set must equal produced set.",
   note="Granularity = the 12 yield sites (hook H5), not instructions: interleavings inside mio, the kernel socketpair or a single lock scope are not explored; the status-event channels are not scheduled. async_wait_for_acknowledgments' completion signal is covered by C20's executor-discipline leg.", ref="3/C13"),
})
CHECKS.update({
 "C07": dict(engine="E-STACK/real-participants", technique="runtime monitoring of full-stack executions: two to four real DomainParticipants in one process over loopback UDP with a seeded datagram-loss policy at the UDPSender tap; random creation/deletion scripts; the oracle reads only what the public API returned (status events, take()) and compares it with the script (what was written, when, by whom)",
   text="Exploration. Random dependency-respecting creation orders of participants (started concurrently on helper threads), topics, publishers/subscribers and 2-6 endpoints with pauses of 0-3.5 s and writes before anybody matched; with_key and no_key; reliable/best-effort readers, Volatile/TransientLocal/unset durability, KeepAll/KeepLast writers; 30 payload sizes on both sides of the fragment limit and of every residue mod 4; loss 0-10 % during discovery and 0-20 % during traffic; late joiner on an existing or a brand-new participant; deletion of a reader, a writer or a participant (both drop orders) followed by traffic among the survivors. Rules: match-within-bound (both sides), complete/ordered/unaltered delivery to reliable readers of keep-all writers (keep-last: the tail), retained history to TransientLocal late joiners, nothing earlier to Volatile readers, unmatch observed by peers.",
   note="Security-enabled participants are not part of the scenarios (C16/C17/C19 exercise the plugins at their own level); bounds are 40 s of unstalled harness time against typical waits of 2-4 s; one scenario in six has an outage longer than the participant lease (receive-side tap), total or one-sided, after which everything must match again.", ref="3/C07"),
 "C17": dict(engine="E-SEC/message-receiver", technique="runtime monitoring: a real MessageReceiver built with a real SecurityPluginsHandle (AccessControlBuiltin state from generated governance XML, CryptographicBuiltin with exchanged tokens) fed with datagrams the harness built itself, so the oracle is a lookup of what protection each injected unit carried; observation = TopicCache contents, DataReader::take and the acknack channel",
   text="Exploration. All 27 combinations of rtps/metadata/data protection kinds; every submessage kind to protected, unprotected and the three exempt builtin endpoints, with explicit and unknown receiver ids, as plaintext, correctly protected, protected with wrong keys / by an unregistered sender / with another endpoint's keys; wrong SEC_* and SRTPS_* sequencing, foreign INFO_DST/INFO_SRC context. Rules: no-plaintext-to-protected and unprotected-flows (so a receiver that blocks everything fails).",
   note="Security build; authentication is a stand-in that hands out identity handles and a fabricated shared secret, validate_*_permissions are stand-ins, every get_*_sec_attributes call is the real one; the Writer object behind the acknack channel is not instantiated.", ref="3/C17"),
})
NOT_YET = {}

def main():
    checks = []
    for pid in sorted(CHECKS):
        c = CHECKS[pid]
        checks.append({
            "property_id": pid,
            "quick_cmd": f"./check {pid} --tier quick",
            "thorough_cmd": f"./check {pid} --tier thorough",
            "evidence_file": f"/verif/evidence/{pid}.json",
            "replay_cmd_template": f"./check {pid} --replay {{path}}",
            "engine": c["engine"],
            "level_claimed": {"category": c.get("category", "exploration"), "text": c["text"], "design_ref": "DESIGN.md section " + c["ref"]},
            "level_note": c["note"],
            "technique": c["technique"],
        })
    props = [json.loads(l)["id"] for l in open(os.path.join(HERE, "properties.jsonl"))]
    na = [{"property_id": p, "reason": NOT_YET.get(p, "check not built yet in this round (planned, see DESIGN.md section 3); not claimed")} for p in props if p not in CHECKS]
    m = {
        "version": 1,
        "setup_cmd": "./tools/setup.sh",
        "hooks": {
            "guard": "cargo feature rustdds_verif (off by default)",
            "enable": "harness depends on rustdds with features=[\"rustdds_verif\"] and env RUSTDDS_VERIF_DIR=/verif (set by ./check); in-crate driver sources live in /verif/incrate",
            "baseline_off_cmd": "cd /repo && cargo test --workspace --no-fail-fast --offline",
            "source_commits": repo_hook_commits(),
            "add_only": True,
        },
        "engines": [
            {"name": "E-WIRE/ReaderBench", "path": "/verif/incrate/rbench.rs + /verif/harness/vcheck/src/rdr.rs", "serves_properties": ["C01", "C03", "C05"], "kind_free_text": "deterministic single-thread protocol bench: hand-built Reader+MessageReceiver wired to real DataReader flavours; datagrams injected as bytes, replies captured at the UDPSender tap"},
            {"name": "E-WIRE/WriterBench", "path": "/verif/incrate/wbench.rs + hooks_writer.rs + /verif/harness/vcheck/src/{wtr,wfa}.rs", "serves_properties": ["C04", "C20"], "kind_free_text": "hand-built Writer wired to a real DataWriter; fake readers as byte-level ACKNACK sources; timers replaced by explicit steps"},
            {"name": "E-WIRE/Link", "path": "/verif/harness/vcheck/src/link.rs", "serves_properties": ["C02", "C05"], "kind_free_text": "WriterBench and ReaderBench joined by a drop/dup/delay link in logical time"},
            {"name": "E-CODEC", "path": "/verif/incrate/codec.rs + /verif/harness/vcheck/src/{c_codec,c_qos,qosref}.rs", "serves_properties": ["C10", "C14"], "kind_free_text": "in-crate generators over the implementation's constructors; independent walker and reference tables in the harness"},
            {"name": "E-HOSTILE", "path": "/verif/harness/vcheck/src/{hostile,c_hostile,alloc,shard}.rs", "serves_properties": ["C06"], "kind_free_text": "hostile-datagram driver over ReaderBench+WriterBench in subprocess shards with panic hook, counting allocator, CPU-time probes and watchdog"},
            {"name": "E-STACK/fake-participants", "path": "/verif/incrate/disc.rs + /verif/harness/vcheck/src/{stk,c_stack}.rs", "serves_properties": ["C11", "C12"], "kind_free_text": "real DomainParticipant over loopback UDP against harness-controlled SPDP/SEDP speakers; public API observation; subprocess shards, one domain id each"},
            {"name": "E-STACK/real-participants", "path": "/verif/harness/vcheck/src/{stk2,c_e2e}.rs + /verif/incrate/net.rs", "serves_properties": ["C07"], "kind_free_text": "2-4 real DomainParticipants in one process and domain, public API only, seeded loss policy at the UDPSender tap; subprocess shards, one domain id each"},
            {"name": "E-SEC/message-receiver", "path": "/verif/incrate/sec_mr.rs + /verif/harness/vcheck/src/c_mr.rs", "serves_properties": ["C17"], "kind_free_text": "MessageReceiver with real security plugins, five local readers, genuine peer and imposters; datagrams built by the harness"},
            {"name": "E-SEC", "path": "/verif/incrate/sec_*.rs + /verif/harness/vcheck/src/c_{crypto,access,auth}.rs", "serves_properties": ["C16", "C18", "C19"], "kind_free_text": "in-crate drivers of the builtin security plugins (feature security), oracles and independent walkers in the harness"},
            {"name": "E-SCHED", "path": "/verif/incrate/{sched,schedsc}.rs + /verif/harness/vcheck/src/c_sched.rs", "serves_properties": ["C13"], "kind_free_text": "baton scheduler behind verif_yield! (hook H5): real threads, controlled interleavings, uniform-random and PCT schedules"},
            {"name": "E-API", "path": "/verif/harness/vcheck/src/api.rs", "serves_properties": ["C08", "C09"], "kind_free_text": "reference model of DDS sample/view/instance semantics in lock-step with a real DataReader fed through ReaderBench; subprocess shards with CPU-time watchdog for C09"},
        ],
        "checks": checks,
        "not_applicable": na,
        "notes": "All checks: exit 0 held on everything explored / exit 1 with VIOLATION line / exit 2 INCONCLUSIVE (harness build failure or too few observations). VERIF_SEED seeds every generator.",
    }
    json.dump(m, open(os.path.join(HERE, "MANIFEST.json"), "w"), indent=1)
    print("wrote MANIFEST.json with", len(checks), "checks;", len(na), "not claimed")
main()
