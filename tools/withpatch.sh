#!/bin/bash
# usage: withpatch.sh <patch.diff> <check ids...>  — applies a seeded patch to /repo under the exclusive
# repo lock, runs the checks (quick), reverts the patch.
P="$1"; shift
if [ -z "${VERIF_LOCK_HELD:-}" ]; then
  exec env VERIF_LOCK_HELD=1 flock -x /tmp/verif-repo.lock "$0" "$P" "$@"
fi
git -C /repo apply "$P" || { echo "patch does not apply"; exit 2; }
for id in "$@"; do
  ( cd /verif && ./check $id 2>&1 | grep -E "VIOLATION|KNOWN|INCONCLUSIVE|quick:" | cut -c1-230 | head -4 )
done
git -C /repo apply -R "$P"
git -C /repo status --short | head -3
