#!/bin/bash
# usage: keep_seed.sh <ID> <mN> "<needs>" "<detected by: signature...>"
# copies a confirmed seeded defect into /verif/seeded/<ID>-<mN>/ with meta.json
ID=$1; M=$2; NEEDS=$3; DET=$4; S=/tmp/mutout/$ID/$M; D=/verif/seeded/$ID-$M
grep -q '^CONFIRMED' $S/confirm.txt || { echo "not confirmed: $ID $M"; exit 1; }
mkdir -p $D && cp $S/patch.diff $S/demo.diff $S/notes.md $S/confirm.txt $D/
python3 - "$ID" "$M" "$NEEDS" "$DET" <<'P'
import json,sys,subprocess
ID,M,NEEDS,DET=sys.argv[1:5]
base=subprocess.run(["git","-C","/repo","rev-parse","--short","HEAD"],capture_output=True,text=True).stdout.strip()
meta={"breaks_property":ID,"seed":M,"needs_to_manifest":NEEDS,
 "confirmed_by":"tools/confirm_seed.sh in a scratch worktree: demo passes without patch, fails with patch; pinned suite (624+57) passes with patch",
 "checks_run":f"git -C /repo apply patch.diff; ./check {ID} --tier quick; git -C /repo apply -R patch.diff",
 "detected":DET, "repo_head_when_tested":base}
json.dump(meta,open(f"/verif/seeded/{ID}-{M}/meta.json","w"),indent=1)
P
echo kept $D
