#!/usr/bin/env python3
# Regenerates the generated blocks of DESIGN.md (between <!-- BEGIN GENERATED x --> / <!-- END GENERATED x -->)
# from known_findings.json, seeded/*/meta.json, seeded/SWEEP.md and evidence/*.json.
import json, glob, os, re, subprocess
HERE = os.path.dirname(os.path.dirname(os.path.abspath(__file__)))
def block_findings():
    d = json.load(open(os.path.join(HERE, "known_findings.json")))
    subj = {}
    for l in subprocess.run(["git", "-C", "/repo", "log", "--format=%h %s"], capture_output=True, text=True).stdout.splitlines():
        h, s = l.split(" ", 1); subj[h] = s
    out = ["| property | status | commit | what failed (witness in known_findings.json) |", "|---|---|---|---|"]
    for k in sorted(d, key=lambda k: (k["property"], k["status"] != "open", k.get("commit") or "")):
        line = k["line"]
        line = re.sub(r"^(fixed: property=\S+ \S+ |KNOWN-FINDING: property=\S+ )", "", line)
        out.append(f"| {k['property']} | {k['status']} | {k.get('commit') or '—'} | {line} (`{k['signature']}`) |")
    fixes = [h for h, s in subj.items() if s.startswith("fix:")]
    listed = {k.get("commit") for k in d}
    extra = [h for h in fixes if h not in listed]
    out.append("")
    out.append(f"{len([k for k in d if k['status']=='fixed'])} fixed entries over {len(set(k.get('commit') for k in d if k['status']=='fixed'))} of the {len(fixes)} `fix:` commits in /repo; {len([k for k in d if k['status']=='open'])} open.")
    if extra:
        out.append("`fix:` commits that complete an entry above rather than having one of their own: " + ", ".join(f"{h} ({subj[h][5:60]}…)" for h in extra) + ".")
    return "\n".join(out)
def block_seeds():
    sweep = {}
    p = os.path.join(HERE, "seeded", "SWEEP.md")
    if os.path.exists(p):
        for l in open(p):
            m = re.match(r"\| (C\d\d-m\d) \| (\S+) \| (.*) \|", l)
            if m: sweep[m.group(1)] = (m.group(2), m.group(3))
    out = ["| seed | what it needs to show | reported by the quick check of its property (last sweep) |", "|---|---|---|"]
    for f in sorted(glob.glob(os.path.join(HERE, "seeded", "*", "meta.json"))):
        n = f.split("/")[-2]; m = json.load(open(f))
        rep, sig = sweep.get(n, ("?", ""))
        if rep == "yes": r = "yes: " + sig
        elif rep == "?": r = "(not swept) " + m["detected"][:120]
        else: r = "**no** — " + m["detected"][:220]
        out.append(f"| {n} | {m['needs_to_manifest'][:140]} | {r} |")
    return "\n".join(out)
def block_sizes():
    out = ["| check | tier of the committed evidence | evaluations | distinct non-trivial | wall s | known findings hit |", "|---|---|---|---|---|---|"]
    for f in sorted(glob.glob(os.path.join(HERE, "evidence", "C*.json"))):
        e = json.load(open(f)); c = e["coverage"]
        out.append(f"| {e['property_id']} | {e['tier']} (seed {e['seed']}) | {c['evaluations']} | {c['distinct_nontrivial']} | {e['wall_s']:.0f} | {len(c.get('known_findings_confirmed', []))} |")
    return "\n".join(out)
def main():
    p = os.path.join(HERE, "DESIGN.md"); s = open(p).read()
    for name, fn in [("findings", block_findings), ("seeds", block_seeds), ("sizes", block_sizes)]:
        a = f"<!-- BEGIN GENERATED {name} -->"; b = f"<!-- END GENERATED {name} -->"
        if a in s and b in s:
            s = s[:s.index(a) + len(a)] + "\n" + fn() + "\n" + s[s.index(b):]
    open(p, "w").write(s)
main()
