#!/bin/bash
# Applies every kept seeded defect to /repo in turn (tools/withpatch.sh: exclusive repo lock, reverted afterwards),
# runs the quick check of its property and records whether it is reported. Output: /verif/seeded/SWEEP.md
cd /verif
OUT=/verif/seeded/SWEEP.md
HEADSHA=$(git -C /repo rev-parse --short HEAD)
{ echo "# Seeded changes against the quick checks (tools/seedsweep.sh)"; echo; echo "/repo HEAD $HEADSHA, $(date -u +%Y-%m-%dT%H:%MZ). One line per seeded change: first reported signature, or NOT REPORTED."; echo; echo "| seed | reported | first signature |"; echo "|---|---|---|"; } > $OUT
for d in seeded/*/; do
  n=$(basename $d); id=${n%-*}
  [ -f $d/patch.diff ] || continue
  res=$(tools/withpatch.sh /verif/$d/patch.diff $id 2>&1)
  sig=$(echo "$res" | grep -m1 "^VIOLATION" | grep -o "signature=.*" | cut -c11-170)
  if echo "$res" | grep -q "^VIOLATION"; then echo "| $n | yes | \`$sig\` |" >> $OUT; else echo "| $n | **no** | $(echo "$res" | tail -1 | cut -c1-120) |" >> $OUT; fi
done
echo >> $OUT; echo "Left the repository clean: $(git -C /repo status --short | wc -l) modified files." >> $OUT
