#!/bin/bash
# MANIFEST.setup_cmd: build the harness binaries offline from files on disk.
set -e
HERE="$(cd "$(dirname "${BASH_SOURCE[0]}")/.." && pwd)"
export RUSTDDS_VERIF_DIR="$HERE"
export CARGO_TARGET_DIR="${VERIF_TARGET_DIR:-$HERE/target}"
export CARGO_NET_OFFLINE=true
mkdir -p "$CARGO_TARGET_DIR" "$HERE/evidence" "$HERE/replays"
cd "$HERE/harness"
cargo build --offline --release --bin vcheck --bin vmiri 2>&1 | tail -3
# C06's second leg: same harness with overflow checks and debug assertions on
cargo build --offline --profile relcheck --bin vcheck 2>&1 | tail -3
# the security build is needed only when a security property (C16-C19) is claimed
if grep -Eq '"property_id": "C1[6-9]"' "$HERE/MANIFEST.json"; then
  cargo build --offline --release --features security --bin vcheck-sec 2>&1 | tail -3
fi
echo setup-ok
