// E-SEC in-crate drivers (feature "security"): see sec_*.rs, included below.
macro_rules! smod {
  ($name:ident, $file:literal) => {
    pub mod $name {
      include!(concat!(env!("RUSTDDS_VERIF_DIR"), "/incrate/", $file));
    }
  };
}
pub fn available() -> bool {
  true
}
