// E-SEC in-crate drivers (feature "security"): see sec_*.rs, included below.
macro_rules! smod {
  ($name:ident, $file:literal) => {
    pub mod $name {
      include!(concat!(env!("RUSTDDS_VERIF_DIR"), "/incrate/", $file));
    }
  };
}
smod!(crypto, "sec_crypto.rs");
pub fn available() -> bool {
  true
}
smod!(auth, "sec_auth.rs");
smod!(access, "sec_access.rs");
smod!(mr, "sec_mr.rs");
