// Sample types used by the benches. CDR layout (little endian, after the 4-byte
// encapsulation header) that the harness reproduces byte for byte:
//   VSample : key u32 | id u32 | blob len u32 | blob bytes
//   VNoKey  : id u32 | blob len u32 | blob bytes
use serde::{Deserialize, Serialize};

use crate::dds::key::Keyed;

#[derive(Serialize, Deserialize, Clone, Debug, PartialEq, Eq)]
pub struct VSample {
  pub key: u32,
  pub id: u32,
  pub blob: Vec<u8>,
}
impl Keyed for VSample {
  type K = u32;
  fn key(&self) -> u32 {
    self.key
  }
}

#[derive(Serialize, Deserialize, Clone, Debug, PartialEq, Eq)]
pub struct VNoKey {
  pub id: u32,
  pub blob: Vec<u8>,
}

/// One process-wide DomainParticipant. Benches need it only to own the
/// Subscriber / Publisher / Topic objects the public reader/writer types keep.
/// All of its own traffic is dropped by the net policy the harness sets.
pub struct Env {
  pub dp: crate::DomainParticipant,
  pub sub: crate::Subscriber,
  pub publ: crate::Publisher,
}

static ENV: std::sync::OnceLock<Env> = std::sync::OnceLock::new();

pub fn env() -> &'static Env {
  ENV.get_or_init(|| {
    let domain: u16 = std::env::var("VERIF_DOMAIN")
      .ok()
      .and_then(|s| s.parse().ok())
      .unwrap_or(0);
    let dp = crate::DomainParticipant::new(domain).expect("participant");
    let qos = crate::QosPolicyBuilder::new().build();
    let _ = qos;
    let sub = crate::dds::pubsub::verif_hook::detached_subscriber(&dp);
    let publ = crate::dds::pubsub::verif_hook::detached_publisher(&dp);
    Env { dp, sub, publ }
  })
}

/// `no_key::DataReader` implements `StatusEvented` with a crate-private type in the trait's
/// parameters, so `try_recv_status` cannot be named from another crate. This forwards it.
pub fn nokey_reader_try_recv_status<D: 'static, DA: crate::dds::adapters::no_key::DeserializerAdapter<D> + 'static>(
  r: &crate::dds::no_key::DataReader<D, DA>,
) -> Option<crate::DataReaderStatus> {
  use crate::StatusEvented;
  r.try_recv_status()
}
