// Hook H5: cooperative (baton) scheduler behind `verif_yield!`.
// Real threads, exactly one runnable at a time. A thread that has not registered
// with a scheduler is never held: yield is a no-op for it (the background threads of
// the process-wide DomainParticipant run freely).
use std::{
  cell::{Cell, RefCell},
  collections::BTreeMap,
  sync::{Arc, Condvar, Mutex},
};

pub struct SchedState {
  /// id of the thread that holds the baton, usize::MAX when the controller has it
  current: usize,
  /// per registered thread: Some(site) while parked at a yield site
  waiting: Vec<Option<&'static str>>,
  finished: Vec<bool>,
  /// parked in a *modelled* blocking wait (it will only re-check its wake-up source)
  blocked: Vec<bool>,
  /// steps taken by other threads since this thread blocked
  progress_since_block: Vec<u64>,
  pub trace: Vec<(u8, &'static str)>,
  pub site_hits: BTreeMap<&'static str, u64>,
  pub stop: bool,
  /// resumed from a blocked park and not yet parked again
  from_blocked: Vec<bool>,
  /// the step in progress went from a blocked park straight back into a blocked park:
  /// a fruitless re-check of the wake-up source, which is no progress for anybody
  fruitless: bool,
}

pub struct Sched {
  st: Mutex<SchedState>,
  cv: Condvar,
}

thread_local! {
  static ME: Cell<usize> = const { Cell::new(usize::MAX) };
  static SCHED: RefCell<Option<Arc<Sched>>> = const { RefCell::new(None) };
}

impl Sched {
  pub fn new(nthreads: usize) -> Arc<Sched> {
    Arc::new(Sched {
      st: Mutex::new(SchedState {
        current: usize::MAX,
        waiting: vec![None; nthreads],
        finished: vec![false; nthreads],
        blocked: vec![false; nthreads],
        progress_since_block: vec![0; nthreads],
        trace: Vec::new(),
        site_hits: BTreeMap::new(),
        stop: false,
        from_blocked: vec![false; nthreads],
        fruitless: false,
      }),
      cv: Condvar::new(),
    })
  }

  /// Worker: register and wait for the first turn.
  pub fn enter(self: &Arc<Self>, id: usize) {
    ME.with(|m| m.set(id));
    SCHED.with(|s| *s.borrow_mut() = Some(self.clone()));
    self.park(id, "start", false);
  }

  /// Worker: done.
  pub fn leave(self: &Arc<Self>) {
    let id = ME.with(|m| m.get());
    {
      let mut st = self.st.lock().unwrap();
      st.finished[id] = true;
      st.waiting[id] = None;
      st.blocked[id] = false;
      st.current = usize::MAX;
      self.cv.notify_all();
    }
    ME.with(|m| m.set(usize::MAX));
    SCHED.with(|s| *s.borrow_mut() = None);
  }

  fn park(&self, id: usize, site: &'static str, blocked: bool) {
    let mut st = self.st.lock().unwrap();
    st.waiting[id] = Some(site);
    st.blocked[id] = blocked;
    if blocked {
      st.progress_since_block[id] = 0;
      if st.from_blocked[id] {
        st.fruitless = true;
      }
    }
    st.from_blocked[id] = false;
    *st.site_hits.entry(site).or_insert(0) += 1;
    if st.current == id {
      st.current = usize::MAX;
    }
    self.cv.notify_all();
    while st.current != id {
      st = self.cv.wait(st).unwrap();
    }
    st.waiting[id] = None;
    st.from_blocked[id] = st.blocked[id];
    st.blocked[id] = false;
    if st.trace.len() < 4000 {
      st.trace.push((id as u8, site));
    }
  }

  pub fn stop_requested(&self) -> bool {
    self.st.lock().unwrap().stop
  }

  // ---- controller side
  fn wait_controller_turn(&self) {
    let mut st = self.st.lock().unwrap();
    while st.current != usize::MAX {
      st = self.cv.wait(st).unwrap();
    }
  }
  fn wait_all_parked(&self) {
    let mut st = self.st.lock().unwrap();
    while !(0..st.waiting.len()).all(|i| st.waiting[i].is_some() || st.finished[i]) {
      st = self.cv.wait(st).unwrap();
    }
  }
  fn step(&self, id: usize) {
    {
      let mut st = self.st.lock().unwrap();
      st.fruitless = false;
      st.current = id;
      self.cv.notify_all();
    }
    self.wait_controller_turn();
    let mut st = self.st.lock().unwrap();
    if !st.fruitless {
      for j in 0..st.progress_since_block.len() {
        if j != id {
          st.progress_since_block[j] += 1;
        }
      }
    }
  }

  /// Drive the registered threads to completion with a seeded random schedule.
  /// A blocked thread is only scheduled after another thread made progress (it will
  /// just re-check its wake-up source). When only blocked threads remain and none has
  /// unseen progress, `stop` is raised and each is given one last turn to wind up.
  /// Returns (steps, choice-hash).
  pub fn drive(self: &Arc<Self>, seed: u64, max_steps: usize) -> (usize, u64, bool) {
    self.drive_mode(seed, max_steps, 0, 0)
  }

  /// `pct_depth` > 0: PCT-style priority schedule (Burckhardt et al.): every thread gets
  /// a random priority, the highest-priority runnable thread always runs, and at
  /// `pct_depth` random change points (step numbers below `pct_horizon`) the running
  /// thread's priority drops below all others. Finds ordering bugs of small depth with
  /// far higher probability than uniform random choice when one thread must run for
  /// many consecutive steps.
  pub fn drive_mode(self: &Arc<Self>, seed: u64, max_steps: usize, pct_depth: usize, pct_horizon: usize) -> (usize, u64, bool) {
    let mut rng = seed | 1;
    let mut next = move || {
      rng ^= rng << 13;
      rng ^= rng >> 7;
      rng ^= rng << 17;
      rng
    };
    self.wait_all_parked();
    let nthreads = self.st.lock().unwrap().waiting.len();
    let mut prio: Vec<i64> = (0..nthreads).map(|_| 1000 + (next() % 1000) as i64).collect();
    let mut change_points: Vec<usize> = (0..pct_depth).map(|_| (next() % pct_horizon.max(1) as u64) as usize).collect();
    change_points.sort();
    let mut low = 0i64;
    let mut steps = 0usize;
    let mut h: u64 = 0xcbf29ce484222325;
    let mut exhausted = false;
    loop {
      let (cands, all_done, stopping) = {
        let st = self.st.lock().unwrap();
        let all_done = st.finished.iter().all(|f| *f);
        let cands: Vec<usize> = (0..st.waiting.len())
          .filter(|i| st.waiting[*i].is_some() && !st.finished[*i])
          .filter(|i| st.stop || !st.blocked[*i] || st.progress_since_block[*i] > 0)
          .collect();
        (cands, all_done, st.stop)
      };
      if all_done {
        break;
      }
      if steps >= max_steps {
        exhausted = true;
        // let everybody wind up
        self.st.lock().unwrap().stop = true;
      }
      if cands.is_empty() {
        if stopping {
          // nothing left that can run although stop was raised: give up (deadlock in the code under test)
          exhausted = true;
          break;
        }
        self.st.lock().unwrap().stop = true;
        continue;
      }
      let pick = if pct_depth == 0 {
        cands[(next() % cands.len() as u64) as usize]
      } else {
        let p = *cands.iter().max_by_key(|c| prio[**c]).unwrap();
        if change_points.first() == Some(&steps) {
          change_points.remove(0);
          low -= 1;
          prio[p] = low;
        }
        p
      };
      h ^= pick as u64 + 1;
      h = h.wrapping_mul(0x100000001b3);
      self.step(pick);
      steps += 1;
      if steps > max_steps + 10_000 {
        exhausted = true;
        break;
      }
    }
    (steps, h, exhausted)
  }

  pub fn take_trace(&self) -> (Vec<(u8, &'static str)>, BTreeMap<&'static str, u64>) {
    let mut st = self.st.lock().unwrap();
    (std::mem::take(&mut st.trace), st.site_hits.clone())
  }
}

/// The function behind `verif_yield!`.
pub fn yield_at(site: &'static str) {
  let id = ME.with(|m| m.get());
  if id == usize::MAX {
    return;
  }
  let s = SCHED.with(|s| s.borrow().clone());
  if let Some(s) = s {
    s.park(id, site, false);
  }
}

/// Modelled blocking wait of a registered worker: parks as "blocked". Returns true if
/// the scheduler asked everybody to wind up.
pub fn block_here(site: &'static str) -> bool {
  let id = ME.with(|m| m.get());
  let s = SCHED.with(|s| s.borrow().clone());
  match (id, s) {
    (usize::MAX, _) | (_, None) => true,
    (id, Some(s)) => {
      s.park(id, site, true);
      s.stop_requested()
    }
  }
}
