// Hook H5: cooperative scheduler behind `verif_yield!`.
// Threads that did not register are never held (yield is a no-op for them).
use std::{
  cell::Cell,
  sync::{Arc, Condvar, Mutex},
};

pub struct SchedState {
  // id of the thread that holds the baton, or usize::MAX when nobody
  pub current: usize,
  // per registered thread: Some(site) if waiting at a yield site, None if not
  pub waiting: Vec<Option<&'static str>>,
  pub finished: Vec<bool>,
  pub blocked: Vec<bool>,
  pub trace: Vec<(usize, &'static str)>,
  pub site_hits: std::collections::BTreeMap<&'static str, u64>,
}

pub struct Sched {
  pub st: Mutex<SchedState>,
  pub cv: Condvar,
}

thread_local! {
  static ME: Cell<usize> = const { Cell::new(usize::MAX) };
  static SCHED: std::cell::RefCell<Option<Arc<Sched>>> = const { std::cell::RefCell::new(None) };
}

impl Sched {
  pub fn new(nthreads: usize) -> Arc<Sched> {
    Arc::new(Sched {
      st: Mutex::new(SchedState {
        current: usize::MAX,
        waiting: vec![None; nthreads],
        finished: vec![false; nthreads],
        blocked: vec![false; nthreads],
        trace: Vec::new(),
        site_hits: Default::default(),
      }),
      cv: Condvar::new(),
    })
  }

  /// Called by a worker thread first thing: registers and waits for the baton.
  pub fn enter(self: &Arc<Self>, id: usize) {
    ME.with(|m| m.set(id));
    SCHED.with(|s| *s.borrow_mut() = Some(self.clone()));
    self.park_at(id, "start");
  }

  /// Called by a worker thread when done.
  pub fn leave(self: &Arc<Self>) {
    let id = ME.with(|m| m.get());
    let mut st = self.st.lock().unwrap();
    st.finished[id] = true;
    st.waiting[id] = None;
    st.current = usize::MAX;
    self.cv.notify_all();
    drop(st);
    ME.with(|m| m.set(usize::MAX));
    SCHED.with(|s| *s.borrow_mut() = None);
  }

  fn park_at(&self, id: usize, site: &'static str) {
    let mut st = self.st.lock().unwrap();
    st.waiting[id] = Some(site);
    *st.site_hits.entry(site).or_insert(0) += 1;
    if st.current == id {
      st.current = usize::MAX;
    }
    self.cv.notify_all();
    while st.current != id {
      st = self.cv.wait(st).unwrap();
    }
    st.waiting[id] = None;
    st.trace.push((id, site));
  }

  /// Controller: wait until nobody holds the baton (all threads parked/finished).
  pub fn wait_idle(&self) {
    let mut st = self.st.lock().unwrap();
    while st.current != usize::MAX {
      st = self.cv.wait(st).unwrap();
    }
  }

  /// Controller: threads currently parked at a yield site (runnable).
  pub fn runnable(&self) -> Vec<(usize, &'static str)> {
    let st = self.st.lock().unwrap();
    st.waiting
      .iter()
      .enumerate()
      .filter_map(|(i, w)| w.map(|s| (i, s)))
      .collect()
  }

  /// Controller: give the baton to `id` and wait until it parks again or finishes.
  pub fn step(&self, id: usize) {
    {
      let mut st = self.st.lock().unwrap();
      assert!(st.waiting[id].is_some(), "step: thread {id} not parked");
      st.current = id;
      self.cv.notify_all();
    }
    self.wait_idle();
  }

  pub fn all_finished(&self) -> bool {
    self.st.lock().unwrap().finished.iter().all(|f| *f)
  }
}

/// The function behind `verif_yield!`.
pub fn yield_at(site: &'static str) {
  let id = ME.with(|m| m.get());
  if id == usize::MAX {
    return;
  }
  let s = SCHED.with(|s| s.borrow().clone());
  if let Some(s) = s {
    s.park_at(id, site);
  }
}

/// For worker code in the harness: an explicit scheduling point.
pub fn harness_yield(site: &'static str) {
  yield_at(site);
}
