// E-SCHED scenarios (C13): producer = the Reader fed with DATA on one thread,
// consumer = an application thread following the documented pattern with one of
// {async stream, mio-0.6 Evented, mio-0.8 Source}; both run under the baton
// scheduler (sched.rs), "park" is modelled. Also: async_write against a full command
// queue vs the Writer's command loop. Returns raw observations; the verdict is the
// harness's.
use std::{
  collections::BTreeMap,
  sync::{
    atomic::{AtomicU64, Ordering},
    mpsc, Arc,
  },
};

use super::{
  rbench::{ConsumerSide, Flavor, ObsVal, RbCfg, ReadOp, ReaderBench},
  sched::{self, Sched},
  types::VSample,
  wbench::{WbCfg, WriterBench},
};

#[derive(Clone, Copy, Debug, PartialEq, Eq)]
pub enum Mech {
  AsyncStream,
  Mio06,
  Mio08,
}

#[derive(Clone, Debug)]
pub struct ScOut {
  pub produced: Vec<u32>,
  pub delivered: Vec<u32>,
  /// samples a fresh take found after the consumer had parked for good (nobody runnable,
  /// no wake-up signal since it parked): non-empty = it slept on available data
  pub found_after_final_park: Vec<u32>,
  pub parks: u64,
  pub wakeups: u64,
  pub steps: usize,
  pub schedule_hash: u64,
  pub exhausted: bool,
  pub trace: Vec<(u8, String)>,
  pub site_hits: BTreeMap<String, u64>,
  pub error: Option<String>,
  /// errors the consumer's calls returned while the scenario carried undecodable samples (each is a report, not a failure)
  pub errors_reported: u64,
}

fn data_dgram(prefix: &[u8; 12], weid: [u8; 4], reid: [u8; 4], sn: i64, id: u32, with_hb: bool) -> Vec<u8> {
  data_dgram_kind(prefix, weid, reid, sn, id, with_hb, false)
}

/// `undecodable`: the CDR body announces a 1000-byte blob and ends there
fn data_dgram_kind(prefix: &[u8; 12], weid: [u8; 4], reid: [u8; 4], sn: i64, id: u32, with_hb: bool, undecodable: bool) -> Vec<u8> {
  // minimal little-endian RTPS: header, INFO_TS, DATA(VSample{key,id,blob[]}), optional HEARTBEAT
  let mut v = Vec::new();
  v.extend_from_slice(b"RTPS");
  v.extend_from_slice(&[2, 4, 1, 0x12]);
  v.extend_from_slice(prefix);
  v.extend_from_slice(&[0x09, 0x01, 8, 0]);
  v.extend_from_slice(&(1_700_000_000u32 + id).to_le_bytes());
  v.extend_from_slice(&0u32.to_le_bytes());
  let mut body = Vec::new();
  body.extend_from_slice(&[0, 0, 16, 0]);
  body.extend_from_slice(&reid);
  body.extend_from_slice(&weid);
  body.extend_from_slice(&((sn >> 32) as i32).to_le_bytes());
  body.extend_from_slice(&(sn as u32).to_le_bytes());
  body.extend_from_slice(&[0, 1, 0, 0]);
  body.extend_from_slice(&(id % 3).to_le_bytes());
  body.extend_from_slice(&id.to_le_bytes());
  body.extend_from_slice(&(if undecodable { 1000u32 } else { 0 }).to_le_bytes());
  v.extend_from_slice(&[0x15, 0x05]);
  v.extend_from_slice(&(body.len() as u16).to_le_bytes());
  v.extend_from_slice(&body);
  if with_hb {
    let mut hb = Vec::new();
    hb.extend_from_slice(&reid);
    hb.extend_from_slice(&weid);
    hb.extend_from_slice(&0i32.to_le_bytes());
    hb.extend_from_slice(&1u32.to_le_bytes());
    hb.extend_from_slice(&((sn >> 32) as i32).to_le_bytes());
    hb.extend_from_slice(&(sn as u32).to_le_bytes());
    hb.extend_from_slice(&(sn as i32).to_le_bytes());
    v.extend_from_slice(&[0x07, 0x03]);
    v.extend_from_slice(&(hb.len() as u16).to_le_bytes());
    v.extend_from_slice(&hb);
  }
  v
}

fn ids_of(v: &[super::rbench::Obs]) -> Vec<u32> {
  v.iter()
    .filter_map(|o| if let ObsVal::Value { id, .. } = &o.val { Some(*id) } else { None })
    .collect()
}

/// Reader -> application wake-up scenario.
/// `lost_then_heartbeat` (reliable only, needs nsamples >= 2): one sample is never sent, its successors are held
/// back by the reliable reader, and a stand-alone non-final HEARTBEAT whose first_sn lies past the hole (the writer
/// cannot repair it any more) releases them; the reader answers that HEARTBEAT with an ACKNACK.
pub fn run_reader_scenario(mech: Mech, reliable: bool, nsamples: usize, out_of_order: bool, lost_then_heartbeat: bool, schedule_seed: u64, pct_depth: usize) -> ScOut {
  run_reader_scenario_bad(mech, reliable, nsamples, out_of_order, lost_then_heartbeat, 0, schedule_seed, pct_depth)
}

/// `bad_mask`: bit (sn - 1) set = sample sn arrives with an undecodable payload (C09): the consumer's call reports
/// an error for it (counted in `errors_reported`) and goes on; `produced` lists the decodable ones only.
#[allow(clippy::too_many_arguments)]
pub fn run_reader_scenario_bad(mech: Mech, reliable: bool, nsamples: usize, out_of_order: bool, lost_then_heartbeat: bool, bad_mask: u64, schedule_seed: u64, pct_depth: usize) -> ScOut {
  let is_bad = move |sn: i64| sn >= 1 && sn <= 64 && bad_mask >> (sn - 1) & 1 == 1;
  let sched = Sched::new(2);
  let (tx_cons, rx_cons) = mpsc::channel::<ConsumerSide>();
  let wguid = {
    let mut g = [0u8; 16];
    g[0] = 0xC1;
    g[1] = 0x3;
    g[13] = 0x70;
    g[14] = 1;
    g[15] = 0x02;
    g
  };
  let lost: Option<i64> = if lost_then_heartbeat && reliable && nsamples >= 2 { Some(1 + (schedule_seed % (nsamples as u64 - 1)) as i64) } else { None };
  let produced: Vec<u32> = (1..=nsamples as u32).filter(|id| Some(*id as i64) != lost && !is_bad(*id as i64)).collect();
  let errors_reported = Arc::new(AtomicU64::new(0));
  let parks = Arc::new(AtomicU64::new(0));
  let wakeups = Arc::new(AtomicU64::new(0));

  // ---- producer: owns the Reader half
  let (tx_prod_done, rx_prod_done) = mpsc::channel::<()>();
  let s0 = sched.clone();
  let producer = std::thread::spawn(move || {
    let flavor = if mech == Mech::AsyncStream { Flavor::Simple } else { Flavor::Keyed };
    let mut rb = ReaderBench::new(RbCfg { flavor, reliable, history: 0, max_samples: 100_000, reader_key: [0, 0, 0x71] });
    rb.match_writer(wguid, true, "127.0.0.1:35000".parse().unwrap());
    let reid = rb.reader_entity_id();
    let (mut prod, cons) = rb.split();
    tx_cons.send(cons).expect("send consumer side");
    let prefix: [u8; 12] = wguid[0..12].try_into().unwrap();
    let weid: [u8; 4] = wguid[12..16].try_into().unwrap();
    // arrival order: in order, or pairs swapped (reliable reader then delivers both at once)
    let mut order: Vec<i64> = (1..=nsamples as i64).collect();
    if out_of_order {
      for c in order.chunks_mut(2) {
        c.reverse();
      }
    }
    s0.enter(0);
    for sn in order {
      if Some(sn) == lost {
        continue;
      }
      let dg = data_dgram_kind(&prefix, weid, reid, sn, sn as u32, false, is_bad(sn));
      prod.inject(&dg);
    }
    if let Some(l) = lost {
      // HEARTBEAT first = l + 1, last = n, not final: "what is before l + 1 is gone"
      let mut v = Vec::new();
      v.extend_from_slice(b"RTPS");
      v.extend_from_slice(&[2, 4, 1, 0x12]);
      v.extend_from_slice(&prefix);
      let mut hb = Vec::new();
      hb.extend_from_slice(&reid);
      hb.extend_from_slice(&weid);
      hb.extend_from_slice(&0i32.to_le_bytes());
      hb.extend_from_slice(&((l + 1) as u32).to_le_bytes());
      hb.extend_from_slice(&0i32.to_le_bytes());
      hb.extend_from_slice(&(nsamples as u32).to_le_bytes());
      hb.extend_from_slice(&1i32.to_le_bytes());
      v.extend_from_slice(&[0x07, 0x01]);
      v.extend_from_slice(&(hb.len() as u16).to_le_bytes());
      v.extend_from_slice(&hb);
      prod.inject(&v);
    }
    s0.leave();
    // keep the Reader half alive until the consumer is done
    let _ = rx_prod_done.recv();
    drop(prod);
  });

  // ---- consumer: the application
  let s1 = sched.clone();
  let parks_c = parks.clone();
  let wakeups_c = wakeups.clone();
  let errors_c = errors_reported.clone();
  let consumer = std::thread::spawn(move || -> (Vec<u32>, Vec<u32>, Option<String>) {
    let mut cons = rx_cons.recv().expect("consumer side");
    let mut delivered = vec![];
    let mut found_after = vec![];
    let mut error = None;
    // readiness plumbing
    let poll06 = mio_06::Poll::new().unwrap();
    let mut events06 = mio_06::Events::with_capacity(8);
    let mut poll08 = mio_08::Poll::new().unwrap();
    let mut events08 = mio_08::Events::with_capacity(8);
    match mech {
      Mech::Mio06 => cons.register_mio06(&poll06),
      Mech::Mio08 => cons.register_mio08(poll08.registry()),
      Mech::AsyncStream => {}
    }
    s1.enter(1);
    'outer: loop {
      match mech {
        Mech::AsyncStream => {
          // executor discipline: remember the wake count before polling
          let before = cons.waker_flag.0.load(Ordering::SeqCst);
          match cons.op(&ReadOp::StreamPoll) {
            Ok(v) if !v.is_empty() => {
              delivered.extend(ids_of(&v));
              continue;
            }
            Ok(_) => {}
            Err(_) if bad_mask != 0 => {
              errors_c.fetch_add(1, Ordering::SeqCst);
              continue;
            }
            Err(e) => {
              error = Some(e);
              break;
            }
          }
          // Pending: sleep until the waker fires
          parks_c.fetch_add(1, Ordering::SeqCst);
          loop {
            if cons.waker_flag.0.load(Ordering::SeqCst) > before {
              wakeups_c.fetch_add(1, Ordering::SeqCst);
              break;
            }
            if sched::block_here("consumer:parked") {
              // wind up: was anything available while we slept without a wake-up?
              if cons.waker_flag.0.load(Ordering::SeqCst) > before {
                wakeups_c.fetch_add(1, Ordering::SeqCst);
                break;
              }
              let mut guard = 0;
              loop {
                guard += 1;
                match cons.op(&ReadOp::SimpleTakeOne) {
                  Ok(v) if !v.is_empty() => found_after.extend(ids_of(&v)),
                  Err(_) if bad_mask != 0 && guard < 100 => {
                    errors_c.fetch_add(1, Ordering::SeqCst);
                  }
                  _ => break,
                }
              }
              break 'outer;
            }
          }
        }
        Mech::Mio06 | Mech::Mio08 => {
          // documented pattern: after a wake-up take until empty
          loop {
            match cons.op(&ReadOp::TakeNext) {
              Ok(v) if !v.is_empty() => delivered.extend(ids_of(&v)),
              Ok(_) => break,
              Err(_) if bad_mask != 0 => {
                errors_c.fetch_add(1, Ordering::SeqCst);
              }
              Err(e) => {
                error = Some(e);
                break 'outer;
              }
            }
          }
          sched::yield_at("consumer:before-wait");
          parks_c.fetch_add(1, Ordering::SeqCst);
          loop {
            let ready = match mech {
              Mech::Mio06 => {
                poll06.poll(&mut events06, Some(std::time::Duration::from_millis(0))).unwrap();
                !events06.is_empty()
              }
              _ => {
                poll08.poll(&mut events08, Some(std::time::Duration::from_millis(0))).unwrap();
                !events08.is_empty()
              }
            };
            if ready {
              wakeups_c.fetch_add(1, Ordering::SeqCst);
              break;
            }
            if sched::block_here("consumer:parked") {
              let ready = match mech {
                Mech::Mio06 => {
                  poll06.poll(&mut events06, Some(std::time::Duration::from_millis(0))).unwrap();
                  !events06.is_empty()
                }
                _ => {
                  poll08.poll(&mut events08, Some(std::time::Duration::from_millis(0))).unwrap();
                  !events08.is_empty()
                }
              };
              if ready {
                wakeups_c.fetch_add(1, Ordering::SeqCst);
                break;
              }
              for _ in 0..100 {
                match cons.op(&ReadOp::Take { max: usize::MAX, not_read_only: false }) {
                  Ok(v) if v.is_empty() => break,
                  Ok(v) => found_after.extend(ids_of(&v)),
                  Err(_) if bad_mask != 0 => {
                    errors_c.fetch_add(1, Ordering::SeqCst);
                  }
                  Err(_) => break,
                }
              }
              break 'outer;
            }
          }
        }
      }
    }
    s1.leave();
    drop(cons);
    (delivered, found_after, error)
  });

  let (steps, h, exhausted) = sched.drive_mode(schedule_seed, 20_000, pct_depth, 12 * nsamples + 20);
  let (delivered, found_after, error) = consumer.join().expect("consumer thread");
  let _ = tx_prod_done.send(());
  producer.join().expect("producer thread");
  let (trace, hits) = sched.take_trace();
  ScOut {
    produced,
    delivered,
    found_after_final_park: found_after,
    parks: parks.load(Ordering::SeqCst),
    wakeups: wakeups.load(Ordering::SeqCst),
    steps,
    schedule_hash: h,
    exhausted,
    trace: trace.into_iter().map(|(t, s)| (t, s.to_string())).collect(),
    site_hits: hits.into_iter().map(|(k, v)| (k.to_string(), v)).collect(),
    error,
    errors_reported: errors_reported.load(Ordering::SeqCst),
  }
}

// ---------------------------------------------------------------------------
// async_write against a full command queue
// ---------------------------------------------------------------------------
#[derive(Clone, Debug)]
pub struct AwOut {
  pub writes_requested: usize,
  pub writes_completed: usize,
  pub writes_failed: usize,
  /// the pending future completed on a fresh poll after the task had parked for good
  /// without any wake-up: it slept although it could proceed
  pub completed_only_on_final_repoll: bool,
  pub parks: u64,
  pub wakeups: u64,
  pub steps: usize,
  pub schedule_hash: u64,
  pub exhausted: bool,
  pub trace: Vec<(u8, String)>,
  pub site_hits: BTreeMap<String, u64>,
}

struct SendPtr<T>(*const T);
unsafe impl<T> Send for SendPtr<T> {}

pub fn run_async_write_scenario(nwrites: usize, schedule_seed: u64, pct_depth: usize) -> AwOut {
  use std::{future::Future, task::Context};
  let sched = Sched::new(2);
  let (tx_dw, rx_dw) = mpsc::channel::<SendPtr<crate::with_key::DataWriter<VSample>>>();
  let (tx_done, rx_done) = mpsc::channel::<()>();
  let task_finished = Arc::new(std::sync::atomic::AtomicBool::new(false));

  // ---- T0: the Writer's command loop (what the event loop does on channel readiness)
  let s0 = sched.clone();
  let tf0 = task_finished.clone();
  let t0 = std::thread::spawn(move || {
    let mut wb = WriterBench::new(WbCfg { reliable: true, history: 0, transient_local: false, frag_size: 0, writer_key: [0, 0, 0x72] });
    tx_dw.send(SendPtr(&*wb.dw as *const _)).unwrap();
    s0.enter(0);
    loop {
      // drains the queue; yields after every received command
      wb.process_commands();
      if tf0.load(Ordering::SeqCst) {
        wb.process_commands();
        break;
      }
      // queue empty: the loop sleeps until the channel becomes readable again
      if sched::block_here("writer-loop:idle") {
        wb.process_commands();
        break;
      }
    }
    s0.leave();
    // the DataWriter must outlive the task thread's use of it
    let _ = rx_done.recv();
    drop(wb);
  });

  // ---- T1: an async task writing through the DataWriter, under executor discipline
  let s1 = sched.clone();
  let tf1 = task_finished.clone();
  let t1 = std::thread::spawn(move || -> (usize, usize, bool, u64, u64) {
    let p = rx_dw.recv().unwrap();
    let dw: &crate::with_key::DataWriter<VSample> = unsafe { &*p.0 };
    let flag = Arc::new(super::wbench::FlagWaker(Default::default()));
    let waker = std::task::Waker::from(flag.clone());
    let (mut done, mut failed, mut only_final, mut parks, mut wakeups) = (0usize, 0usize, false, 0u64, 0u64);
    s1.enter(1);
    'writes: for i in 0..nwrites {
      let mut fut = Box::pin(dw.async_write(VSample { key: 1, id: i as u32 + 1, blob: vec![] }, None));
      loop {
        let before = flag.0.load(Ordering::SeqCst);
        let mut cx = Context::from_waker(&waker);
        match fut.as_mut().poll(&mut cx) {
          std::task::Poll::Ready(Ok(())) => {
            done += 1;
            break;
          }
          std::task::Poll::Ready(Err(_)) => {
            failed += 1;
            break;
          }
          std::task::Poll::Pending => {
            parks += 1;
            loop {
              if flag.0.load(Ordering::SeqCst) > before {
                wakeups += 1;
                break;
              }
              if sched::block_here("task:parked") {
                if flag.0.load(Ordering::SeqCst) > before {
                  wakeups += 1;
                  break;
                }
                // wind up: would the future proceed if somebody polled it?
                let mut cx = Context::from_waker(&waker);
                if let std::task::Poll::Ready(Ok(())) = fut.as_mut().poll(&mut cx) {
                  only_final = true;
                  done += 1;
                }
                break 'writes;
              }
            }
          }
        }
      }
      sched::yield_at("task:between-writes");
    }
    tf1.store(true, Ordering::SeqCst);
    s1.leave();
    (done, failed, only_final, parks, wakeups)
  });

  let (steps, h, exhausted) = sched.drive_mode(schedule_seed, 40_000, pct_depth, 3 * nwrites + 10);
  let (done, failed, only_final, parks, wakeups) = t1.join().expect("task thread");
  let _ = tx_done.send(());
  t0.join().expect("writer thread");
  let (trace, hits) = sched.take_trace();
  AwOut {
    writes_requested: nwrites,
    writes_completed: done,
    writes_failed: failed,
    completed_only_on_final_repoll: only_final,
    parks,
    wakeups,
    steps,
    schedule_hash: h,
    exhausted,
    trace: trace.into_iter().map(|(t, s)| (t, s.to_string())).collect(),
    site_hits: hits.into_iter().map(|(k, v)| (k.to_string(), v)).collect(),
  }
}

// ---------------------------------------------------------------------------
// async_wait_for_acknowledgments vs the Writer's command loop and the peer's ACKNACK
// ---------------------------------------------------------------------------
/// T0 runs the Writer (command loop; the matched reliable reader acknowledges whatever has been written, as its own
/// scheduled step); T1 is an async task that writes one sample and awaits `async_wait_for_acknowledgments`, `nrounds`
/// times, under executor discipline. Every poll hands over a waker of a new generation, and bit k of `repoll_mask`
/// makes the k-th Pending be followed by one more poll that nothing asked for (a sibling future woke the task).
/// AwOut: writes_* count rounds.
pub fn run_async_ackwait_scenario(nrounds: usize, repoll_mask: u32, schedule_seed: u64, pct_depth: usize) -> AwOut {
  use std::{future::Future, task::Context};
  use super::wbench::{FlagWaker, GenWaker};
  let sched = Sched::new(2);
  let (tx_dw, rx_dw) = mpsc::channel::<SendPtr<crate::with_key::DataWriter<VSample>>>();
  let (tx_done, rx_done) = mpsc::channel::<()>();
  let task_finished = Arc::new(std::sync::atomic::AtomicBool::new(false));
  let rguid = {
    let mut g = [0u8; 16];
    g[0] = 0xC1;
    g[1] = 0x4;
    g[13] = 0x73;
    g[14] = 1;
    g[15] = 0x07;
    g
  };

  let s0 = sched.clone();
  let tf0 = task_finished.clone();
  let t0 = std::thread::spawn(move || {
    let mut wb = WriterBench::new(WbCfg { reliable: true, history: 0, transient_local: false, frag_size: 0, writer_key: [0, 0, 0x73] });
    wb.match_reader(rguid, true, "127.0.0.1:35010".parse().unwrap());
    tx_dw.send(SendPtr(&*wb.dw as *const _)).unwrap();
    let weid = wb.writer_entity_id();
    let own_prefix = wb.own_prefix;
    let mut acked = 0i64;
    let mut count = 0i32;
    s0.enter(0);
    loop {
      wb.process_commands();
      let (_, last) = wb.first_last();
      if last > acked {
        // the reader's ACKNACK for everything up to `last` arrives as a step of its own
        sched::yield_at("peer:before-acknack");
        count += 1;
        let mut v = Vec::new();
        v.extend_from_slice(b"RTPS");
        v.extend_from_slice(&[2, 4, 1, 0x12]);
        v.extend_from_slice(&rguid[0..12]);
        v.extend_from_slice(&[0x0e, 0x01, 12, 0]);
        v.extend_from_slice(&own_prefix);
        let mut b = Vec::new();
        b.extend_from_slice(&rguid[12..16]);
        b.extend_from_slice(&weid);
        b.extend_from_slice(&(((last + 1) >> 32) as i32).to_le_bytes());
        b.extend_from_slice(&((last + 1) as u32).to_le_bytes());
        b.extend_from_slice(&0u32.to_le_bytes());
        b.extend_from_slice(&count.to_le_bytes());
        v.extend_from_slice(&[0x06, 0x03]);
        v.extend_from_slice(&(b.len() as u16).to_le_bytes());
        v.extend_from_slice(&b);
        wb.inject(&v);
        acked = last;
        continue;
      }
      if tf0.load(Ordering::SeqCst) {
        break;
      }
      if sched::block_here("writer-loop:idle") {
        wb.process_commands();
        break;
      }
    }
    s0.leave();
    let _ = rx_done.recv();
    drop(wb);
  });

  let s1 = sched.clone();
  let tf1 = task_finished.clone();
  let t1 = std::thread::spawn(move || -> (usize, usize, bool, u64, u64) {
    let p = rx_dw.recv().unwrap();
    let dw: &crate::with_key::DataWriter<VSample> = unsafe { &*p.0 };
    let hits = Arc::new(FlagWaker(Default::default()));
    let latest = Arc::new(AtomicU64::new(0));
    let stale = Arc::new(AtomicU64::new(0));
    let (mut done, mut failed, mut only_final, mut parks, mut wakeups) = (0usize, 0usize, false, 0u64, 0u64);
    let mut pendings = 0u32;
    s1.enter(1);
    'rounds: for i in 0..nrounds {
      if dw.write(VSample { key: 1, id: i as u32 + 1, blob: vec![] }, None).is_err() {
        failed += 1;
        continue;
      }
      sched::yield_at("task:after-write");
      let mut fut = Box::pin(dw.async_wait_for_acknowledgments());
      loop {
        let before = hits.0.load(Ordering::SeqCst);
        let gen = latest.fetch_add(1, Ordering::SeqCst) + 1;
        let waker = std::task::Waker::from(Arc::new(GenWaker { gen, latest: latest.clone(), hits: hits.clone(), stale: stale.clone() }));
        let mut cx = Context::from_waker(&waker);
        match fut.as_mut().poll(&mut cx) {
          std::task::Poll::Ready(Ok(true)) => {
            done += 1;
            break;
          }
          std::task::Poll::Ready(_) => {
            failed += 1;
            break;
          }
          std::task::Poll::Pending => {
            let k = pendings;
            pendings += 1;
            if k < 32 && repoll_mask >> k & 1 == 1 {
              sched::yield_at("task:before-unrequested-repoll");
              continue;
            }
            parks += 1;
            loop {
              if hits.0.load(Ordering::SeqCst) > before {
                wakeups += 1;
                break;
              }
              if sched::block_here("task:parked") {
                if hits.0.load(Ordering::SeqCst) > before {
                  wakeups += 1;
                  break;
                }
                // wind up: would the future complete if somebody polled it?
                let mut cx = Context::from_waker(&waker);
                if let std::task::Poll::Ready(Ok(true)) = fut.as_mut().poll(&mut cx) {
                  only_final = true;
                  done += 1;
                }
                break 'rounds;
              }
            }
          }
        }
      }
      drop(fut);
      sched::yield_at("task:between-rounds");
    }
    tf1.store(true, Ordering::SeqCst);
    s1.leave();
    (done, failed, only_final, parks, wakeups)
  });

  let (steps, h, exhausted) = sched.drive_mode(schedule_seed, 40_000, pct_depth, 8 * nrounds + 10);
  let (done, failed, only_final, parks, wakeups) = t1.join().expect("task thread");
  let _ = tx_done.send(());
  t0.join().expect("writer thread");
  let (trace, hits) = sched.take_trace();
  AwOut {
    writes_requested: nrounds,
    writes_completed: done,
    writes_failed: failed,
    completed_only_on_final_repoll: only_final,
    parks,
    wakeups,
    steps,
    schedule_hash: h,
    exhausted,
    trace: trace.into_iter().map(|(t, s)| (t, s.to_string())).collect(),
    site_hits: hits.into_iter().map(|(k, v)| (k.to_string(), v)).collect(),
  }
}
