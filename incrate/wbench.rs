// E-WIRE WriterBench: a hand-built `Writer` wired to a real `DataWriter` through
// the same command channel / waker cell `Publisher::create_datawriter` uses, plus
// a reader-less `MessageReceiver` whose acknack channel feeds
// `Writer::handle_ack_nack` exactly as `DPEventLoop::handle_writer_acknack_action`
// does. Timers are never polled: heartbeat, repair and cleaning steps are fired
// explicitly (logical time). All sends are captured by the net tap.
use std::{
  net::SocketAddr,
  rc::Rc,
  sync::{Arc, Mutex},
};

use bytes::Bytes;
use mio_extras::channel as mio_channel;

pub use super::super::rtps::writer::verif_hook::ProxyView;
use super::{
  net::{self, Sent},
  types::{env, VSample},
};
use crate::{
  dds::{
    qos::{policy, QosPolicies, QosPolicyBuilder},
    statusevents::{sync_status_channel, DataWriterStatus, DomainParticipantStatusEvent, StatusChannelReceiver},
    topic::{Topic, TopicDescription, TopicKind},
    typedesc::TypeDesc,
    with_key::{self, datawriter::WriteOptionsBuilder},
  },
  discovery::discovery::DiscoveryCommand,
  messages::submessages::submessages::AckSubmessage,
  network::udp_sender::UDPSender,
  rtps::{
    message_receiver::MessageReceiver,
    rtps_reader_proxy::RtpsReaderProxy,
    writer::{Writer, WriterCommand, WriterIngredients},
  },
  structure::{
    entity::RTPSEntity,
    guid::{EntityId, EntityKind, GuidPrefix, GUID},
    locator::Locator,
  },
  Timestamp,
};

#[derive(Clone, Debug)]
pub struct WbCfg {
  pub reliable: bool,
  /// 0 = KeepAll, n>0 KeepLast(n), -1 absent
  pub history: i32,
  pub transient_local: bool,
  /// Writer::data_max_size_serialized (fragment size); 0 = leave default 1024
  pub frag_size: usize,
  pub writer_key: [u8; 3],
}

pub struct FlagWaker(pub std::sync::atomic::AtomicU64);
impl std::task::Wake for FlagWaker {
  fn wake(self: Arc<Self>) {
    self.0.fetch_add(1, std::sync::atomic::Ordering::SeqCst);
  }
}

struct DwPtr(*const with_key::DataWriter<VSample>);
unsafe impl Send for DwPtr {}

type WaitFuture = std::pin::Pin<Box<dyn std::future::Future<Output = crate::dds::result::WriteResult<bool, ()>>>>;

/// A waker of generation `gen`: a wake counts in `hits` only while `gen` is still the latest generation handed to
/// the future (Future::poll: "only the Waker from the most recent call should be scheduled to receive a wakeup").
pub struct GenWaker {
  pub gen: u64,
  pub latest: Arc<std::sync::atomic::AtomicU64>,
  pub hits: Arc<FlagWaker>,
  pub stale: Arc<std::sync::atomic::AtomicU64>,
}
impl std::task::Wake for GenWaker {
  fn wake(self: Arc<Self>) {
    self.wake_by_ref()
  }
  fn wake_by_ref(self: &Arc<Self>) {
    use std::sync::atomic::Ordering::SeqCst;
    if self.latest.load(SeqCst) == self.gen {
      self.hits.0.fetch_add(1, SeqCst);
    } else {
      self.stale.fetch_add(1, SeqCst);
    }
  }
}

pub struct WriterBench {
  pub cfg: WbCfg,
  // NOTE field order = drop order: the future and the waiter thread borrow `dw`
  async_wait: Option<WaitFuture>,
  pub async_flag: Arc<FlagWaker>,
  /// second handle on the DataWriter -> Writer command queue, for changes a VSample DataWriter cannot make
  raw_tx: mio_channel::SyncSender<WriterCommand>,
  // every poll of the ack-wait future hands over a waker of a new generation: only the latest one counts
  async_gen: Arc<std::sync::atomic::AtomicU64>,
  async_stale: Arc<std::sync::atomic::AtomicU64>,
  sync_wait: Option<std::thread::JoinHandle<(Result<bool, String>, f64)>>,
  /// a second application thread waiting on the same DataWriter at the same time
  sync_wait2: Option<std::thread::JoinHandle<(Result<bool, String>, f64)>>,
  writer: Writer,
  pub dw: Box<with_key::DataWriter<VSample>>,
  mr: MessageReceiver,
  acknack_rx: mio_channel::Receiver<(GuidPrefix, AckSubmessage)>,
  _spdp_rx: mio_channel::Receiver<GuidPrefix>,
  pub status_rx: StatusChannelReceiver<DomainParticipantStatusEvent>,
  pub own_prefix: [u8; 12],
  writer_eid: EntityId,
  qos: QosPolicies,
}

thread_local! {
  static UDP: Rc<UDPSender> = Rc::new(UDPSender::new(0).expect("udp sender"));
  static WTOPIC: Topic = {
    let e = env();
    let q = QosPolicyBuilder::new().build();
    Topic::new(&e.dp.weak_clone(), "vt_keyed_w".to_string(), TypeDesc::new("VSample".to_string()), &q, TopicKind::WithKey)
  };
}

fn rel(reliable: bool) -> policy::Reliability {
  if reliable {
    policy::Reliability::Reliable { max_blocking_time: crate::Duration::from_millis(2000) }
  } else {
    policy::Reliability::BestEffort
  }
}

impl WriterBench {
  pub fn new_with_qos(qos: QosPolicies, writer_key: [u8; 3]) -> WriterBench {
    let reliable = qos.is_reliable();
    Self::build(WbCfg { reliable, history: -1, transient_local: false, frag_size: 0, writer_key }, Some(qos))
  }
  pub fn new(cfg: WbCfg) -> WriterBench {
    Self::build(cfg, None)
  }
  fn build(cfg: WbCfg, qos_override: Option<QosPolicies>) -> WriterBench {
    let e = env();
    let topic = WTOPIC.with(|t| t.clone());
    let mut qb = QosPolicyBuilder::new().reliability(rel(cfg.reliable));
    match cfg.history {
      0 => qb = qb.history(policy::History::KeepAll),
      n if n > 0 => qb = qb.history(policy::History::KeepLast { depth: n }),
      _ => {}
    }
    qb = qb.durability(if cfg.transient_local { policy::Durability::TransientLocal } else { policy::Durability::Volatile });
    let qos = qos_override.unwrap_or_else(|| qb.build());

    let writer_eid = EntityId::new(cfg.writer_key, EntityKind::WRITER_WITH_KEY_USER_DEFINED);
    let guid = GUID::new_with_prefix_and_id(e.dp.guid_prefix(), writer_eid);

    // same shapes as Publisher::create_datawriter
    let (dwcc_upload, hccc_download) = mio_channel::sync_channel::<WriterCommand>(16);
    let writer_waker = Arc::new(Mutex::new(None));
    let (status_sender, status_receiver) = sync_status_channel::<DataWriterStatus>(4).unwrap();
    let (pstatus_tx, pstatus_rx) = sync_status_channel(64).unwrap();
    let (disc_tx, disc_rx) = mio_channel::sync_channel::<DiscoveryCommand>(4);
    drop(disc_rx);

    let ing = WriterIngredients {
      guid,
      writer_command_receiver: hccc_download,
      writer_command_receiver_waker: Arc::clone(&writer_waker),
      topic_name: topic.name(),
      like_stateless: false,
      qos_policies: qos.clone(),
      status_sender,
      security_plugins: None,
    };
    let mut writer = Writer::new(
      ing,
      UDP.with(|u| u.clone()),
      mio_extras::timer::Builder::default().build(),
      pstatus_tx,
    );
    if cfg.frag_size > 0 {
      writer.data_max_size_serialized = cfg.frag_size;
    }
    let raw_tx = dwcc_upload.clone();
    let dw = with_key::DataWriter::<VSample>::new(
      e.publ.clone(),
      topic,
      qos.clone(),
      guid,
      dwcc_upload,
      writer_waker,
      disc_tx,
      status_receiver,
    )
    .unwrap();

    let (acknack_tx, acknack_rx) = mio_channel::sync_channel(256);
    let (spdp_tx, spdp_rx) = mio_channel::sync_channel(8);
    let mr = MessageReceiver::new(e.dp.guid_prefix(), acknack_tx, spdp_tx, None);
    let mut own_prefix = [0u8; 12];
    own_prefix.copy_from_slice(e.dp.guid_prefix().as_ref());
    WriterBench { cfg, raw_tx, async_wait: None, async_flag: Arc::new(FlagWaker(Default::default())), async_gen: Default::default(), async_stale: Default::default(), sync_wait: None, sync_wait2: None, writer, dw: Box::new(dw), mr, acknack_rx, _spdp_rx: spdp_rx, status_rx: pstatus_rx, own_prefix, writer_eid, qos }
  }

  pub fn writer_guid(&self) -> [u8; 16] {
    self.writer.guid().to_bytes()
  }
  pub fn writer_entity_id(&self) -> [u8; 4] {
    self.writer_eid.to_slice()
  }

  /// DataWriter::write_with_options followed by the Writer draining its command
  /// queue (what the event loop does on the command-channel event).
  pub fn write(&mut self, v: VSample, to_single: Option<[u8; 16]>, src_ts: Option<u64>) -> (Result<i64, String>, Vec<Sent>) {
    let mut wo = WriteOptionsBuilder::new();
    if let Some(g) = to_single {
      wo = wo.to_single_reader(GUID::from_bytes(g));
    }
    if let Some(t) = src_ts {
      wo = wo.source_timestamp(Timestamp::from_ticks(t));
    }
    let r = self.dw.write_with_options(v, wo.build()).map(|si| i64::from(si.sequence_number)).map_err(|e| format!("{e:?}"));
    (r, self.process_commands())
  }
  /// DataWriter::write only: the command stays in the queue until the next
  /// process_commands() (several commands then get drained in one batch).
  pub fn write_deferred(&mut self, v: VSample) -> Result<i64, String> {
    self.dw.write_with_options(v, WriteOptionsBuilder::new().build()).map(|si| i64::from(si.sequence_number)).map_err(|e| format!("{e:?}"))
  }
  pub fn dispose(&mut self, key: u32, src_ts: Option<u64>) -> (Result<(), String>, Vec<Sent>) {
    let r = self.dw.dispose(&key, src_ts.map(Timestamp::from_ticks)).map_err(|e| format!("{e:?}"));
    (r, self.process_commands())
  }
  /// A change with an arbitrary serialized body (CDR_LE encapsulation), as a DataWriter of some other type would
  /// hand it to the Writer: a value, or a dispose that carries its (possibly large) serialized key.
  /// Do not mix with `write` on the same bench: the sequence numbers are the caller's.
  pub fn write_raw(&mut self, dispose_by_key: bool, body: Vec<u8>, sn: i64) -> Vec<Sent> {
    use crate::{
      dds::ddsdata::DDSData,
      messages::submessages::elements::serialized_payload::SerializedPayload,
      structure::{cache_change::ChangeKind, sequence_number::SequenceNumber},
      RepresentationIdentifier,
    };
    let sp = SerializedPayload::new_from_bytes(RepresentationIdentifier::CDR_LE, Bytes::from(body));
    let ddsdata = if dispose_by_key { DDSData::new_disposed_by_key(ChangeKind::NotAliveDisposed, sp) } else { DDSData::new(sp) };
    self
      .raw_tx
      .try_send(WriterCommand::DDSData { ddsdata, write_options: crate::dds::with_key::datawriter::WriteOptions::default(), sequence_number: SequenceNumber::new(sn) })
      .expect("raw command");
    self.process_commands()
  }

  pub fn process_commands(&mut self) -> Vec<Sent> {
    net::capture_begin();
    self.writer.process_writer_command();
    net::capture_end()
  }

  /// The reader requests the durability the writer offers (so a TransientLocal writer serves it its history).
  pub fn match_reader(&mut self, guid: [u8; 16], reliable: bool, addr: SocketAddr) {
    let tl = self.cfg.transient_local;
    self.match_reader_d(guid, reliable, tl, addr)
  }
  /// `tl_reader` false: the reader requests Durability Volatile.
  pub fn match_reader_d(&mut self, guid: [u8; 16], reliable: bool, tl_reader: bool, addr: SocketAddr) {
    let q = QosPolicyBuilder::new()
      .reliability(rel(reliable))
      .durability(if tl_reader { policy::Durability::TransientLocal } else { policy::Durability::Volatile })
      .build();
    let mut rp = RtpsReaderProxy::new(GUID::from_bytes(guid), q.clone(), false);
    rp.unicast_locator_list = vec![Locator::from(addr)];
    self.writer.update_reader_proxy(&rp, &q);
  }
  /// Match attempt with a full requested QoS; returns whether the reader is matched afterwards.
  pub fn match_reader_qos(&mut self, guid: [u8; 16], requested: &QosPolicies, addr: SocketAddr) -> bool {
    let mut rp = RtpsReaderProxy::new(GUID::from_bytes(guid), requested.clone(), false);
    rp.unicast_locator_list = vec![Locator::from(addr)];
    self.writer.update_reader_proxy(&rp, requested);
    self.writer.vh_proxies().iter().any(|p| p.guid == guid)
  }

  pub fn unmatch_reader(&mut self, guid: [u8; 16]) {
    self.writer.reader_lost(GUID::from_bytes(guid));
  }

  /// A datagram from a reader: MessageReceiver -> acknack channel -> Writer::handle_ack_nack.
  pub fn inject(&mut self, datagram: &[u8]) -> Vec<Sent> {
    net::capture_begin();
    self.mr.handle_received_packet(&Bytes::copy_from_slice(datagram));
    while let Ok((prefix, sub)) = self.acknack_rx.try_recv() {
      // as DPEventLoop::handle_writer_acknack_action: dispatch on writer id
      if sub.writer_id() == self.writer_eid {
        self.writer.handle_ack_nack(prefix, &sub);
      }
    }
    net::capture_end()
  }

  pub fn heartbeat_tick(&mut self) -> Vec<Sent> {
    net::capture_begin();
    self.writer.handle_heartbeat_tick(false);
    net::capture_end()
  }
  pub fn cache_cleaning(&mut self) {
    self.writer.vh_fire_cache_cleaning();
  }
  /// What the SendRepairData / SendRepairFrags timers do, minus the waiting:
  /// one repair-data step for every proxy in repair mode and one repair-frags
  /// step for every proxy with fragments requested. Returns sends + whether
  /// anything is still pending.
  pub fn repair_step(&mut self) -> (Vec<Sent>, bool) {
    net::capture_begin();
    let views = self.writer.vh_proxies();
    for v in &views {
      if v.repair_mode {
        self.writer.vh_fire_repair_data(GUID::from_bytes(v.guid));
      }
    }
    let views = self.writer.vh_proxies();
    for v in &views {
      if v.frags_requested {
        self.writer.vh_fire_repair_frags(GUID::from_bytes(v.guid));
      }
    }
    let pending = self.writer.vh_proxies().iter().any(|v| v.repair_mode || v.frags_requested);
    (net::capture_end(), pending)
  }

  // ---- wait_for_acknowledgments, synchronous form on its own thread
  pub fn sync_wait_spawn(&mut self, timeout_ms: u64) {
    let p = DwPtr(&*self.dw as *const _);
    self.sync_wait = Some(std::thread::spawn(move || {
      let p = p;
      // SAFETY: the bench joins this thread before `dw` is dropped (see Drop / sync_wait_join)
      let dw = unsafe { &*p.0 };
      let t0 = std::time::Instant::now();
      let r = dw
        .wait_for_acknowledgments(std::time::Duration::from_millis(timeout_ms))
        .map_err(|e| format!("{e:?}"));
      (r, t0.elapsed().as_secs_f64())
    }));
  }
  /// the same from a second thread while the first wait may still be pending
  pub fn sync_wait2_spawn(&mut self, timeout_ms: u64) {
    let p = DwPtr(&*self.dw as *const _);
    self.sync_wait2 = Some(std::thread::spawn(move || {
      let p = p;
      // SAFETY: as sync_wait_spawn; joined in sync_wait2_join / Drop
      let dw = unsafe { &*p.0 };
      let t0 = std::time::Instant::now();
      let r = dw.wait_for_acknowledgments(std::time::Duration::from_millis(timeout_ms)).map_err(|e| format!("{e:?}"));
      (r, t0.elapsed().as_secs_f64())
    }));
  }
  pub fn sync_wait2_join(&mut self) -> Option<(Result<bool, String>, f64)> {
    self.sync_wait2.take().map(|h| h.join().expect("second waiter thread panicked"))
  }
  pub fn sync_wait_finished(&self) -> bool {
    self.sync_wait.as_ref().map_or(true, |h| h.is_finished())
  }
  pub fn sync_wait_join(&mut self) -> Option<(Result<bool, String>, f64)> {
    self.sync_wait.take().map(|h| h.join().expect("waiter thread panicked"))
  }

  // ---- asynchronous form, polled under executor discipline by the harness
  pub fn async_wait_start(&mut self) {
    // SAFETY: `async_wait` is declared before `dw` and therefore dropped first
    let dw: &'static with_key::DataWriter<VSample> = unsafe { &*(&*self.dw as *const _) };
    self.async_wait = Some(Box::pin(dw.async_wait_for_acknowledgments()));
  }
  /// None = Pending
  pub fn async_wait_poll(&mut self) -> Option<Result<bool, String>> {
    let gen = self.async_gen.fetch_add(1, std::sync::atomic::Ordering::SeqCst) + 1;
    let waker = std::task::Waker::from(Arc::new(GenWaker { gen, latest: self.async_gen.clone(), hits: self.async_flag.clone(), stale: self.async_stale.clone() }));
    let mut cx = std::task::Context::from_waker(&waker);
    match self.async_wait.as_mut() {
      None => Some(Err("no future".to_string())),
      Some(f) => match f.as_mut().poll(&mut cx) {
        std::task::Poll::Pending => None,
        std::task::Poll::Ready(r) => {
          self.async_wait = None;
          Some(r.map_err(|e| format!("{e:?}")))
        }
      },
    }
  }
  /// wakes that reached the waker handed over at the most recent poll
  pub fn async_wake_count(&self) -> u64 {
    self.async_flag.0.load(std::sync::atomic::Ordering::SeqCst)
  }
  /// wakes that went to a waker of an earlier poll (a real executor may have dropped that task)
  pub fn async_stale_wake_count(&self) -> u64 {
    self.async_stale.load(std::sync::atomic::Ordering::SeqCst)
  }

  pub fn history_sns(&self) -> Vec<i64> {
    self.writer.vh_history_sns()
  }
  pub fn first_last(&self) -> (i64, i64) {
    self.writer.vh_first_last()
  }
  pub fn proxies(&self) -> Vec<ProxyView> {
    self.writer.vh_proxies()
  }
  pub fn has_ack_waiter(&self) -> bool {
    self.writer.vh_has_ack_waiter()
  }
  pub fn qos(&self) -> &QosPolicies {
    &self.qos
  }
}

impl Drop for WriterBench {
  fn drop(&mut self) {
    self.async_wait = None;
    if let Some(h) = self.sync_wait.take() {
      let _ = h.join();
    }
    if let Some(h) = self.sync_wait2.take() {
      let _ = h.join();
    }
  }
}
