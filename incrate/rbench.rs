// E-WIRE ReaderBench: a hand-built `Reader` inside a hand-built
// `MessageReceiver`, wired to a real DataReader / SimpleDataReader exactly as
// `Subscriber::create_simple_datareader_internal` wires them (same channels,
// same shared TopicCache, same waker cell), minus the DP event loop thread.
// Datagrams are injected as raw bytes through
// `MessageReceiver::handle_received_packet`; whatever the Reader sends is
// captured by the net tap. The API is plain data; oracles live in the harness.
use std::{
  net::SocketAddr,
  rc::Rc,
  sync::{Arc, Mutex, RwLock},
  task::{Context, Poll, Wake, Waker},
};

use bytes::Bytes;
use futures::stream::Stream;
use mio_extras::channel as mio_channel;

use super::{
  net::{self, Sent},
  types::{env, VNoKey, VSample},
};
use crate::{
  dds::{
    no_key,
    qos::{policy, HasQoSPolicy, QosPolicies, QosPolicyBuilder},
    readcondition::ReadCondition,
    statusevents::{sync_status_channel, DataReaderStatus, DomainParticipantStatusEvent,
      StatusChannelReceiver},
    topic::{Topic, TopicDescription, TopicKind},
    typedesc::TypeDesc,
    with_key::{
      self,
      datareader::SelectByKey,
      datasample::{DataSample, DeserializedCacheChange, Sample},
      simpledatareader::ReaderCommand,
    },
    no_key::wrappers::{DAWrapper, NoKeyWrapper},
  },
  discovery::discovery::DiscoveryCommand,
  messages::submessages::submessages::AckSubmessage,
  mio_source,
  network::udp_sender::UDPSender,
  rtps::{
    message_receiver::MessageReceiver,
    reader::{Reader, ReaderIngredients},
    rtps_writer_proxy::RtpsWriterProxy,
  },
  serialization::CDRDeserializerAdapter,
  structure::{
    dds_cache::{DDSCache, TopicCache},
    entity::RTPSEntity,
    guid::{EntityId, EntityKind, GuidPrefix, GUID},
    locator::Locator,
    sequence_number::SequenceNumber,
  },
  SampleInfo,
};

#[derive(Clone, Copy, Debug, PartialEq, Eq)]
pub enum Flavor {
  Keyed,       // with_key::DataReader<VSample>
  NoKey,       // no_key::DataReader<VNoKey>
  Simple,      // with_key::SimpleDataReader<VSample>
  SimpleNoKey, // no_key::SimpleDataReader<VNoKey>
}

#[derive(Clone, Debug)]
pub struct RbCfg {
  pub flavor: Flavor,
  pub reliable: bool,
  /// 0 = KeepAll, n>0 = KeepLast(n), -1 = history policy absent
  pub history: i32,
  /// 0 = resource limits absent, else max_samples (= per instance too)
  pub max_samples: i32,
  pub reader_key: [u8; 3],
}

#[derive(Clone, Debug, PartialEq, Eq)]
pub enum ObsVal {
  Value { key: u32, id: u32, blob: Vec<u8> },
  Dispose { key: u32 },
}

#[derive(Clone, Debug, PartialEq, Eq)]
pub struct ObsInfo {
  pub read: bool,     // sample_state == Read
  pub view_new: bool, // view_state == New
  pub inst: u8,       // 0 alive, 1 disposed, 2 no writers
  pub disposed_gen: i32,
  pub no_writers_gen: i32,
  pub sample_rank: i32,
  pub generation_rank: i32,
  pub abs_generation_rank: i32,
}

#[derive(Clone, Debug, PartialEq, Eq)]
pub struct Obs {
  /// writer GUID and SN when the API flavour reports them
  pub writer: Option<[u8; 16]>,
  pub sn: Option<i64>,
  /// source timestamp as RTPS ticks (seconds<<32 | fraction)
  pub src_ts: Option<u64>,
  pub val: ObsVal,
  pub info: Option<ObsInfo>,
}

#[derive(Clone, Debug)]
pub enum ReadOp {
  Take { max: usize, not_read_only: bool },
  Read { max: usize, not_read_only: bool },
  TakeNext,
  ReadNext,
  IterRead { not_read_only: bool },
  IterTake { not_read_only: bool },
  TakeInstance { max: usize, not_read_only: bool, key: Option<u32>, next: bool },
  ReadInstance { max: usize, not_read_only: bool, key: Option<u32>, next: bool },
  /// SimpleDataReader::try_take_one (after drain_read_notifications)
  SimpleTakeOne,
  /// one poll of the async stream; Ok(vec![]) = Pending
  StreamPoll,
}

enum Dr {
  Keyed(with_key::DataReader<VSample>),
  NoKey(no_key::DataReader<VNoKey>),
  Simple(with_key::SimpleDataReader<VSample>),
  SimpleNoKey(no_key::SimpleDataReader<VNoKey>),
}

pub struct FlagWaker(pub std::sync::atomic::AtomicU64);
impl Wake for FlagWaker {
  fn wake(self: Arc<Self>) {
    self.0.fetch_add(1, std::sync::atomic::Ordering::SeqCst);
  }
}

/// The application's half: the DataReader flavour and its waker. Send, so that it can
/// live on another thread than the Reader (E-SCHED).
pub struct ConsumerSide {
  pub flavor: Flavor,
  dr: Dr,
  pub waker_flag: Arc<FlagWaker>,
}

pub struct ReaderBench {
  pub cfg: RbCfg,
  mr: MessageReceiver,
  pub cons: ConsumerSide,
  reader_eid: EntityId,
  pub own_prefix: [u8; 12],
  acknack_rx: mio_channel::Receiver<(GuidPrefix, AckSubmessage)>,
  _spdp_rx: mio_channel::Receiver<GuidPrefix>,
  _pstatus_rx: StatusChannelReceiver<DomainParticipantStatusEvent>,
  _cmd_keepalive: Option<mio_channel::SyncSender<ReaderCommand>>,
  topic_cache: Arc<Mutex<TopicCache>>,
  /// further readers on the same topic (same TopicCache, same MessageReceiver), as a participant with several
  /// DataReaders on one topic has them
  siblings: Vec<Sibling>,
}

struct Sibling {
  cons: ConsumerSide,
  reader_eid: EntityId,
  _pstatus_rx: StatusChannelReceiver<DomainParticipantStatusEvent>,
}

thread_local! {
  static UDP: Rc<UDPSender> = Rc::new(UDPSender::new(0).expect("udp sender"));
  static TOPICS: (Topic, Topic) = {
    let e = env();
    let q = QosPolicyBuilder::new().build();
    let w = e.dp.weak_clone();
    (
      Topic::new(&w, "vt_keyed".to_string(), TypeDesc::new("VSample".to_string()), &q, TopicKind::WithKey),
      Topic::new(&w, "vt_nokey".to_string(), TypeDesc::new("VNoKey".to_string()), &q, TopicKind::NoKey),
    )
  };
}

fn sn_i64(sn: SequenceNumber) -> i64 {
  i64::from(sn)
}

fn info_of(si: &SampleInfo) -> (Option<[u8; 16]>, Option<i64>, Option<u64>, ObsInfo) {
  use crate::{InstanceState, SampleState, ViewState};
  (
    Some(si.writer_guid().to_bytes()),
    Some(sn_i64(si.sample_identity().sequence_number)),
    si.source_timestamp().map(|t| t.to_ticks()),
    ObsInfo {
      read: si.sample_state() == SampleState::Read,
      view_new: si.view_state() == ViewState::New,
      inst: match si.instance_state() {
        InstanceState::Alive => 0,
        InstanceState::NotAliveDisposed => 1,
        InstanceState::NotAliveNoWriters => 2,
      },
      disposed_gen: si.disposed_generation_count(),
      no_writers_gen: si.no_writers_generation_count(),
      sample_rank: si.sample_rank(),
      generation_rank: si.generation_rank(),
      abs_generation_rank: si.absolute_generation_rank(),
    },
  )
}

fn val_keyed(s: Sample<&VSample, u32>) -> ObsVal {
  match s {
    Sample::Value(v) => ObsVal::Value { key: v.key, id: v.id, blob: v.blob.clone() },
    Sample::Dispose(k) => ObsVal::Dispose { key: k },
  }
}

fn obs_keyed_ref(ds: &DataSample<&VSample>) -> Obs {
  let (writer, sn, src_ts, info) = info_of(ds.sample_info());
  let val = match ds.value() {
    Sample::Value(v) => ObsVal::Value { key: v.key, id: v.id, blob: v.blob.clone() },
    Sample::Dispose(k) => ObsVal::Dispose { key: *k },
  };
  Obs { writer, sn, src_ts, val, info: Some(info) }
}
fn obs_keyed(ds: &DataSample<VSample>) -> Obs {
  let (writer, sn, src_ts, info) = info_of(ds.sample_info());
  let val = match ds.value() {
    Sample::Value(v) => ObsVal::Value { key: v.key, id: v.id, blob: v.blob.clone() },
    Sample::Dispose(k) => ObsVal::Dispose { key: *k },
  };
  Obs { writer, sn, src_ts, val, info: Some(info) }
}
fn obs_bare(val: ObsVal) -> Obs {
  Obs { writer: None, sn: None, src_ts: None, val, info: None }
}
fn obs_dcc_keyed(d: &DeserializedCacheChange<VSample>) -> Obs {
  Obs {
    writer: Some(d.writer_guid.to_bytes()),
    sn: Some(sn_i64(d.sequence_number)),
    src_ts: d.write_options.source_timestamp().map(|t| t.to_ticks()),
    val: match &d.sample {
      Sample::Value(v) => ObsVal::Value { key: v.key, id: v.id, blob: v.blob.clone() },
      Sample::Dispose(k) => ObsVal::Dispose { key: *k },
    },
    info: None,
  }
}

fn cond(not_read_only: bool) -> ReadCondition {
  if not_read_only {
    ReadCondition::not_read()
  } else {
    ReadCondition::any()
  }
}

pub fn guid_from(b: [u8; 16]) -> GUID {
  GUID::from_bytes(b)
}

impl ReaderBench {
  /// Reader whose whole QoS is given by the caller (C10/C11).
  pub fn new_with_qos(flavor: Flavor, qos: QosPolicies, reader_key: [u8; 3]) -> ReaderBench {
    let reliable = matches!(qos.reliability(), Some(policy::Reliability::Reliable { .. }));
    Self::build(RbCfg { flavor, reliable, history: -1, max_samples: 0, reader_key }, Some(qos))
  }

  pub fn new(cfg: RbCfg) -> ReaderBench {
    Self::build(cfg, None)
  }

  /// One Reader + DataReader pair on `topic_cache` (a fresh one if None), wired as Subscriber::create_*datareader wires them.
  #[allow(clippy::type_complexity)]
  fn make_reader(cfg: &RbCfg, qos_override: Option<QosPolicies>, shared_cache: Option<Arc<Mutex<TopicCache>>>) -> (Reader, Dr, EntityId, StatusChannelReceiver<DomainParticipantStatusEvent>, Arc<Mutex<TopicCache>>) {
    let e = env();
    let keyed = matches!(cfg.flavor, Flavor::Keyed | Flavor::Simple);
    let topic = TOPICS.with(|t| if keyed { t.0.clone() } else { t.1.clone() });

    let mut qb = QosPolicyBuilder::new();
    qb = qb.reliability(if cfg.reliable {
      policy::Reliability::Reliable { max_blocking_time: crate::Duration::from_millis(100) }
    } else {
      policy::Reliability::BestEffort
    });
    match cfg.history {
      0 => qb = qb.history(policy::History::KeepAll),
      n if n > 0 => qb = qb.history(policy::History::KeepLast { depth: n }),
      _ => {}
    }
    if cfg.max_samples > 0 {
      qb = qb.resource_limits(policy::ResourceLimits {
        max_samples: cfg.max_samples,
        max_instances: cfg.max_samples,
        max_samples_per_instance: cfg.max_samples,
      });
    }
    let qos = qos_override.unwrap_or_else(|| qb.build());

    // fresh topic cache per bench (same construction as DDSCache::add_new_topic), or the one of the sibling
    let topic_cache = match shared_cache {
      Some(tc) => tc,
      None => {
        let mut ddsc = DDSCache::new();
        ddsc.add_new_topic(topic.name(), topic.get_type(), &topic.qos())
      }
    };
    topic_cache.lock().unwrap().update_keep_limits(&qos);

    let kind = if keyed {
      EntityKind::READER_WITH_KEY_USER_DEFINED
    } else {
      EntityKind::READER_NO_KEY_USER_DEFINED
    };
    let reader_eid = EntityId::new(cfg.reader_key, kind);
    let reader_guid = GUID::new_with_prefix_and_id(e.dp.guid_prefix(), reader_eid);

    // same channel shapes as create_simple_datareader_internal
    let (send, rec) = mio_channel::sync_channel::<()>(4);
    let (status_sender, status_receiver) = sync_status_channel::<DataReaderStatus>(4).unwrap();
    let (reader_command_sender, reader_command_receiver) =
      mio_channel::sync_channel::<ReaderCommand>(0);
    let data_reader_waker = Arc::new(Mutex::new(None));
    let (poll_event_source, poll_event_sender) = mio_source::make_poll_channel().unwrap();
    let (pstatus_tx, pstatus_rx) = sync_status_channel(16).unwrap();
    // discovery command channel whose receiver is gone: Drop of the reader
    // then sees Disconnected, which the code treats as "shutting down".
    let (disc_tx, disc_rx) = mio_channel::sync_channel::<DiscoveryCommand>(4);
    drop(disc_rx);

    let ing = ReaderIngredients {
      guid: reader_guid,
      notification_sender: send,
      status_sender,
      topic_name: topic.name(),
      topic_cache_handle: topic_cache.clone(),
      like_stateless: false,
      qos_policy: qos.clone(),
      data_reader_command_receiver: reader_command_receiver,
      data_reader_waker: data_reader_waker.clone(),
      poll_event_sender,
      security_plugins: None,
    };
    let reader = Reader::new(
      ing,
      UDP.with(|u| u.clone()),
      mio_extras::timer::Builder::default().build(),
      pstatus_tx,
    );

    let dr = if keyed {
      let sdr = with_key::SimpleDataReader::<VSample, CDRDeserializerAdapter<VSample>>::new(
        e.sub.clone(),
        reader_eid,
        topic.clone(),
        qos.clone(),
        rec,
        topic_cache.clone(),
        disc_tx,
        status_receiver,
        reader_command_sender,
        data_reader_waker,
        poll_event_source,
      )
      .unwrap();
      match cfg.flavor {
        Flavor::Keyed => Dr::Keyed(with_key::DataReader::from_simple_data_reader(sdr)),
        _ => Dr::Simple(sdr),
      }
    } else {
      let sdr = with_key::SimpleDataReader::<
        NoKeyWrapper<VNoKey>,
        DAWrapper<CDRDeserializerAdapter<VNoKey>>,
      >::new(
        e.sub.clone(),
        reader_eid,
        topic.clone(),
        qos.clone(),
        rec,
        topic_cache.clone(),
        disc_tx,
        status_receiver,
        reader_command_sender,
        data_reader_waker,
        poll_event_source,
      )
      .unwrap();
      match cfg.flavor {
        Flavor::NoKey => Dr::NoKey(no_key::DataReader::from_keyed(
          with_key::DataReader::from_simple_data_reader(sdr),
        )),
        _ => Dr::SimpleNoKey(no_key::SimpleDataReader::from_keyed(sdr)),
      }
    };

    (reader, dr, reader_eid, pstatus_rx, topic_cache)
  }

  fn build(cfg: RbCfg, qos_override: Option<QosPolicies>) -> ReaderBench {
    let e = env();
    let (reader, dr, reader_eid, pstatus_rx, topic_cache) = Self::make_reader(&cfg, qos_override, None);
    let (acknack_tx, acknack_rx) = mio_channel::sync_channel(64);
    let (spdp_tx, spdp_rx) = mio_channel::sync_channel(64);
    let mut mr = MessageReceiver::new(e.dp.guid_prefix(), acknack_tx, spdp_tx, None);
    mr.add_reader(reader);

    let mut own_prefix = [0u8; 12];
    own_prefix.copy_from_slice(e.dp.guid_prefix().as_ref());

    ReaderBench {
      cons: ConsumerSide { flavor: cfg.flavor, dr, waker_flag: Arc::new(FlagWaker(Default::default())) },
      cfg,
      mr,
      reader_eid,
      own_prefix,
      acknack_rx,
      _spdp_rx: spdp_rx,
      _pstatus_rx: pstatus_rx,
      _cmd_keepalive: None,
      topic_cache,
      siblings: vec![],
    }
  }


  /// Adds another reader on the same topic: same TopicCache, same MessageReceiver. Returns its index.
  /// `transient_local`: the sibling requests Durability TransientLocal (it wants what existed before it), else Volatile.
  pub fn add_sibling(&mut self, flavor: Flavor, reliable: bool, transient_local: bool, reader_key: [u8; 3]) -> usize {
    let max_samples = self.cfg.max_samples;
    self.add_sibling_with_limits(flavor, reliable, transient_local, reader_key, max_samples)
  }
  /// a second DataReader on the same topic (same TopicCache) whose own ResourceLimits differ from the first one's
  pub fn add_sibling_with_limits(&mut self, flavor: Flavor, reliable: bool, transient_local: bool, reader_key: [u8; 3], max_samples: i32) -> usize {
    let cfg = RbCfg { flavor, reliable, history: self.cfg.history, max_samples, reader_key };
    let mut qb = QosPolicyBuilder::new()
      .reliability(if reliable { policy::Reliability::Reliable { max_blocking_time: crate::Duration::from_millis(100) } } else { policy::Reliability::BestEffort })
      .durability(if transient_local { policy::Durability::TransientLocal } else { policy::Durability::Volatile });
    match cfg.history {
      0 => qb = qb.history(policy::History::KeepAll),
      n if n > 0 => qb = qb.history(policy::History::KeepLast { depth: n }),
      _ => {}
    }
    if cfg.max_samples > 0 {
      qb = qb.resource_limits(policy::ResourceLimits { max_samples: cfg.max_samples, max_instances: cfg.max_samples, max_samples_per_instance: cfg.max_samples });
    }
    let (reader, dr, reader_eid, pstatus_rx, _tc) = Self::make_reader(&cfg, Some(qb.build()), Some(self.topic_cache.clone()));
    self.mr.add_reader(reader);
    self.siblings.push(Sibling { cons: ConsumerSide { flavor, dr, waker_flag: Arc::new(FlagWaker(Default::default())) }, reader_eid, _pstatus_rx: pstatus_rx });
    self.siblings.len() - 1
  }
  pub fn sibling_entity_id(&self, idx: usize) -> [u8; 4] {
    self.siblings[idx].reader_eid.to_slice()
  }
  pub fn sibling_match_writer(&mut self, idx: usize, guid: [u8; 16], reliable: bool, reply_to: SocketAddr) {
    let proxy = RtpsWriterProxy::new(GUID::from_bytes(guid), vec![Locator::from(reply_to)], vec![], EntityId::UNKNOWN);
    let q = QosPolicyBuilder::new()
      .reliability(if reliable { policy::Reliability::Reliable { max_blocking_time: crate::Duration::from_millis(100) } } else { policy::Reliability::BestEffort })
      .build();
    let eid = self.siblings[idx].reader_eid;
    self.mr.reader_mut(eid).unwrap().update_writer_proxy(proxy, &q);
  }
  pub fn sibling_op(&mut self, idx: usize, op: &ReadOp) -> Result<Vec<Obs>, String> {
    self.siblings[idx].cons.op(op)
  }

  pub fn reader_entity_id(&self) -> [u8; 4] {
    self.reader_eid.to_slice()
  }

  /// Match a remote writer (as discovery would): reliable/best-effort offered QoS.
  pub fn match_writer(&mut self, guid: [u8; 16], reliable: bool, reply_to: SocketAddr) {
    let proxy = RtpsWriterProxy::new(
      GUID::from_bytes(guid),
      vec![Locator::from(reply_to)],
      vec![],
      EntityId::UNKNOWN,
    );
    let mut qb = QosPolicyBuilder::new();
    qb = qb.reliability(if reliable {
      policy::Reliability::Reliable { max_blocking_time: crate::Duration::from_millis(100) }
    } else {
      policy::Reliability::BestEffort
    });
    let q = qb.build();
    let eid = self.reader_eid;
    self.mr.reader_mut(eid).unwrap().update_writer_proxy(proxy, &q);
  }

  /// Match attempt with a full offered QoS; returns whether the writer is matched afterwards.
  pub fn match_writer_qos(&mut self, guid: [u8; 16], offered: &QosPolicies, reply_to: SocketAddr) -> bool {
    let g = GUID::from_bytes(guid);
    let proxy = RtpsWriterProxy::new(g, vec![Locator::from(reply_to)], vec![], EntityId::UNKNOWN);
    let eid = self.reader_eid;
    let r = self.mr.reader_mut(eid).unwrap();
    r.update_writer_proxy(proxy, offered);
    r.contains_writer(g.entity_id)
  }

  pub fn unmatch_writer(&mut self, guid: [u8; 16]) {
    let eid = self.reader_eid;
    self.mr.reader_mut(eid).unwrap().remove_writer_proxy(GUID::from_bytes(guid));
  }

  /// Feed one datagram; returns what the reader side wanted to send in reply.
  pub fn inject(&mut self, datagram: &[u8]) -> Vec<Sent> {
    net::capture_begin();
    self.mr.handle_received_packet(&Bytes::copy_from_slice(datagram));
    net::capture_end()
  }

  /// ACKNACK/NACKFRAG submessages the MessageReceiver forwarded to writers.
  pub fn drain_acknack_channel(&mut self) -> usize {
    let mut n = 0;
    while self.acknack_rx.try_recv().is_ok() {
      n += 1;
    }
    n
  }

  pub fn topic_cache_len(&self) -> usize {
    // number of changes visible through the best-effort range query
    let tc = self.topic_cache.lock().unwrap();
    tc.get_changes_in_range_best_effort(crate::Timestamp::ZERO, crate::Timestamp::now())
      .count()
  }

  pub fn op(&mut self, op: &ReadOp) -> Result<Vec<Obs>, String> {
    self.cons.op(op)
  }

  /// Separate the application's half from the Reader's half (which is not Send).
  pub fn split(self) -> (ProducerSide, ConsumerSide) {
    let ReaderBench { cfg, mr, cons, reader_eid, own_prefix, acknack_rx, _spdp_rx, _pstatus_rx, _cmd_keepalive, topic_cache, siblings: _ } = self;
    (ProducerSide { cfg, mr, reader_eid, own_prefix, _acknack_rx: acknack_rx, _spdp_rx, _pstatus_rx, _cmd_keepalive, _topic_cache: topic_cache }, cons)
  }
}

/// The Reader's half after `split`.
pub struct ProducerSide {
  pub cfg: RbCfg,
  mr: MessageReceiver,
  reader_eid: EntityId,
  pub own_prefix: [u8; 12],
  _acknack_rx: mio_channel::Receiver<(GuidPrefix, AckSubmessage)>,
  _spdp_rx: mio_channel::Receiver<GuidPrefix>,
  _pstatus_rx: StatusChannelReceiver<DomainParticipantStatusEvent>,
  _cmd_keepalive: Option<mio_channel::SyncSender<ReaderCommand>>,
  _topic_cache: Arc<Mutex<TopicCache>>,
}

impl ProducerSide {
  pub fn reader_entity_id(&self) -> [u8; 4] {
    self.reader_eid.to_slice()
  }
  pub fn inject(&mut self, datagram: &[u8]) -> Vec<Sent> {
    net::capture_begin();
    self.mr.handle_received_packet(&Bytes::copy_from_slice(datagram));
    net::capture_end()
  }
}

impl ConsumerSide {
  /// register the DataReader as a mio-0.6 Evented, as the documented usage does
  pub fn register_mio06(&self, poll: &mio_06::Poll) {
    let (t, r, o) = (mio_06::Token(1), mio_06::Ready::readable(), mio_06::PollOpt::edge());
    match &self.dr {
      Dr::Keyed(d) => poll.register(d, t, r, o).unwrap(),
      Dr::NoKey(d) => poll.register(d, t, r, o).unwrap(),
      Dr::Simple(d) => poll.register(d, t, r, o).unwrap(),
      Dr::SimpleNoKey(d) => poll.register(d, t, r, o).unwrap(),
    }
  }
  /// register the DataReader as a mio-0.8 Source
  pub fn register_mio08(&mut self, registry: &mio_08::Registry) {
    let (t, i) = (mio_08::Token(1), mio_08::Interest::READABLE);
    match &mut self.dr {
      Dr::Keyed(d) => registry.register(d, t, i).unwrap(),
      Dr::NoKey(d) => registry.register(d, t, i).unwrap(),
      Dr::Simple(d) => registry.register(d, t, i).unwrap(),
      Dr::SimpleNoKey(d) => registry.register(d, t, i).unwrap(),
    }
  }

  pub fn op(&mut self, op: &ReadOp) -> Result<Vec<Obs>, String> {
    let es = |e: crate::dds::result::ReadError| format!("{e:?}");
    match (&mut self.dr, op) {
      (Dr::Keyed(dr), ReadOp::Take { max, not_read_only }) => dr
        .take(*max, cond(*not_read_only))
        .map(|v| v.iter().map(obs_keyed).collect())
        .map_err(es),
      (Dr::Keyed(dr), ReadOp::Read { max, not_read_only }) => dr
        .read(*max, cond(*not_read_only))
        .map(|v| v.iter().map(obs_keyed_ref).collect())
        .map_err(es),
      (Dr::Keyed(dr), ReadOp::TakeNext) => dr
        .take_next_sample()
        .map(|v| v.iter().map(obs_keyed).collect())
        .map_err(es),
      (Dr::Keyed(dr), ReadOp::ReadNext) => dr
        .read_next_sample()
        .map(|v| v.iter().map(obs_keyed_ref).collect())
        .map_err(es),
      (Dr::Keyed(dr), ReadOp::IterRead { not_read_only }) => {
        if *not_read_only {
          dr.iterator().map(|i| i.map(|s| obs_bare(val_keyed(s))).collect()).map_err(es)
        } else {
          dr.conditional_iterator(ReadCondition::any())
            .map(|i| i.map(|s| obs_bare(val_keyed(s))).collect())
            .map_err(es)
        }
      }
      (Dr::Keyed(dr), ReadOp::IterTake { not_read_only }) => {
        let f = |s: Sample<VSample, u32>| {
          obs_bare(match s {
            Sample::Value(v) => ObsVal::Value { key: v.key, id: v.id, blob: v.blob },
            Sample::Dispose(k) => ObsVal::Dispose { key: k },
          })
        };
        if *not_read_only {
          dr.into_iterator().map(|i| i.map(f).collect()).map_err(es)
        } else {
          dr.into_conditional_iterator(ReadCondition::any())
            .map(|i| i.map(f).collect())
            .map_err(es)
        }
      }
      (Dr::Keyed(dr), ReadOp::TakeInstance { max, not_read_only, key, next }) => dr
        .take_instance(
          *max,
          cond(*not_read_only),
          *key,
          if *next { SelectByKey::Next } else { SelectByKey::This },
        )
        .map(|v| v.iter().map(obs_keyed).collect())
        .map_err(es),
      (Dr::Keyed(dr), ReadOp::ReadInstance { max, not_read_only, key, next }) => dr
        .read_instance(
          *max,
          cond(*not_read_only),
          *key,
          if *next { SelectByKey::Next } else { SelectByKey::This },
        )
        .map(|v| v.iter().map(obs_keyed_ref).collect())
        .map_err(es),

      (Dr::NoKey(dr), ReadOp::Take { max, not_read_only }) => dr
        .take(*max, cond(*not_read_only))
        .map(|v| {
          v.iter()
            .map(|ds| {
              let (writer, sn, src_ts, info) = info_of(ds.sample_info());
              let x = ds.value();
              Obs { writer, sn, src_ts, val: ObsVal::Value { key: 0, id: x.id, blob: x.blob.clone() }, info: Some(info) }
            })
            .collect()
        })
        .map_err(es),
      (Dr::NoKey(dr), ReadOp::Read { max, not_read_only }) => dr
        .read(*max, cond(*not_read_only))
        .map(|v| {
          v.iter()
            .map(|ds| {
              let (writer, sn, src_ts, info) = info_of(ds.sample_info());
              let x = ds.value();
              Obs { writer, sn, src_ts, val: ObsVal::Value { key: 0, id: x.id, blob: x.blob.clone() }, info: Some(info) }
            })
            .collect()
        })
        .map_err(es),
      (Dr::NoKey(dr), ReadOp::TakeNext) => dr
        .take_next_sample()
        .map(|v| {
          v.iter()
            .map(|ds| {
              let (writer, sn, src_ts, info) = info_of(ds.sample_info());
              let x = ds.value();
              Obs { writer, sn, src_ts, val: ObsVal::Value { key: 0, id: x.id, blob: x.blob.clone() }, info: Some(info) }
            })
            .collect()
        })
        .map_err(es),
      (Dr::NoKey(dr), ReadOp::ReadNext) => dr
        .read_next_sample()
        .map(|v| {
          v.iter()
            .map(|ds| {
              let (writer, sn, src_ts, info) = info_of(ds.sample_info());
              let x = ds.value();
              Obs { writer, sn, src_ts, val: ObsVal::Value { key: 0, id: x.id, blob: x.blob.clone() }, info: Some(info) }
            })
            .collect()
        })
        .map_err(es),
      (Dr::NoKey(dr), ReadOp::IterRead { .. }) => dr
        .iterator()
        .map(|i| i.map(|x| obs_bare(ObsVal::Value { key: 0, id: x.id, blob: x.blob.clone() })).collect())
        .map_err(es),
      (Dr::NoKey(dr), ReadOp::IterTake { .. }) => dr
        .into_iterator()
        .map(|i| i.map(|x| obs_bare(ObsVal::Value { key: 0, id: x.id, blob: x.blob })).collect())
        .map_err(es),

      (Dr::Simple(sdr), ReadOp::SimpleTakeOne) => {
        sdr.drain_read_notifications();
        sdr.try_take_one().map(|o| o.iter().map(obs_dcc_keyed).collect()).map_err(es)
      }
      (Dr::Simple(sdr), ReadOp::StreamPoll) => {
        let waker = Waker::from(self.waker_flag.clone());
        let mut cx = Context::from_waker(&waker);
        let mut stream = std::pin::pin!(sdr.as_async_stream());
        match stream.as_mut().poll_next(&mut cx) {
          Poll::Pending => Ok(vec![]),
          Poll::Ready(None) => Err("stream ended".to_string()),
          Poll::Ready(Some(Ok(d))) => Ok(vec![obs_dcc_keyed(&d)]),
          Poll::Ready(Some(Err(e))) => Err(format!("{e:?}")),
        }
      }
      (Dr::SimpleNoKey(sdr), ReadOp::SimpleTakeOne) => {
        sdr.drain_read_notifications();
        sdr
          .try_take_one()
          .map(|o| {
            o.iter()
              .map(|d| Obs {
                writer: Some(d.writer_guid.to_bytes()),
                sn: Some(sn_i64(d.sequence_number)),
                src_ts: d.write_options.source_timestamp().map(|t| t.to_ticks()),
                val: ObsVal::Value { key: 0, id: d.sample.id, blob: d.sample.blob.clone() },
                info: None,
              })
              .collect()
          })
          .map_err(es)
      }
      (Dr::SimpleNoKey(sdr), ReadOp::StreamPoll) => {
        let waker = Waker::from(self.waker_flag.clone());
        let mut cx = Context::from_waker(&waker);
        let mut stream = std::pin::pin!(sdr.as_async_stream());
        match stream.as_mut().poll_next(&mut cx) {
          Poll::Pending => Ok(vec![]),
          Poll::Ready(None) => Err("stream ended".to_string()),
          Poll::Ready(Some(Ok(d))) => Ok(vec![Obs {
            writer: Some(d.writer_guid.to_bytes()),
            sn: Some(sn_i64(d.sequence_number)),
            src_ts: d.write_options.source_timestamp().map(|t| t.to_ticks()),
            val: ObsVal::Value { key: 0, id: d.sample.id, blob: d.sample.blob.clone() },
            info: None,
          }]),
          Poll::Ready(Some(Err(e))) => Err(format!("{e:?}")),
        }
      }
      (_, op) => Err(format!("UNSUPPORTED op {op:?} for flavor {:?}", self.flavor)),
    }
  }

}

impl ReaderBench {
  /// Which ops this flavour supports (so generators do not emit others).
  pub fn supports(flavor: Flavor, op: &ReadOp) -> bool {
    match flavor {
      Flavor::Keyed => !matches!(op, ReadOp::SimpleTakeOne | ReadOp::StreamPoll),
      Flavor::NoKey => matches!(
        op,
        ReadOp::Take { .. }
          | ReadOp::Read { .. }
          | ReadOp::TakeNext
          | ReadOp::ReadNext
          | ReadOp::IterRead { .. }
          | ReadOp::IterTake { .. }
      ),
      Flavor::Simple | Flavor::SimpleNoKey => {
        matches!(op, ReadOp::SimpleTakeOne | ReadOp::StreamPoll)
      }
    }
  }
}
