// E-SEC driver for C18 (access control): the plain-data API of hook H5
// (/verif/incrate/hooks_access.rs, a child module of access_control_builtin, because the
// documents, the certificate type and check_entity are private to the security modules).
//  * verify_signed_document(p7s bytes, CA pem) -> Ok(verified content) / Err(reason)
//  * parse_docs(governance xml, permissions xml) -> ParsedDocs
//      .find_grant_at(subject, unix seconds)       (find_grant with an injected clock)
//      .decider(subject, domain) -> Decider        (hand-built AccessControlBuiltin state)
//         .check_entity(domain, topic, partitions, kind)   (the private decision function)
//         .public_check(which, domain, topic)              (check_create_* / check_remote_*)
//  * entry_validate_local(..) -> Entry, Entry::validate_remote(..), Entry::public_check(..)
//      (validate_local_permissions / validate_remote_permissions fed with signed bytes)
pub use crate::security::access_control::access_control_builtin::verif_hook::{
  entry_validate_local, parse_docs, verify_signed_document, Decider, Entry, GrantView, ParsedDocs,
};
