// Child module of rtps::writer (hook H4): may call the parent's private items.
// Plain accessors and step-firing wrappers only; no behaviour of its own.
use super::*;

#[derive(Clone, Debug)]
pub struct ProxyView {
  pub guid: [u8; 16],
  pub reliable: bool,
  pub all_acked_before: i64,
  pub repair_mode: bool,
  pub frags_requested: bool,
  pub unsent: Vec<i64>,
  pub pending_gap: Vec<i64>,
}

impl Writer {
  pub(crate) fn vh_fire_repair_data(&mut self, reader: GUID) {
    self.handle_repair_data_send(reader);
  }
  pub(crate) fn vh_fire_repair_frags(&mut self, reader: GUID) {
    self.handle_repair_frags_send(reader);
  }
  pub(crate) fn vh_fire_cache_cleaning(&mut self) {
    self.handle_cache_cleaning();
  }
  pub(crate) fn vh_history_sns(&self) -> Vec<i64> {
    self
      .history_buffer
      .sequence_number_to_instant
      .keys()
      .map(|sn| i64::from(*sn))
      .collect()
  }
  pub(crate) fn vh_first_last(&self) -> (i64, i64) {
    (
      i64::from(self.history_buffer.first_change_sequence_number()),
      i64::from(self.history_buffer.last_change_sequence_number()),
    )
  }
  pub(crate) fn vh_proxies(&self) -> Vec<ProxyView> {
    self
      .readers
      .values()
      .map(|rp| ProxyView {
        guid: rp.remote_reader_guid.to_bytes(),
        reliable: rp.qos().is_reliable(),
        all_acked_before: i64::from(rp.all_acked_before),
        repair_mode: rp.repair_mode,
        frags_requested: rp.repair_frags_requested(),
        unsent: rp.unsent_changes_iter().map(i64::from).collect(),
        pending_gap: rp.get_pending_gap().iter().map(|s| i64::from(*s)).collect(),
      })
      .collect()
  }
  pub(crate) fn vh_has_ack_waiter(&self) -> bool {
    self.ack_waiter.is_some()
  }
}
