// Child module of security::access_control::access_control_builtin (hook H5, feature
// "security" + "rustdds_verif"): may use the parent's private items (AccessControlBuiltin
// fields, check_entity, the private document modules) and crate::security::certificate.
// Plain-data drivers only; no oracle logic, no behaviour of its own.
#[allow(unused_imports)]
use super::*;
use super::{
  domain_governance_document::DomainGovernanceDocument,
  domain_participant_permissions_document::DomainParticipantPermissions as PermDoc,
  s_mime_config_parser::SignedDocument,
  types::{
    QOS_GOVERNANCE_DOCUMENT_PROPERTY_NAME, QOS_PERMISSIONS_CERTIFICATE_PROPERTY_NAME,
    QOS_PERMISSIONS_DOCUMENT_PROPERTY_NAME,
  },
};
use crate::{
  dds::qos::{policy, QosPolicies, QosPolicyBuilder},
  discovery::sedp_messages::{
    DiscoveredReaderData, DiscoveredWriterData, PublicationBuiltinTopicData, ReaderProxy,
    SubscriptionBuiltinTopicData, TopicBuiltinTopicData, WriterProxy,
  },
  security::{
    access_control::{
      LocalEntityAccessControl, ParticipantAccessControl, RemoteEntityAccessControl,
    },
    authentication::{
      authentication_builtin::{
        types::{BuiltinAuthenticatedPeerCredentialToken, QOS_IDENTITY_CERTIFICATE_PROPERTY_NAME},
        AuthenticationBuiltin,
      },
      AuthenticatedPeerCredentialToken,
    },
    types::Property,
    PublicationBuiltinTopicDataSecure, SubscriptionBuiltinTopicDataSecure,
  },
  structure::guid::{EntityId, EntityKind, GuidPrefix, GUID},
};

fn guard<T>(f: impl FnOnce() -> Result<T, String>) -> Result<T, String> {
  match std::panic::catch_unwind(std::panic::AssertUnwindSafe(f)) {
    Ok(r) => r,
    Err(p) => {
      let m = p
        .downcast_ref::<String>()
        .cloned()
        .or_else(|| p.downcast_ref::<&str>().map(|s| s.to_string()))
        .unwrap_or_default();
      Err(format!("PANIC: {m}"))
    }
  }
}

/// The signature step exactly as validate_local_permissions / validate_remote_permissions
/// perform it: Certificate::from_pem, SignedDocument::from_bytes, verify_signature.
/// Ok = the verified content bytes that the caller then hands to the XML parser.
pub fn verify_signed_document(document: &[u8], permissions_ca_pem: &[u8]) -> Result<Vec<u8>, String> {
  guard(|| {
    let cert = Certificate::from_pem(permissions_ca_pem).map_err(|e| format!("ca-certificate: {e:?}"))?;
    SignedDocument::from_bytes(document)
      .map_err(SecurityError::from)
      .and_then(|sd| sd.verify_signature(&cert).map(|c| c.as_ref().to_vec()))
      .map_err(|e| format!("{e:?}"))
  })
}

/// Both documents parsed by the real XML parsers (input: the text verify_signature would return,
/// or bare XML).
pub struct ParsedDocs {
  governance: DomainGovernanceDocument,
  permissions: PermDoc,
}

pub fn parse_docs(governance_xml: &str, permissions_xml: &str) -> Result<ParsedDocs, String> {
  guard(|| {
    let governance =
      DomainGovernanceDocument::from_xml(governance_xml).map_err(|e| format!("governance: {e:?}"))?;
    let permissions = PermDoc::from_xml(permissions_xml).map_err(|e| format!("permissions: {e:?}"))?;
    Ok(ParsedDocs {
      governance,
      permissions,
    })
  })
}

/// (not_before, not_after) as unix seconds, default is ALLOW, number of rules
#[derive(Clone, Debug, PartialEq, Eq)]
pub struct GrantView {
  pub not_before: i64,
  pub not_after: i64,
  pub default_allow: bool,
  pub rules: usize,
}

impl ParsedDocs {
  /// DomainParticipantPermissions::find_grant with an injected clock
  pub fn find_grant_at(&self, subject_name: &str, unix_seconds: i64) -> Result<Option<GrantView>, String> {
    guard(|| {
      let subject = DistinguishedName::parse(subject_name).map_err(|e| format!("subject: {e:?}"))?;
      let t = chrono::DateTime::<Utc>::from_timestamp(unix_seconds, 0).ok_or("timestamp out of range")?;
      Ok(self.permissions.find_grant(&subject, &t).map(|g| GrantView {
        not_before: g.validity.start.timestamp(),
        not_after: g.validity.end.timestamp(),
        default_allow: g.default_action.into(),
        rules: g.rules.len(),
      }))
    })
  }

  /// The state validate_local_permissions leaves behind for a participant with this subject
  /// name in this domain (same inserts, minus the signed bytes and the CA certificate).
  pub fn decider(&self, subject_name: &str, participant_domain_id: u16) -> Result<Decider, String> {
    guard(|| {
      let subject = DistinguishedName::parse(subject_name).map_err(|e| format!("subject: {e:?}"))?;
      let domain_rule = self
        .governance
        .find_rule(participant_domain_id)
        .ok_or("no domain rule for the domain id")?
        .clone();
      let mut ac = AccessControlBuiltin::new();
      let handle = ac.generate_permissions_handle();
      ac.domain_rules.insert(handle, domain_rule);
      ac.domain_participant_permissions
        .insert(handle, (subject, self.permissions.clone()));
      Ok(Decider { ac, handle })
    })
  }
}

pub struct Decider {
  ac: AccessControlBuiltin,
  handle: PermissionsHandle,
}

fn test_guid(kind: EntityKind) -> GUID {
  GUID::new(GuidPrefix::new(&[0xC1, 0x80, 0, 0, 0, 0, 0, 0, 0, 0, 0, 1]), EntityId::new([0, 0, 9], kind))
}

/// which: 0 check_create_datawriter, 1 check_create_datareader, 2 check_create_topic,
/// 3 check_remote_datawriter, 4 check_remote_datareader (second bool = relay_only), 5 check_remote_topic
fn public_check(
  ac: &AccessControlBuiltin,
  handle: PermissionsHandle,
  which: u8,
  domain_id: u16,
  topic_name: &str,
) -> Result<(bool, bool), String> {
  guard(|| {
    let qos = QosPolicyBuilder::new().build();
    let tn = topic_name.to_string();
    let r = match which {
      0 => ac.check_create_datawriter(handle, domain_id, tn, &qos).map(|b| (b, false)),
      1 => ac.check_create_datareader(handle, domain_id, tn, &qos).map(|b| (b, false)),
      2 => ac.check_create_topic(handle, domain_id, tn, &qos).map(|b| (b, false)),
      3 => {
        let g = test_guid(EntityKind::WRITER_WITH_KEY_USER_DEFINED);
        let d = DiscoveredWriterData {
          last_updated: std::time::Instant::now(),
          writer_proxy: WriterProxy::new(g, vec![], vec![]),
          publication_topic_data: PublicationBuiltinTopicData::new(g, None, tn, "T".to_string(), None),
        };
        ac.check_remote_datawriter(handle, domain_id, &PublicationBuiltinTopicDataSecure::from(d))
          .map(|b| (b, false))
      }
      4 => {
        let g = test_guid(EntityKind::READER_WITH_KEY_USER_DEFINED);
        let d = DiscoveredReaderData {
          reader_proxy: ReaderProxy::new(g, false, vec![], vec![]),
          subscription_topic_data: SubscriptionBuiltinTopicData::new(g, None, tn, "T".to_string(), &qos, None),
          content_filter: None,
        };
        ac.check_remote_datareader(handle, domain_id, &SubscriptionBuiltinTopicDataSecure::from(d))
      }
      5 => ac
        .check_remote_topic(handle, domain_id, &TopicBuiltinTopicData::new(None, tn, "T".to_string(), &qos))
        .map(|b| (b, false)),
      _ => return Err("unknown check".to_string()),
    };
    r.map_err(|e| format!("{e:?}"))
  })
}

impl Decider {
  /// private AccessControlBuiltin::check_entity (the decision function behind every
  /// check_create_* / check_remote_*), with an explicit partition list.
  /// kind: 0 data writer, 1 data reader, 2 topic
  pub fn check_entity(&self, domain_id: u16, topic_name: &str, partitions: &[String], kind: u8) -> Result<bool, String> {
    guard(|| {
      let parts: Vec<&str> = partitions.iter().map(|s| s.as_str()).collect();
      let entity = match kind {
        0 => Entity::Datawriter,
        1 => Entity::Datareader,
        _ => Entity::Topic,
      };
      self
        .ac
        .check_entity(self.handle, domain_id, topic_name, &parts, &[], &entity)
        .map_err(|e| format!("{e:?}"))
    })
  }

  pub fn public_check(&self, which: u8, domain_id: u16, topic_name: &str) -> Result<(bool, bool), String> {
    public_check(&self.ac, self.handle, which, domain_id, topic_name)
  }

  /// Plain accessor for C17 (sec_mr.rs): hands the hand-built plugin state and its permissions
  /// handle on, so that a SecurityPlugins object can be put around it.
  pub fn into_parts(self) -> (AccessControlBuiltin, PermissionsHandle) {
    (self.ac, self.handle)
  }
}

// ---- the real entry points, fed with signed documents --------------------------------------

static URI_SEQ: std::sync::atomic::AtomicU64 = std::sync::atomic::AtomicU64::new(0);

// data: URI when the bytes are text, else a scratch file (read_uri takes a &str)
fn uri_for(bytes: &[u8], scratch: &mut Vec<std::path::PathBuf>) -> String {
  match std::str::from_utf8(bytes) {
    Ok(s) => format!("data:{s}"),
    Err(_) => {
      let n = URI_SEQ.fetch_add(1, std::sync::atomic::Ordering::Relaxed);
      let p = std::env::temp_dir().join(format!("vcheck-c18-{}-{}", std::process::id(), n));
      let _ = std::fs::write(&p, bytes);
      scratch.push(p.clone());
      format!("file:{}", p.display())
    }
  }
}

pub struct Entry {
  ac: AccessControlBuiltin,
  auth: AuthenticationBuiltin,
  identity: u32,
  local: PermissionsHandle,
}

/// ParticipantAccessControl::validate_local_permissions with the four documents given as bytes.
pub fn entry_validate_local(
  permissions_ca_pem: &[u8],
  governance_p7s: &[u8],
  permissions_p7s: &[u8],
  identity_certificate_pem: &[u8],
  domain_id: u16,
) -> Result<Entry, String> {
  guard(|| {
    let mut scratch = vec![];
    let prop = |name: &str, value: String| Property {
      name: name.to_string(),
      value,
      propagate: false,
    };
    let props = vec![
      prop(QOS_PERMISSIONS_CERTIFICATE_PROPERTY_NAME, uri_for(permissions_ca_pem, &mut scratch)),
      prop(QOS_GOVERNANCE_DOCUMENT_PROPERTY_NAME, uri_for(governance_p7s, &mut scratch)),
      prop(QOS_PERMISSIONS_DOCUMENT_PROPERTY_NAME, uri_for(permissions_p7s, &mut scratch)),
      prop(QOS_IDENTITY_CERTIFICATE_PROPERTY_NAME, uri_for(identity_certificate_pem, &mut scratch)),
    ];
    let qos: QosPolicies = QosPolicyBuilder::new()
      .property(policy::Property {
        value: props,
        binary_value: vec![],
      })
      .build();
    let mut ac = AccessControlBuiltin::new();
    let auth = AuthenticationBuiltin::new();
    let identity = 1;
    let r = ac.validate_local_permissions(&auth, identity, domain_id, &qos);
    for p in scratch {
      let _ = std::fs::remove_file(p);
    }
    r.map(|local| Entry {
      ac,
      auth,
      identity,
      local,
    })
    .map_err(|e| format!("{e:?}"))
  })
}

impl Entry {
  /// ParticipantAccessControl::validate_remote_permissions with the credential token a remote
  /// participant would present (its identity certificate and its signed permissions document).
  pub fn validate_remote(&mut self, remote_identity_certificate_pem: &[u8], remote_permissions_p7s: &[u8]) -> Result<u32, String> {
    let Entry {
      ac,
      auth,
      identity,
      local,
    } = self;
    guard(|| {
      let permissions_token = ac.get_permissions_token(*local).map_err(|e| format!("{e:?}"))?;
      let credential: AuthenticatedPeerCredentialToken = BuiltinAuthenticatedPeerCredentialToken {
        c_id: Bytes::copy_from_slice(remote_identity_certificate_pem),
        c_perm: Bytes::copy_from_slice(remote_permissions_p7s),
      }
      .into();
      ac.validate_remote_permissions(&*auth, *identity, 2, &permissions_token, &credential)
        .map_err(|e| format!("{e:?}"))
    })
  }

  /// handle: None = the local participant's permissions handle
  pub fn public_check(&self, handle: Option<u32>, which: u8, domain_id: u16, topic_name: &str) -> Result<(bool, bool), String> {
    public_check(&self.ac, handle.unwrap_or(self.local), which, domain_id, topic_name)
  }
}
