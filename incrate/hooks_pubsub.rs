// Child module of dds::pubsub (hook H4). Builds a Publisher / Subscriber whose
// channels to the DP event loop are dead ends, so that benches creating and
// dropping thousands of DataWriters/DataReaders do not involve (or wait for)
// the real event-loop thread. Nothing is ever sent on these channels by the
// code paths the benches use except the remove-on-drop notification, which the
// library already treats as harmless when the other end is gone.
use super::*;

pub fn detached_publisher(dp: &DomainParticipant) -> Publisher {
  let (add_tx, add_rx) = mio_channel::sync_channel::<WriterIngredients>(1);
  let (rem_tx, rem_rx) = mio_channel::sync_channel::<GUID>(1);
  let (disc_tx, disc_rx) = mio_channel::sync_channel::<DiscoveryCommand>(1);
  drop((add_rx, rem_rx, disc_rx));
  let q = QosPolicies::qos_none();
  Publisher::new(dp.weak_clone(), dp.discovery_db(), q.clone(), q, add_tx, rem_tx, disc_tx, None)
}

pub fn detached_subscriber(dp: &DomainParticipant) -> Subscriber {
  let (add_tx, add_rx) = mio_channel::sync_channel::<ReaderIngredients>(1);
  let (rem_tx, rem_rx) = mio_channel::sync_channel::<GUID>(1);
  let (disc_tx, disc_rx) = mio_channel::sync_channel::<DiscoveryCommand>(1);
  drop((add_rx, rem_rx, disc_rx));
  Subscriber::new(dp.weak_clone(), dp.discovery_db(), QosPolicies::qos_none(), add_tx, rem_tx, disc_tx, None)
}
