// Real-thread stress of the status channel's async side (C13): one thread sends, the other polls the
// StatusReceiverStream under executor discipline; both are released from a spin barrier so that the send and the
// poll overlap. Interleavings inside the channel's own lock scope are reachable only this way (the baton scheduler
// cannot yield inside a lock). Raw observations only; the verdict is the harness's.
use std::{
  pin::Pin,
  sync::{
    atomic::{AtomicU64, Ordering::SeqCst},
    Arc,
  },
  task::{Context, Poll},
};

use futures::Stream;

use super::wbench::{FlagWaker, GenWaker};
use crate::dds::statusevents::{sync_status_channel, StatusEvented};

#[derive(Clone, Debug, Default)]
pub struct StressOut {
  pub rounds: u64,
  /// the first poll already found the message
  pub ready_at_first_poll: u64,
  /// the poll returned Pending and the wake came through the latest waker
  pub pending_then_woken: u64,
  /// the poll returned Pending and the sender was still before its send when the poller looked again
  pub pending_seen_before_send_returned: u64,
  /// of the Pending rounds: a second poll (new waker) was made before the send returned
  pub repolled_with_new_waker: u64,
  /// try_send has returned, the receiver is Pending, and its latest waker was not invoked: (round, stale wakes)
  pub lost: Vec<(u64, u64)>,
  /// woken, but the following poll did not deliver the round's message: (round, what)
  pub wrong: Vec<(u64, String)>,
}

pub fn status_channel_stress(rounds: u64, seed: u64) -> StressOut {
  let (tx, rx) = sync_status_channel::<u64>(4).expect("status channel");
  let go = Arc::new(AtomicU64::new(0));
  let sent = Arc::new(AtomicU64::new(0));
  let stop = Arc::new(AtomicU64::new(0));
  let (go_s, sent_s, stop_s) = (go.clone(), sent.clone(), stop.clone());
  let sender = std::thread::spawn(move || {
    let mut x = seed | 1;
    for r in 1..=rounds {
      while go_s.load(SeqCst) < r {
        if stop_s.load(SeqCst) != 0 {
          return;
        }
        std::hint::spin_loop();
      }
      x ^= x << 13;
      x ^= x >> 7;
      x ^= x << 17;
      for _ in 0..(x % 24) {
        std::hint::spin_loop();
      }
      let _ = tx.try_send(r);
      sent_s.store(r, SeqCst);
    }
  });

  let mut out = StressOut::default();
  let hits = Arc::new(FlagWaker(Default::default()));
  let latest = Arc::new(AtomicU64::new(0));
  let stale = Arc::new(AtomicU64::new(0));
  let mut stream = rx.as_async_status_stream();
  let mut y = seed.rotate_left(17) | 1;
  for r in 1..=rounds {
    out.rounds += 1;
    y ^= y << 13;
    y ^= y >> 7;
    y ^= y << 17;
    let delay = y % 24;
    let repoll = (y >> 8) % 3 == 0;
    let stale0 = stale.load(SeqCst);
    go.store(r, SeqCst);
    for _ in 0..delay {
      std::hint::spin_loop();
    }
    let mut poll_once = |before: &mut u64| -> Poll<Option<u64>> {
      *before = hits.0.load(SeqCst);
      let gen = latest.fetch_add(1, SeqCst) + 1;
      let waker = std::task::Waker::from(Arc::new(GenWaker { gen, latest: latest.clone(), hits: hits.clone(), stale: stale.clone() }));
      let mut cx = Context::from_waker(&waker);
      Pin::new(&mut stream).poll_next(&mut cx)
    };
    let mut before = 0u64;
    let mut got = poll_once(&mut before);
    if let Poll::Ready(_) = got {
      out.ready_at_first_poll += 1;
    } else {
      if repoll && sent.load(SeqCst) < r {
        out.repolled_with_new_waker += 1;
        got = poll_once(&mut before);
      }
      if got.is_pending() {
        if sent.load(SeqCst) < r {
          out.pending_seen_before_send_returned += 1;
        }
        // the wake is synchronous inside try_send: once try_send has returned, it has happened or never will
        while sent.load(SeqCst) < r {
          std::hint::spin_loop();
        }
        if hits.0.load(SeqCst) > before {
          out.pending_then_woken += 1;
          got = poll_once(&mut before);
        } else {
          out.lost.push((r, stale.load(SeqCst) - stale0));
          // drain so that the next round starts clean
          got = poll_once(&mut before);
        }
      }
    }
    match got {
      Poll::Ready(Some(v)) if v == r => {}
      other => {
        out.wrong.push((r, format!("{other:?}")));
        if out.wrong.len() > 8 {
          break;
        }
      }
    }
    if out.lost.len() > 8 {
      break;
    }
  }
  stop.store(1, SeqCst);
  go.store(rounds + 1, SeqCst);
  let _ = sender.join();
  out
}
