// Hook H3: tap at UDPSender::send_to_locator.
//
// * per-thread capture sink: deterministic benches collect what the code under
//   test wanted to send (and nothing reaches the network);
// * process-wide policy for everything else: pass, drop-all, or a seeded
//   loss/duplication policy for full-stack runs.
use std::{
  cell::RefCell,
  net::SocketAddr,
  sync::atomic::{AtomicU32, AtomicU64, Ordering},
};

use crate::structure::locator::Locator;

#[derive(Clone, Debug)]
pub struct Sent {
  pub dst: Option<SocketAddr>,
  pub bytes: Vec<u8>,
}

thread_local! {
  static CAPTURE: RefCell<Option<Vec<Sent>>> = const { RefCell::new(None) };
}

// 0 = pass through, 1 = drop everything, 2 = lossy (LOSS_PPM), 3 = partitioned ports
static POLICY: AtomicU32 = AtomicU32::new(0);
static LOSS_PPM: AtomicU32 = AtomicU32::new(0);
static RNG: AtomicU64 = AtomicU64::new(0x9E3779B97F4A7C15);
static SENT_TOTAL: AtomicU64 = AtomicU64::new(0);
static DROPPED_TOTAL: AtomicU64 = AtomicU64::new(0);
// ports (as u16 in low bits) that are cut off while policy == 3; up to 8 ports
static CUT_PORT_LO: AtomicU32 = AtomicU32::new(0);
static CUT_PORT_HI: AtomicU32 = AtomicU32::new(0);

pub fn set_policy_pass() {
  POLICY.store(0, Ordering::SeqCst);
}
pub fn set_policy_drop_all() {
  POLICY.store(1, Ordering::SeqCst);
}
pub fn set_policy_lossy(seed: u64, loss_ppm: u32) {
  RNG.store(seed | 1, Ordering::SeqCst);
  LOSS_PPM.store(loss_ppm, Ordering::SeqCst);
  POLICY.store(2, Ordering::SeqCst);
}
/// Drop every datagram whose destination port lies in [lo, hi].
pub fn set_policy_cut_ports(lo: u16, hi: u16) {
  CUT_PORT_LO.store(lo as u32, Ordering::SeqCst);
  CUT_PORT_HI.store(hi as u32, Ordering::SeqCst);
  POLICY.store(3, Ordering::SeqCst);
}
pub fn counters() -> (u64, u64) {
  (
    SENT_TOTAL.load(Ordering::SeqCst),
    DROPPED_TOTAL.load(Ordering::SeqCst),
  )
}

pub fn capture_begin() {
  CAPTURE.with(|c| *c.borrow_mut() = Some(Vec::new()));
}
pub fn capture_take() -> Vec<Sent> {
  CAPTURE.with(|c| c.borrow_mut().as_mut().map(std::mem::take).unwrap_or_default())
}
pub fn capture_end() -> Vec<Sent> {
  CAPTURE.with(|c| c.borrow_mut().take().unwrap_or_default())
}

fn next_rand() -> u64 {
  // splitmix64 on a shared atomic; exact sequence does not matter for threads
  let x = RNG.fetch_add(0x9E3779B97F4A7C15, Ordering::Relaxed);
  let mut z = x;
  z = (z ^ (z >> 30)).wrapping_mul(0xBF58476D1CE4E5B9);
  z = (z ^ (z >> 27)).wrapping_mul(0x94D049BB133111EB);
  z ^ (z >> 31)
}

fn locator_addr(l: &Locator) -> Option<SocketAddr> {
  match l {
    Locator::UdpV4(a) => Some(SocketAddr::from(*a)),
    Locator::UdpV6(a) => Some(SocketAddr::from(*a)),
    _ => None,
  }
}

/// Returns true if the datagram was consumed (must not be sent for real).
pub fn intercept(buffer: &[u8], locator: &Locator) -> bool {
  let captured = CAPTURE.with(|c| {
    if let Some(v) = c.borrow_mut().as_mut() {
      v.push(Sent {
        dst: locator_addr(locator),
        bytes: buffer.to_vec(),
      });
      true
    } else {
      false
    }
  });
  if captured {
    return true;
  }
  SENT_TOTAL.fetch_add(1, Ordering::Relaxed);
  let drop = match POLICY.load(Ordering::Relaxed) {
    0 => false,
    1 => true,
    2 => (next_rand() % 1_000_000) < LOSS_PPM.load(Ordering::Relaxed) as u64,
    3 => match locator_addr(locator) {
      Some(a) => {
        let p = a.port() as u32;
        p >= CUT_PORT_LO.load(Ordering::Relaxed) && p <= CUT_PORT_HI.load(Ordering::Relaxed)
      }
      None => false,
    },
    _ => false,
  };
  if drop {
    DROPPED_TOTAL.fetch_add(1, Ordering::Relaxed);
  }
  drop
}

// Receive-side tap (MessageReceiver::handle_received_packet): a partition between participants cannot be
// expressed at the sender because SPDP is multicast (one datagram, all receivers, the sender itself included).
// An isolated participant drops what it receives from any OTHER participant and keeps hearing itself.
// mode 0 = off, 1 = every participant is isolated, 2 = only the listed ones (one-sided outage)
static RX_MODE: AtomicU32 = AtomicU32::new(0);
static RX_DROPPED: AtomicU64 = AtomicU64::new(0);
static RX_LISTED: std::sync::Mutex<Vec<[u8; 12]>> = std::sync::Mutex::new(Vec::new());
pub fn set_rx_isolation(on: bool) {
  RX_MODE.store(u32::from(on), Ordering::SeqCst);
}
pub fn set_rx_isolation_of(prefixes: &[[u8; 12]]) {
  *RX_LISTED.lock().unwrap() = prefixes.to_vec();
  RX_MODE.store(2, Ordering::SeqCst);
}
pub fn rx_dropped() -> u64 {
  RX_DROPPED.load(Ordering::SeqCst)
}
pub fn rx_blocked(own_prefix: &[u8], datagram: &[u8]) -> bool {
  let mode = RX_MODE.load(Ordering::Relaxed);
  if mode == 0 || datagram.len() < 20 || own_prefix.len() != 12 {
    return false;
  }
  if mode == 2 && !RX_LISTED.lock().unwrap().iter().any(|p| p[..] == *own_prefix) {
    return false;
  }
  let foreign = datagram[8..20] != *own_prefix;
  if foreign {
    RX_DROPPED.fetch_add(1, Ordering::Relaxed);
  }
  foreign
}
