// E-CODEC in-crate generator (C14): builds RTPS messages through the
// implementation's own constructors (MessageBuilder, create_submessage, direct
// structs) with boundary values, serialises them, parses them back and reports
// plain data to the harness: the bytes (for the independent framing walker), a
// per-submessage numeric summary (for field-level comparison with the walker),
// and the result of the structural round-trip comparison.
use std::collections::BTreeSet;

use bytes::Bytes;
use enumflags2::BitFlags;
use speedy::{Endianness, Readable, Writable};

use crate::{
  dds::{ddsdata::DDSData, with_key::datawriter::WriteOptionsBuilder},
  messages::{
    header::Header,
    protocol_id::ProtocolId,
    protocol_version::ProtocolVersion,
    submessages::{
      elements::{parameter::Parameter, parameter_list::ParameterList, serialized_payload::SerializedPayload},
      submessage::{InterpreterSubmessage, ReaderSubmessage, WriterSubmessage},
      submessage_flag::*,
      submessage_header::SubmessageHeader,
      submessage_kind::SubmessageKind,
      submessages::*,
      info_source::InfoSource,
    },
    vendor_id::VendorId,
  },
  rtps::{Message, MessageBuilder, Submessage, SubmessageBody},
  structure::{
    cache_change::{CacheChange, ChangeKind},
    guid::{EntityId, EntityKind, GuidPrefix, GUID},
    locator::Locator,
    parameter_id::ParameterId,
    sequence_number::{FragmentNumber, FragmentNumberSet, SequenceNumber, SequenceNumberSet},
    time::Timestamp,
  },
  RepresentationIdentifier,
};

pub struct R(pub u64);
impl R {
  pub fn next(&mut self) -> u64 {
    self.0 = self.0.wrapping_add(0x9E3779B97F4A7C15);
    let mut z = self.0;
    z = (z ^ (z >> 30)).wrapping_mul(0xBF58476D1CE4E5B9);
    z = (z ^ (z >> 27)).wrapping_mul(0x94D049BB133111EB);
    z ^ (z >> 31)
  }
  pub fn below(&mut self, n: u64) -> u64 {
    if n == 0 { 0 } else { self.next() % n }
  }
  pub fn pick<T: Copy>(&mut self, v: &[T]) -> T {
    v[self.below(v.len() as u64) as usize]
  }
  pub fn chance(&mut self, a: u64, b: u64) -> bool {
    self.below(b) < a
  }
  pub fn bytes(&mut self, n: usize) -> Vec<u8> {
    (0..n).map(|_| self.next() as u8).collect()
  }
}

#[derive(Clone, Debug)]
pub struct SubSummary {
  pub id: u8,
  pub flags: u8,
  pub nums: Vec<i64>,
  /// (pid, value) of inline QoS as built
  pub params: Vec<(u16, Vec<u8>)>,
  /// payload as built (unpadded)
  pub payload: Vec<u8>,
}

#[derive(Clone, Debug)]
pub struct CodecCase {
  pub bytes: Vec<u8>,
  pub subs: Vec<SubSummary>,
  pub header_prefix: [u8; 12],
  pub write_error: Option<String>,
  pub parse_error: Option<String>,
  pub roundtrip_equal: bool,
  pub diff: String,
  /// write(read(bytes)) == bytes
  pub canonical: Option<bool>,
  pub debug: String,
}

fn eid_num(e: EntityId) -> i64 {
  u32::from_be_bytes(e.to_slice()) as i64
}
fn sn_interesting(r: &mut R) -> i64 {
  match r.below(10) {
    0 => 1,
    1 => 0x7FFF_FFFF_FFFF_FFF0,
    2 => (1i64 << 32) - 1,
    3 => 1i64 << 32,
    4 => (1i64 << 31) + r.below(3) as i64 - 1,
    _ => 1 + r.below(100_000) as i64,
  }
}
fn eid(r: &mut R) -> EntityId {
  match r.below(6) {
    0 => EntityId::UNKNOWN,
    1 => EntityId::SPDP_BUILTIN_PARTICIPANT_WRITER,
    2 => EntityId::SEDP_BUILTIN_PUBLICATIONS_READER,
    _ => EntityId::new([r.next() as u8, r.next() as u8, r.next() as u8], r.pick(&[EntityKind::WRITER_WITH_KEY_USER_DEFINED, EntityKind::READER_NO_KEY_USER_DEFINED, EntityKind::WRITER_NO_KEY_USER_DEFINED, EntityKind::READER_WITH_KEY_USER_DEFINED])),
  }
}
fn endian(r: &mut R) -> Endianness {
  if r.chance(1, 3) { Endianness::BigEndian } else { Endianness::LittleEndian }
}

fn sn_set(r: &mut R) -> (SequenceNumberSet, i64, Vec<i64>) {
  let base = sn_interesting(r).min(0x7FFF_FFFF_FFFF_F000);
  let mut set = BTreeSet::new();
  let style = r.below(6);
  let n = match style { 0 => 0, 1 => 1, 2 => 256, _ => r.below(20) };
  for i in 0..n {
    let off = match style {
      2 => i as i64,
      3 => r.pick(&[0i64, 31, 32, 33, 63, 64, 255]),
      _ => r.below(256) as i64,
    };
    set.insert(SequenceNumber::new(base + off));
  }
  let s = SequenceNumberSet::from_base_and_set(SequenceNumber::new(base), &set);
  let members: Vec<i64> = set.iter().map(|x| i64::from(*x)).collect();
  (s, base, members)
}
fn fn_set(r: &mut R) -> (FragmentNumberSet, i64, Vec<i64>) {
  let base = 1 + r.below(1000) as u32;
  let mut set = BTreeSet::new();
  let n = r.pick(&[0u64, 1, 5, 256]);
  for i in 0..n {
    let off = if n == 256 { i as u32 } else { r.below(256) as u32 };
    set.insert(FragmentNumber::new(base + off));
  }
  let s = FragmentNumberSet::from_base_and_set(FragmentNumber::new(base), &set);
  (s, base as i64, set.iter().map(|x| u32::from(*x) as i64).collect())
}

fn plist(r: &mut R) -> ParameterList {
  let mut pl = ParameterList::new();
  let n = r.below(4);
  for _ in 0..n {
    match r.below(4) {
      0 => pl.push(Parameter { parameter_id: ParameterId::PID_KEY_HASH, value: r.bytes(16) }),
      1 => pl.push(Parameter::create_pid_status_info_parameter(r.chance(1, 2), r.chance(1, 2), false)),
      _ => {
        // arbitrary (also vendor-specific) parameter with a length of any residue mod 4
        let len = r.below(23) as usize;
        let mut v = r.bytes(len);
        // a trailing zero byte could not be told from padding: make the last byte non-zero
        if let Some(l) = v.last_mut() {
          *l |= 1;
        }
        let pid = ParameterId::read_from_buffer(&(r.pick(&[0x0015u16, 0x002c, 0x8001, 0x8fff, 0x3f00])).to_le_bytes()).unwrap();
        pl.push(Parameter { parameter_id: pid, value: v });
      }
    }
  }
  pl
}

fn payload(r: &mut R, maxlen: u64) -> Vec<u8> {
  let len = match r.below(6) {
    0 => 0,
    1 => 1,
    2 => 2,
    3 => 3,
    _ => r.below(maxlen),
  } as usize;
  let mut v = r.bytes(len);
  if let Some(l) = v.last_mut() {
    *l |= 1; // distinguishable from padding
  }
  v
}

fn summarize(sm: &Submessage) -> SubSummary {
  let mut s = SubSummary { id: u8::from(sm.header.kind), flags: sm.header.flags, nums: vec![], params: vec![], payload: vec![] };
  let pl = |p: &Option<ParameterList>| -> Vec<(u16, Vec<u8>)> {
    p.as_ref().map_or(vec![], |l| {
      l.parameters
        .iter()
        .map(|x| (u16::from_le_bytes(x.parameter_id.write_to_vec_with_ctx(Endianness::LittleEndian).unwrap().try_into().unwrap()), x.value.clone()))
        .collect()
    })
  };
  match &sm.body {
    SubmessageBody::Writer(WriterSubmessage::Data(d, _)) => {
      s.nums = vec![eid_num(d.reader_id), eid_num(d.writer_id), i64::from(d.writer_sn)];
      s.params = pl(&d.inline_qos);
      s.payload = d.serialized_payload.as_ref().map_or(vec![], |b| b.to_vec());
    }
    SubmessageBody::Writer(WriterSubmessage::DataFrag(d, _)) => {
      s.nums = vec![eid_num(d.reader_id), eid_num(d.writer_id), i64::from(d.writer_sn), u32::from(d.fragment_starting_num) as i64, d.fragments_in_submessage as i64, d.fragment_size as i64, d.data_size as i64];
      s.params = pl(&d.inline_qos);
      s.payload = d.serialized_payload.to_vec();
    }
    SubmessageBody::Writer(WriterSubmessage::Heartbeat(h, _)) => {
      s.nums = vec![eid_num(h.reader_id), eid_num(h.writer_id), i64::from(h.first_sn), i64::from(h.last_sn), h.count as i64];
    }
    SubmessageBody::Writer(WriterSubmessage::HeartbeatFrag(h, _)) => {
      s.nums = vec![eid_num(h.reader_id), eid_num(h.writer_id), i64::from(h.writer_sn), u32::from(h.last_fragment_num) as i64, h.count as i64];
    }
    SubmessageBody::Writer(WriterSubmessage::Gap(g, _)) => {
      s.nums = vec![eid_num(g.reader_id), eid_num(g.writer_id), i64::from(g.gap_start), i64::from(g.gap_list.base())];
      s.nums.extend(g.gap_list.iter().map(i64::from));
    }
    SubmessageBody::Reader(ReaderSubmessage::AckNack(a, _)) => {
      s.nums = vec![eid_num(a.reader_id), eid_num(a.writer_id), i64::from(a.reader_sn_state.base()), a.count as i64];
      s.nums.extend(a.reader_sn_state.iter().map(i64::from));
    }
    SubmessageBody::Reader(ReaderSubmessage::NackFrag(n, _)) => {
      s.nums = vec![eid_num(n.reader_id), eid_num(n.writer_id), i64::from(n.writer_sn), u32::from(n.fragment_number_state.base()) as i64, n.count as i64];
      s.nums.extend(n.fragment_number_state.iter().map(|f| u32::from(f) as i64));
    }
    SubmessageBody::Interpreter(InterpreterSubmessage::InfoTimestamp(t, _)) => {
      s.nums = vec![t.timestamp.map_or(-1, |x| x.to_ticks() as i64)];
    }
    SubmessageBody::Interpreter(InterpreterSubmessage::InfoDestination(d, _)) => {
      s.payload = d.guid_prefix.as_ref().to_vec();
    }
    SubmessageBody::Interpreter(InterpreterSubmessage::InfoSource(d, _)) => {
      s.payload = d.guid_prefix.as_ref().to_vec();
    }
    SubmessageBody::Interpreter(InterpreterSubmessage::InfoReply(ir, _)) => {
      // [n unicast, (kind, port)*, n multicast or -1, (kind, port)*]; addresses in payload
      let mut put = |l: &Locator, nums: &mut Vec<i64>, pl: &mut Vec<u8>| match l {
        Locator::UdpV4(a) => {
          nums.push(1);
          nums.push(a.port() as i64);
          pl.extend_from_slice(&[0u8; 12]);
          pl.extend_from_slice(&a.ip().octets());
        }
        Locator::UdpV6(a) => {
          nums.push(2);
          nums.push(a.port() as i64);
          pl.extend_from_slice(&a.ip().octets());
        }
        _ => {
          nums.push(-99);
        }
      };
      let mut nums = vec![ir.unicast_locator_list.len() as i64];
      let mut pl = vec![];
      for l in &ir.unicast_locator_list {
        put(l, &mut nums, &mut pl);
      }
      match &ir.multicast_locator_list {
        None => nums.push(-1),
        Some(m) => {
          nums.push(m.len() as i64);
          for l in m {
            put(l, &mut nums, &mut pl);
          }
        }
      }
      s.nums = nums;
      s.payload = pl;
    }
    _ => {}
  }
  s
}

fn unpad_eq(a: &[u8], b: &[u8]) -> bool {
  // equal up to <= 3 trailing zero bytes on either side
  let (short, long) = if a.len() <= b.len() { (a, b) } else { (b, a) };
  long.len() - short.len() <= 3 && long[..short.len()] == *short && long[short.len()..].iter().all(|x| *x == 0)
}
fn plist_eq(a: &Option<ParameterList>, b: &Option<ParameterList>) -> bool {
  match (a, b) {
    (None, None) => true,
    (Some(x), Some(y)) => x.parameters.len() == y.parameters.len() && x.parameters.iter().zip(y.parameters.iter()).all(|(p, q)| p.parameter_id == q.parameter_id && unpad_eq(&p.value, &q.value)),
    // an empty list and an absent list are distinguishable only through the Q flag, which is compared separately
    _ => false,
  }
}

fn sub_equal(a: &Submessage, b: &Submessage) -> Result<(), String> {
  if a.header != b.header {
    return Err(format!("header {:?} vs {:?}", a.header, b.header));
  }
  match (&a.body, &b.body) {
    (SubmessageBody::Writer(WriterSubmessage::Data(x, fx)), SubmessageBody::Writer(WriterSubmessage::Data(y, fy))) => {
      if fx != fy || x.reader_id != y.reader_id || x.writer_id != y.writer_id || x.writer_sn != y.writer_sn {
        return Err("DATA fixed fields differ".into());
      }
      if !plist_eq(&x.inline_qos, &y.inline_qos) {
        return Err(format!("DATA inline qos differs: {:?} vs {:?}", x.inline_qos, y.inline_qos));
      }
      match (&x.serialized_payload, &y.serialized_payload) {
        (None, None) => Ok(()),
        (Some(p), Some(q)) if unpad_eq(p, q) => Ok(()),
        (p, q) => Err(format!("DATA payload differs: {:?} vs {:?}", p.as_ref().map(|b| b.len()), q.as_ref().map(|b| b.len()))),
      }
    }
    (SubmessageBody::Writer(WriterSubmessage::DataFrag(x, fx)), SubmessageBody::Writer(WriterSubmessage::DataFrag(y, fy))) => {
      if fx != fy
        || x.reader_id != y.reader_id
        || x.writer_id != y.writer_id
        || x.writer_sn != y.writer_sn
        || x.fragment_starting_num != y.fragment_starting_num
        || x.fragments_in_submessage != y.fragments_in_submessage
        || x.data_size != y.data_size
        || x.fragment_size != y.fragment_size
      {
        return Err("DATAFRAG fixed fields differ".into());
      }
      if !plist_eq(&x.inline_qos, &y.inline_qos) {
        return Err("DATAFRAG inline qos differs".into());
      }
      if unpad_eq(&x.serialized_payload, &y.serialized_payload) {
        Ok(())
      } else {
        Err(format!("DATAFRAG payload differs: {} vs {}", x.serialized_payload.len(), y.serialized_payload.len()))
      }
    }
    (x, y) => {
      if x == y {
        Ok(())
      } else {
        Err(format!("body differs: {x:?} vs {y:?}"))
      }
    }
  }
}

fn gen_submessage(r: &mut R, out: &mut Vec<Submessage>) {
  let e = endian(r);
  match r.below(13) {
    12 => {
      // INFO_REPLY has no builder (the implementation only receives it): built from the struct, flags by hand
      let loc = |r: &mut R| -> Locator {
        let port = 1 + (r.next() % 65535) as u16;
        if r.chance(2, 3) {
          Locator::UdpV4(std::net::SocketAddrV4::new(std::net::Ipv4Addr::new(10, r.next() as u8, r.next() as u8, 1 + (r.next() % 250) as u8), port))
        } else {
          let b = r.bytes(16);
          let mut a = [0u8; 16];
          a.copy_from_slice(&b);
          a[0] = 0xfd;
          Locator::UdpV6(std::net::SocketAddrV6::new(std::net::Ipv6Addr::from(a), port, 0, 0))
        }
      };
      let nu = r.below(4);
      let unicast: Vec<Locator> = (0..nu).map(|_| loc(r)).collect();
      let multicast: Option<Vec<Locator>> = if r.chance(1, 2) { let nm = r.below(3); Some((0..nm).map(|_| loc(r)).collect()) } else { None };
      let mut f = BitFlags::<INFOREPLY_Flags>::from_endianness(e);
      if multicast.is_some() {
        f |= INFOREPLY_Flags::Multicast;
      }
      let ir = InfoReply { unicast_locator_list: unicast, multicast_locator_list: multicast };
      // the length the implementation's own serializer gives the body (whoever builds a Submessage by hand does this)
      let body_len = ir.write_to_vec_with_ctx(e).map_or(0, |b| b.len());
      out.push(Submessage {
        header: SubmessageHeader { kind: SubmessageKind::INFO_REPLY, flags: f.bits(), content_length: body_len as u16 },
        body: SubmessageBody::Interpreter(InterpreterSubmessage::InfoReply(ir, f)),
        original_bytes: None,
      });
    }
    0 | 1 => {
      // DATA through the builder the Writer uses
      let wguid = GUID::new(GuidPrefix::new(&r.bytes(12)), eid(r));
      let pl = payload(r, 300);
      let kind = r.below(4);
      let dd = match kind {
        0 => DDSData::new_disposed_by_key(ChangeKind::NotAliveDisposed, SerializedPayload::new_from_bytes(RepresentationIdentifier::CDR_LE, Bytes::from(pl))),
        1 => DDSData::new_disposed_by_key_hash(ChangeKind::NotAliveDisposed, crate::dds::key::KeyHash::zero()),
        _ => DDSData::new(SerializedPayload::new_from_bytes(r.pick(&[RepresentationIdentifier::CDR_LE, RepresentationIdentifier::CDR_BE, RepresentationIdentifier::PL_CDR_LE]), Bytes::from(pl))),
      };
      let mut wo = WriteOptionsBuilder::new();
      if r.chance(1, 2) {
        wo = wo.source_timestamp(Timestamp::from_ticks(r.next()));
      }
      if r.chance(1, 5) {
        wo = wo.related_sample_identity(crate::structure::rpc::SampleIdentity { writer_guid: wguid, sequence_number: SequenceNumber::new(sn_interesting(r)) });
      }
      let cc = CacheChange::new(wguid, SequenceNumber::new(sn_interesting(r)), wo.build(), dd);
      let b = MessageBuilder::new().data_msg(&cc, eid(r), wguid, e, None);
      out.extend(b.add_header_and_build(wguid.prefix).submessages);
    }
    2 => {
      // DATA_FRAG through the builder
      let wguid = GUID::new(GuidPrefix::new(&r.bytes(12)), eid(r));
      let frag_size = r.pick(&[1u16, 3, 4, 7, 8, 64, 1024]);
      let total = frag_size as usize + 1 + r.below(5 * frag_size as u64) as usize;
      let mut body = r.bytes(total.saturating_sub(4));
      if let Some(l) = body.last_mut() {
        *l |= 1;
      }
      let dd = DDSData::new(SerializedPayload::new_from_bytes(RepresentationIdentifier::CDR_LE, Bytes::from(body)));
      let size = dd.payload_size();
      let nfrags = (size + frag_size as usize - 1) / frag_size as usize;
      let f = 1 + r.below(nfrags as u64) as u32;
      // a fragmented sample written with a related sample identity carries inline QoS in every DATAFRAG
      let mut wo = WriteOptionsBuilder::new();
      if r.chance(1, 3) {
        wo = wo.related_sample_identity(crate::structure::rpc::SampleIdentity { writer_guid: wguid, sequence_number: SequenceNumber::new(sn_interesting(r)) });
      }
      let cc = CacheChange::new(wguid, SequenceNumber::new(sn_interesting(r)), wo.build(), dd);
      let b = MessageBuilder::new().data_frag_msg(&cc, eid(r), wguid, FragmentNumber::new(if r.chance(1, 3) { nfrags as u32 } else { f }), frag_size, size as u32, e, None);
      out.extend(b.add_header_and_build(wguid.prefix).submessages);
    }
    3 => {
      // DATA built directly with arbitrary inline QoS / payload lengths
      let inline = if r.chance(1, 2) { Some(plist(r)) } else { None };
      let pay = if r.chance(3, 4) { Some(Bytes::from({ let mut v = vec![0u8, r.below(4) as u8, 0, 0]; v.extend(payload(r, 200)); v })) } else { None };
      let d = Data { reader_id: eid(r), writer_id: eid(r), writer_sn: SequenceNumber::new(sn_interesting(r)), inline_qos: inline.clone(), serialized_payload: pay.clone() };
      let mut flags = BitFlags::<DATA_Flags>::from_endianness(e);
      if inline.is_some() {
        flags |= DATA_Flags::InlineQos;
      }
      if pay.is_some() {
        flags |= if r.chance(1, 4) { DATA_Flags::Key } else { DATA_Flags::Data };
      }
      out.push(Submessage {
        header: SubmessageHeader { kind: SubmessageKind::DATA, flags: flags.bits(), content_length: d.len_serialized() as u16 },
        body: SubmessageBody::Writer(WriterSubmessage::Data(d, flags)),
        original_bytes: None,
      });
    }
    4 => {
      let first = sn_interesting(r).min(0x7FFF_FFFF_0000_0000);
      let h = Heartbeat { reader_id: eid(r), writer_id: eid(r), first_sn: SequenceNumber::new(first), last_sn: SequenceNumber::new(first - 1 + r.below(1000) as i64), count: r.next() as i32 };
      let mut f = BitFlags::<HEARTBEAT_Flags>::from_endianness(e);
      if r.chance(1, 2) {
        f |= HEARTBEAT_Flags::Final;
      }
      if r.chance(1, 4) {
        f |= HEARTBEAT_Flags::Liveliness;
      }
      if let Some(s) = h.create_submessage(f) {
        out.push(s);
      }
    }
    5 => {
      let (set, base, _) = sn_set(r);
      let start = (base - r.below(50) as i64).max(1);
      let g = Gap { reader_id: eid(r), writer_id: eid(r), gap_start: SequenceNumber::new(start), gap_list: set };
      if let Some(s) = g.create_submessage(BitFlags::<GAP_Flags>::from_endianness(e)) {
        out.push(s);
      }
    }
    6 => {
      // GAP through the builder the Writer uses
      let mut irr = BTreeSet::new();
      let base = sn_interesting(r).min(0x7FFF_FFFF_0000_0000);
      for _ in 0..(1 + r.below(12)) {
        irr.insert(SequenceNumber::new(base + r.below(300) as i64));
      }
      let wguid = GUID::new(GuidPrefix::new(&r.bytes(12)), eid(r));
      let rguid = GUID::new(GuidPrefix::new(&r.bytes(12)), eid(r));
      let b = MessageBuilder::new().gap_msg(&irr, wguid.entity_id, e, rguid);
      out.extend(b.add_header_and_build(wguid.prefix).submessages);
    }
    7 => {
      let (set, _, _) = sn_set(r);
      let a = AckNack { reader_id: eid(r), writer_id: eid(r), reader_sn_state: set, count: r.next() as i32 };
      let mut f = BitFlags::<ACKNACK_Flags>::from_endianness(e);
      if r.chance(1, 2) {
        f |= ACKNACK_Flags::Final;
      }
      out.push(a.create_submessage(f));
    }
    8 => {
      let (set, _, _) = fn_set(r);
      let n = NackFrag { reader_id: eid(r), writer_id: eid(r), writer_sn: SequenceNumber::new(sn_interesting(r)), fragment_number_state: set, count: r.next() as i32 };
      out.push(n.create_submessage(BitFlags::<NACKFRAG_Flags>::from_endianness(e)));
    }
    9 => {
      let b = MessageBuilder::new().ts_msg(e, if r.chance(1, 4) { None } else { Some(Timestamp::from_ticks(r.next())) });
      out.extend(b.add_header_and_build(GuidPrefix::UNKNOWN).submessages);
    }
    10 => {
      if r.chance(1, 2) {
        let b = MessageBuilder::new().dst_submessage(e, GuidPrefix::new(&r.bytes(12)));
        out.extend(b.add_header_and_build(GuidPrefix::UNKNOWN).submessages);
      } else {
        let s = InfoSource { unused: 0, protocol_version: ProtocolVersion::THIS_IMPLEMENTATION, vendor_id: VendorId::THIS_IMPLEMENTATION, guid_prefix: GuidPrefix::new(&r.bytes(12)) };
        let f = BitFlags::<INFOSOURCE_Flags>::from_endianness(e);
        out.push(Submessage {
          header: SubmessageHeader { kind: SubmessageKind::INFO_SRC, flags: f.bits(), content_length: 20 },
          body: SubmessageBody::Interpreter(InterpreterSubmessage::InfoSource(s, f)),
          original_bytes: None,
        });
      }
    }
    _ => {
      let wguid = GUID::new(GuidPrefix::new(&r.bytes(12)), eid(r));
      let first = 1 + r.below(1000) as i64;
      let b = MessageBuilder::new().heartbeat_msg(wguid.entity_id, SequenceNumber::new(first), SequenceNumber::new(first - 1 + r.below(100) as i64), r.next() as i32, e, eid(r), r.chance(1, 2), r.chance(1, 4));
      out.extend(b.add_header_and_build(wguid.prefix).submessages);
    }
  }
}

pub fn message_case(seed: u64) -> CodecCase {
  let mut r = R(seed);
  let prefix = GuidPrefix::new(&r.bytes(12));
  let mut subs: Vec<Submessage> = vec![];
  let n = 1 + r.below(5);
  for _ in 0..n {
    gen_submessage(&mut r, &mut subs);
  }
  // a DATAFRAG whose length is not a multiple of 4 may only come last (see DESIGN C14):
  // move such submessages to the end, as the Writer always sends them.
  let is_odd_frag = |s: &Submessage| matches!(&s.body, SubmessageBody::Writer(WriterSubmessage::DataFrag(..))) && s.header.content_length % 4 != 0;
  let (mut normal, odd): (Vec<_>, Vec<_>) = subs.into_iter().partition(|s| !is_odd_frag(s));
  normal.extend(odd.into_iter().take(1));
  let subs = normal;
  let mut msg = Message::new(Header { protocol_id: ProtocolId::default(), protocol_version: ProtocolVersion::THIS_IMPLEMENTATION, vendor_id: VendorId::THIS_IMPLEMENTATION, guid_prefix: prefix });
  for s in &subs {
    msg.add_submessage(s.clone());
  }
  let mut hp = [0u8; 12];
  hp.copy_from_slice(prefix.as_ref());
  let mut case = CodecCase {
    bytes: vec![],
    subs: subs.iter().map(summarize).collect(),
    header_prefix: hp,
    write_error: None,
    parse_error: None,
    roundtrip_equal: false,
    diff: String::new(),
    canonical: None,
    debug: String::new(),
  };
  let bytes = match msg.write_to_vec_with_ctx(endian(&mut r)) {
    Ok(b) => b,
    Err(e) => {
      case.write_error = Some(format!("{e:?}"));
      return case;
    }
  };
  case.bytes = bytes.clone();
  match Message::read_from_buffer(&Bytes::from(bytes.clone())) {
    Err(e) => {
      case.parse_error = Some(format!("{e:?}"));
    }
    Ok(back) => {
      let mut ok = back.header == msg.header && back.submessages.len() == msg.submessages.len();
      let mut diff = String::new();
      if !ok {
        diff = format!("header/submessage count: {} vs {}", back.submessages.len(), msg.submessages.len());
      } else {
        for (a, b) in msg.submessages.iter().zip(back.submessages.iter()) {
          if let Err(d) = sub_equal(a, b) {
            ok = false;
            diff = d;
            break;
          }
        }
      }
      case.roundtrip_equal = ok;
      case.diff = diff;
      // canonical: re-serialising the parsed message reproduces the bytes
      let again = back.write_to_vec_with_ctx(Endianness::LittleEndian);
      case.canonical = again.ok().map(|b2| b2 == bytes);
    }
  }
  if !case.roundtrip_equal || case.canonical == Some(false) {
    case.debug = format!("{:?}", msg.submessages.iter().map(|s| (&s.header, &s.body)).collect::<Vec<_>>());
    case.debug.truncate(1500);
  }
  case
}

// ---------------------------------------------------------------------------
// number sets
// ---------------------------------------------------------------------------
#[derive(Clone, Debug)]
pub struct SetCase {
  pub base: i64,
  pub requested: Vec<i64>,
  pub reported: Vec<i64>,
  pub reported_rev: Vec<i64>,
  pub after_roundtrip: Option<Vec<i64>>,
  pub bytes_le: Vec<u8>,
  pub bytes_be: Vec<u8>,
  pub is_empty_says: bool,
}

pub fn sn_set_case(seed: u64) -> SetCase {
  let mut r = R(seed);
  let base = match r.below(5) {
    0 => 1,
    1 => (1i64 << 32) - 3,
    _ => 1 + r.below(1 << 40) as i64,
  };
  let mut set = BTreeSet::new();
  let n = r.pick(&[0u64, 1, 2, 10, 100, 256, 300]);
  for i in 0..n {
    let off = match r.below(5) {
      0 => r.pick(&[0i64, 1, 31, 32, 254, 255, 256, 257, 400]),
      1 => i as i64,
      _ => r.below(300) as i64,
    };
    set.insert(SequenceNumber::new(base + off));
  }
  let s = SequenceNumberSet::from_base_and_set(SequenceNumber::new(base), &set);
  let reported: Vec<i64> = s.iter().map(i64::from).collect();
  let reported_rev: Vec<i64> = s.iter().rev().map(i64::from).collect();
  let le = s.write_to_vec_with_ctx(Endianness::LittleEndian).unwrap_or_default();
  let be = s.write_to_vec_with_ctx(Endianness::BigEndian).unwrap_or_default();
  let back_le = SequenceNumberSet::read_from_buffer_with_ctx(Endianness::LittleEndian, &le).ok();
  let back_be = SequenceNumberSet::read_from_buffer_with_ctx(Endianness::BigEndian, &be).ok();
  let after = match (back_le, back_be) {
    (Some(a), Some(b)) if a == b => Some(a.iter().map(i64::from).collect()),
    (Some(a), Some(_)) => Some(a.iter().map(|x| -i64::from(x)).collect()), // mark disagreement
    _ => None,
  };
  SetCase { base: i64::from(s.base()), requested: set.iter().map(|x| i64::from(*x)).collect(), reported, reported_rev, after_roundtrip: after, bytes_le: le, bytes_be: be, is_empty_says: s.is_empty() }
}

pub fn fn_set_case(seed: u64) -> SetCase {
  let mut r = R(seed);
  let base = r.pick(&[1u32, 2, 1000, u32::MAX - 300]);
  let mut set = BTreeSet::new();
  let n = r.pick(&[0u64, 1, 2, 10, 256, 300]);
  for i in 0..n {
    let off = match r.below(4) {
      0 => r.pick(&[0u32, 31, 32, 255, 256, 290]),
      1 => i as u32,
      _ => r.below(299) as u32,
    };
    set.insert(FragmentNumber::new(base.saturating_add(off)));
  }
  let s = FragmentNumberSet::from_base_and_set(FragmentNumber::new(base), &set);
  let reported: Vec<i64> = s.iter().map(|f| u32::from(f) as i64).collect();
  let reported_rev: Vec<i64> = s.iter().rev().map(|f| u32::from(f) as i64).collect();
  let le = s.write_to_vec_with_ctx(Endianness::LittleEndian).unwrap_or_default();
  let be = s.write_to_vec_with_ctx(Endianness::BigEndian).unwrap_or_default();
  let back_le = FragmentNumberSet::read_from_buffer_with_ctx(Endianness::LittleEndian, &le).ok();
  let after = back_le.map(|a| a.iter().map(|f| u32::from(f) as i64).collect());
  SetCase { base: u32::from(s.base()) as i64, requested: set.iter().map(|x| u32::from(*x) as i64).collect(), reported, reported_rev, after_roundtrip: after, bytes_le: le, bytes_be: be, is_empty_says: s.is_empty() }
}

/// A number set as another implementation may send it (the bits of the last bitmap word beyond numBits are
/// undefined): parse the little-endian bytes, report (forward iteration, backward iteration, is_empty).
pub fn sn_set_from_bytes(bytes_le: &[u8]) -> Option<(Vec<i64>, Vec<i64>, bool)> {
  let s = SequenceNumberSet::read_from_buffer_with_ctx(Endianness::LittleEndian, bytes_le).ok()?;
  Some((s.iter().map(i64::from).collect(), s.iter().rev().map(i64::from).collect(), s.is_empty()))
}
pub fn fn_set_from_bytes(bytes_le: &[u8]) -> Option<(Vec<i64>, Vec<i64>, bool)> {
  let s = FragmentNumberSet::read_from_buffer_with_ctx(Endianness::LittleEndian, bytes_le).ok()?;
  Some((s.iter().map(|f| u32::from(f) as i64).collect(), s.iter().rev().map(|f| u32::from(f) as i64).collect(), s.is_empty()))
}
