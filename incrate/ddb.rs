// E-DISC (C12, DiscoveryDB leg): a real DiscoveryDB driven synchronously with real
// monotonic time; every call is bracketed by Instant::now() so the harness can judge
// only the cases the measured intervals decide.
use std::time::Instant;

use chrono::Utc;
use mio_extras::channel as mio_channel;

use crate::{
  dds::statusevents::{sync_status_channel, DomainParticipantStatusEvent, StatusChannelReceiver},
  discovery::{
    builtin_endpoint::BuiltinEndpointSet,
    discovery_db::DiscoveryDB,
    sedp_messages::{DiscoveredReaderData, DiscoveredWriterData, PublicationBuiltinTopicData, ReaderProxy, SubscriptionBuiltinTopicData, WriterProxy},
    spdp_participant_data::SpdpDiscoveredParticipantData,
  },
  messages::{protocol_version::ProtocolVersion, vendor_id::VendorId},
  structure::guid::{EntityId, EntityKind, GuidPrefix, GUID},
  Duration, QosPolicies, LostReason,
};

pub struct DbBench {
  db: DiscoveryDB,
  t0: Instant,
  _topic_rx: mio_channel::Receiver<()>,
  _status_rx: StatusChannelReceiver<DomainParticipantStatusEvent>,
}

#[derive(Clone, Debug)]
pub struct Lost {
  pub participant: u8,
  pub timeout: bool,
  pub lease_s: f64,
  pub elapsed_s: f64,
}

fn prefix(p: u8) -> GuidPrefix {
  let mut b = [0u8; 12];
  b[0] = 0xDB;
  b[1] = p;
  b[11] = p;
  GuidPrefix::new(&b)
}

impl DbBench {
  pub fn new() -> DbBench {
    let (ttx, trx) = mio_channel::sync_channel::<()>(64);
    let (stx, srx) = sync_status_channel(64).unwrap();
    let mut me = [0u8; 12];
    me[0] = 0x4D;
    let db = DiscoveryDB::new(GUID::new(GuidPrefix::new(&me), EntityId::PARTICIPANT), ttx, stx);
    DbBench { db, t0: Instant::now(), _topic_rx: trx, _status_rx: srx }
  }
  fn now(&self) -> f64 {
    self.t0.elapsed().as_secs_f64()
  }

  /// lease: None = absent, Some(inf) = infinite, else seconds. Returns (was_new, t_before, t_after).
  pub fn update_participant(&mut self, p: u8, lease: Option<f64>) -> (bool, f64, f64) {
    let d = SpdpDiscoveredParticipantData {
      updated_time: Utc::now(),
      protocol_version: ProtocolVersion::THIS_IMPLEMENTATION,
      vendor_id: VendorId::THIS_IMPLEMENTATION,
      expects_inline_qos: false,
      participant_guid: GUID::new(prefix(p), EntityId::PARTICIPANT),
      metatraffic_unicast_locators: vec![],
      metatraffic_multicast_locators: vec![],
      default_unicast_locators: vec![],
      default_multicast_locators: vec![],
      available_builtin_endpoints: BuiltinEndpointSet::from_u32(0),
      lease_duration: lease.map(|s| if s.is_infinite() { Duration::INFINITE } else { Duration::from_frac_seconds(s) }),
      manual_liveliness_count: 0,
      builtin_endpoint_qos: None,
      entity_name: None,
      #[cfg(feature = "security")]
      identity_token: None,
      #[cfg(feature = "security")]
      permissions_token: None,
      #[cfg(feature = "security")]
      property: None,
      #[cfg(feature = "security")]
      security_info: None,
    };
    let a = self.now();
    let was_new = self.db.update_participant(&d);
    let b = self.now();
    (was_new, a, b)
  }

  pub fn alive(&mut self, p: u8) -> (f64, f64) {
    let a = self.now();
    self.db.participant_is_alive(prefix(p));
    let b = self.now();
    (a, b)
  }

  pub fn cleanup(&mut self) -> (Vec<Lost>, f64, f64) {
    let a = self.now();
    let lost = self.db.participant_cleanup();
    let b = self.now();
    (
      lost
        .into_iter()
        .map(|(g, r)| {
          let (timeout, lease_s, elapsed_s) = match r {
            LostReason::Disposed => (false, 0.0, 0.0),
            LostReason::Timeout { lease, elapsed } => (true, lease.to_nanoseconds() as f64 * 1e-9, elapsed.to_nanoseconds() as f64 * 1e-9),
          };
          Lost { participant: g.as_ref()[1], timeout, lease_s, elapsed_s }
        })
        .collect(),
      a,
      b,
    )
  }

  pub fn dispose(&mut self, p: u8) {
    self.db.remove_participant(prefix(p), true);
  }

  pub fn known(&self, p: u8) -> bool {
    self.db.find_participant_proxy(prefix(p)).is_some()
  }

  pub fn add_reader(&mut self, p: u8, e: u8, topic: &str) {
    let g = GUID::new(prefix(p), EntityId::new([0, 1, e], EntityKind::READER_WITH_KEY_USER_DEFINED));
    let d = DiscoveredReaderData {
      reader_proxy: ReaderProxy::new(g, false, vec![], vec![]),
      subscription_topic_data: SubscriptionBuiltinTopicData::new(g, None, topic.to_string(), "T".to_string(), &QosPolicies::qos_none(), None),
      content_filter: None,
    };
    self.db.update_subscription(&d);
  }
  pub fn add_writer(&mut self, p: u8, e: u8, topic: &str) {
    let g = GUID::new(prefix(p), EntityId::new([0, 2, e], EntityKind::WRITER_WITH_KEY_USER_DEFINED));
    let d = DiscoveredWriterData {
      last_updated: Instant::now(),
      writer_proxy: WriterProxy::new(g, vec![], vec![]),
      publication_topic_data: PublicationBuiltinTopicData::new(g, None, topic.to_string(), "T".to_string(), None),
    };
    self.db.update_publication(&d);
  }
  /// (entity keys of readers, entity keys of writers) of participant p on the topic
  pub fn endpoints(&self, p: u8, topic: &str) -> (Vec<u8>, Vec<u8>) {
    let r = self.db.readers_on_topic_and_participant(topic, prefix(p)).iter().map(|d| d.reader_proxy.remote_reader_guid.entity_id.to_slice()[2]).collect();
    let w = self.db.writers_on_topic_and_participant(topic, prefix(p)).iter().map(|d| d.writer_proxy.remote_writer_guid.entity_id.to_slice()[2]).collect();
    (r, w)
  }
}
