// E-SEC in-crate driver for C19: one `AuthenticationBuiltin` per `Party`, driven
// step by step the way `discovery::secure_discovery` drives it
// (validate_remote_identity -> begin_handshake_request / begin_handshake_reply ->
// process_handshake -> get_shared_secret). Every token crosses this API as plain
// data (`Tok`) in both directions, so the harness can alter, replay, reorder,
// drop or forge anything. No oracle logic here.
use bytes::Bytes;

use crate::{
  dds::qos::{policy, QosPolicyBuilder},
  discovery::{builtin_endpoint::BuiltinEndpointSet, spdp_participant_data::SpdpDiscoveredParticipantData},
  messages::{protocol_version::ProtocolVersion, vendor_id::VendorId},
  security::{
    access_control::{PermissionsCredentialToken, PermissionsToken},
    authentication::{
      AuthRequestMessageToken, Authentication, HandshakeMessageToken, IdentityToken, ValidationOutcome,
    },
    types::{BinaryProperty, DataHolder, Property},
    AuthenticationBuiltin,
  },
  serialization::{
    pl_cdr_adapters::{PlCdrDeserialize, PlCdrSerialize},
    to_vec,
  },
  structure::{
    duration::Duration,
    guid::{GuidPrefix, GUID},
  },
  RepresentationIdentifier,
};

/// A DataHolder (IdentityToken, AuthRequestMessageToken, HandshakeMessageToken) as plain data.
#[derive(Clone, Debug, PartialEq, Eq)]
pub struct Tok {
  pub class_id: String,
  pub props: Vec<(String, String)>,
  pub bprops: Vec<(String, Vec<u8>)>,
}

fn to_tok(dh: &DataHolder) -> Tok {
  Tok {
    class_id: dh.class_id.clone(),
    props: dh.properties.iter().map(|p| (p.name.clone(), p.value.clone())).collect(),
    bprops: dh.binary_properties.iter().map(|p| (p.name.clone(), p.value.to_vec())).collect(),
  }
}

fn from_tok(t: &Tok) -> DataHolder {
  DataHolder {
    class_id: t.class_id.clone(),
    properties: t
      .props
      .iter()
      .map(|(n, v)| Property { name: n.clone(), value: v.clone(), propagate: true })
      .collect(),
    binary_properties: t
      .bprops
      .iter()
      .map(|(n, v)| BinaryProperty { name: n.clone(), value: Bytes::from(v.clone()), propagate: true })
      .collect(),
  }
}

fn outcome_name(o: &ValidationOutcome) -> &'static str {
  match o {
    ValidationOutcome::Ok => "Ok",
    ValidationOutcome::PendingHandshakeRequest => "PendingHandshakeRequest",
    ValidationOutcome::PendingHandshakeMessage => "PendingHandshakeMessage",
    ValidationOutcome::OkFinalMessage => "OkFinalMessage",
  }
}

fn guid_from(b: [u8; 16]) -> GUID {
  GUID::from_bytes(b)
}

/// ParticipantBuiltinTopicData (the `c.pdata` of a handshake message) for an arbitrary GUID,
/// serialised the way SecureDiscovery::get_serialized_local_participant_data does.
pub fn pdata_for_guid(guid: [u8; 16]) -> Vec<u8> {
  let d = SpdpDiscoveredParticipantData {
    updated_time: chrono::Utc::now(),
    protocol_version: ProtocolVersion::PROTOCOLVERSION_2_3,
    vendor_id: VendorId::THIS_IMPLEMENTATION,
    expects_inline_qos: false,
    participant_guid: guid_from(guid),
    metatraffic_unicast_locators: vec![],
    metatraffic_multicast_locators: vec![],
    default_unicast_locators: vec![],
    default_multicast_locators: vec![],
    available_builtin_endpoints: BuiltinEndpointSet::from_u32(
      BuiltinEndpointSet::PARTICIPANT_ANNOUNCER | BuiltinEndpointSet::PARTICIPANT_DETECTOR,
    ),
    lease_duration: Some(Duration::from_secs(30)),
    manual_liveliness_count: 0,
    builtin_endpoint_qos: None,
    entity_name: None,
    identity_token: None,
    permissions_token: None,
    property: None,
    security_info: None,
  };
  d.to_pl_cdr_bytes(RepresentationIdentifier::PL_CDR_BE).map(|b| b.to_vec()).unwrap_or_default()
}

/// GUID found in a serialised `c.pdata` (None = does not parse). Observation helper.
pub fn guid_in_pdata(pdata: &[u8]) -> Option<[u8; 16]> {
  SpdpDiscoveredParticipantData::from_pl_cdr_bytes(pdata, RepresentationIdentifier::CDR_BE)
    .ok()
    .map(|d| {
      let mut g = [0u8; 16];
      g.copy_from_slice(&d.participant_guid.to_bytes());
      g
    })
}

pub struct Party {
  auth: AuthenticationBuiltin,
  local: u32,
  guid: [u8; 16],
}

impl Party {
  /// validate_local_identity with certificate, private key and Identity CA given as PEM bytes
  /// (passed through the plugin's `data:` URI scheme, nothing touches the file system).
  pub fn new(cert_pem: &[u8], key_pem: &[u8], ca_pem: &[u8], candidate_guid: [u8; 16]) -> Result<Party, String> {
    let p = |name: &str, pem: &[u8]| Property {
      name: name.to_string(),
      value: format!("data:{}", String::from_utf8_lossy(pem)),
      propagate: false,
    };
    let qos = QosPolicyBuilder::new()
      .property(policy::Property {
        value: vec![
          p("dds.sec.auth.identity_ca", ca_pem),
          p("dds.sec.auth.identity_certificate", cert_pem),
          p("dds.sec.auth.private_key", key_pem),
        ],
        binary_value: vec![],
      })
      .build();
    let mut auth = AuthenticationBuiltin::new();
    let (outcome, local, adjusted) = auth
      .validate_local_identity(0, &qos, guid_from(candidate_guid))
      .map_err(|e| e.msg)?;
    if outcome != ValidationOutcome::Ok {
      return Err(format!("validate_local_identity outcome {}", outcome_name(&outcome)));
    }
    let mut guid = [0u8; 16];
    guid.copy_from_slice(&adjusted.to_bytes());
    Ok(Party { auth, local, guid })
  }

  /// Give the plugin a (signed) permissions document; it becomes `c.perm` of the handshake
  /// messages this party produces (what SecureDiscovery does right after validate_local_identity).
  pub fn set_permissions_document(&mut self, doc: &[u8]) -> Result<(), String> {
    let cred = DataHolder {
      class_id: "DDS:Access:PermissionsCredential".to_string(),
      properties: vec![],
      binary_properties: vec![BinaryProperty {
        name: "dds.perm.cert".to_string(),
        value: Bytes::copy_from_slice(doc),
        propagate: true,
      }],
    };
    let tok = DataHolder { class_id: "DDS:Access:Permissions:1.0".to_string(), properties: vec![], binary_properties: vec![] };
    self
      .auth
      .set_permissions_credential_and_token(self.local, PermissionsCredentialToken::from(cred), PermissionsToken::from(tok))
      .map_err(|e| e.msg)
  }

  /// adjusted participant GUID (first 6 bytes derived from the certificate subject name)
  pub fn guid(&self) -> [u8; 16] {
    self.guid
  }

  pub fn identity_token(&self) -> Result<Tok, String> {
    self.auth.get_identity_token(self.local).map(|t| to_tok(&t.data_holder)).map_err(|e| e.msg)
  }

  /// own `c.pdata`
  pub fn pdata(&self) -> Vec<u8> {
    pdata_for_guid(self.guid)
  }

  /// -> (outcome, remote identity handle)
  pub fn validate_remote(
    &mut self,
    remote_identity_token: &Tok,
    remote_guid_prefix: [u8; 12],
    auth_request: Option<&Tok>,
  ) -> Result<(String, u32), String> {
    self
      .auth
      .validate_remote_identity(
        auth_request.map(|t| AuthRequestMessageToken::from(from_tok(t))),
        self.local,
        IdentityToken::from(from_tok(remote_identity_token)),
        GuidPrefix::new(&remote_guid_prefix),
      )
      .map(|(o, h, _)| (outcome_name(&o).to_string(), h))
      .map_err(|e| e.msg)
  }

  /// -> (outcome, handshake handle, request token)
  pub fn begin_request(&mut self, remote: u32, pdata: Vec<u8>) -> Result<(String, u32, Tok), String> {
    self
      .auth
      .begin_handshake_request(self.local, remote, pdata)
      .map(|(o, h, t)| (outcome_name(&o).to_string(), h, to_tok(&t.data_holder)))
      .map_err(|e| e.msg)
  }

  /// -> (outcome, handshake handle, reply token)
  pub fn begin_reply(&mut self, remote: u32, request: &Tok, pdata: Vec<u8>) -> Result<(String, u32, Tok), String> {
    self
      .auth
      .begin_handshake_reply(HandshakeMessageToken::from(from_tok(request)), remote, self.local, pdata)
      .map(|(o, h, t)| (outcome_name(&o).to_string(), h, to_tok(&t.data_holder)))
      .map_err(|e| e.msg)
  }

  /// -> (outcome, optional token to send back)
  pub fn process(&mut self, handshake: u32, token: &Tok) -> Result<(String, Option<Tok>), String> {
    self
      .auth
      .process_handshake(HandshakeMessageToken::from(from_tok(token)), handshake)
      .map(|(o, t)| (outcome_name(&o).to_string(), t.map(|t| to_tok(&t.data_holder))))
      .map_err(|e| e.msg)
  }

  /// -> (shared secret, challenge1, challenge2) once the handshake with `remote` has completed
  pub fn shared_secret(&self, remote: u32) -> Option<(Vec<u8>, Vec<u8>, Vec<u8>)> {
    self.auth.get_shared_secret(remote).ok().map(|h| {
      (h.shared_secret.as_ref().to_vec(), h.challenge1.as_ref().to_vec(), h.challenge2.as_ref().to_vec())
    })
  }

  /// certificate the plugin has stored for the peer of this handshake (PEM), if any
  pub fn peer_certificate(&self, handshake: u32) -> Option<Vec<u8>> {
    self
      .auth
      .get_authenticated_peer_credential_token(handshake)
      .ok()
      .and_then(|t| t.data_holder.binary_properties.iter().find(|p| p.name == "c.id").map(|p| p.value.to_vec()))
  }
}

// ---- forger's toolkit (generators only): what somebody WITHOUT a CA-issued identity, but with
// ---- some key pair of his own, can compute for himself.

fn props_cdr_be(props: &[(String, Vec<u8>)]) -> Result<Vec<u8>, String> {
  let v: Vec<BinaryProperty> =
    props.iter().map(|(n, b)| BinaryProperty::with_propagate(n, Bytes::from(b.clone()))).collect();
  to_vec::<Vec<BinaryProperty>, byteorder::BigEndian>(&v).map_err(|e| format!("{e}"))
}

/// SHA-256 over the CDR big-endian BinaryPropertySeq (hash_c1 / hash_c2 of spec 9.3.2.5)
pub fn forge_hash(props: &[(String, Vec<u8>)]) -> Result<Vec<u8>, String> {
  props_cdr_be(props).map(|b| ring::digest::digest(&ring::digest::SHA256, &b).as_ref().to_vec())
}

/// signature (ECDSA-SHA256 / RSA as the key dictates) with the given PKCS#8 PEM key over the CDR
/// big-endian BinaryPropertySeq: the `signature` property of reply / final messages
pub fn forge_sign(key_pem: &[u8], props: &[(String, Vec<u8>)]) -> Result<Vec<u8>, String> {
  use x509_certificate::{signing::InMemorySigningKeyPair, Signer};
  let key = InMemorySigningKeyPair::from_pkcs8_pem(key_pem).map_err(|e| format!("{e:?}"))?;
  let data = props_cdr_be(props)?;
  key.try_sign(&data).map(|s| AsRef::<[u8]>::as_ref(&s).to_vec()).map_err(|e| format!("{e:?}"))
}

/// a fresh, valid ECDH P-256 public key (the private half is thrown away)
pub fn forge_dh_public() -> Vec<u8> {
  let rng = ring::rand::SystemRandom::new();
  ring::agreement::EphemeralPrivateKey::generate(&ring::agreement::ECDH_P256, &rng)
    .and_then(|k| k.compute_public_key())
    .map(|p| p.as_ref().to_vec())
    .unwrap_or_default()
}

/// The other key agreement algorithm of DDS Security 9.3.2.5 ("DH+MODP-2048-256": the 2048-bit MODP group with
/// 256-bit prime order subgroup of RFC 5114 section 2.3), as an initiator of another implementation may choose
/// it: a key pair in that group, and SHA-256 of the agreed value as the shared secret.
pub struct ModpKey(openssl::dh::Dh<openssl::pkey::Private>);
impl ModpKey {
  pub fn generate() -> Result<ModpKey, String> {
    openssl::dh::Dh::get_2048_256().and_then(|p| p.generate_key()).map(ModpKey).map_err(|e| format!("{e}"))
  }
  pub fn public(&self) -> Vec<u8> {
    self.0.public_key().to_vec()
  }
  pub fn shared_secret(&self, peer_public: &[u8]) -> Result<Vec<u8>, String> {
    let peer = openssl::bn::BigNum::from_slice(peer_public).map_err(|e| format!("{e}"))?;
    let k = self.0.compute_key(&peer).map_err(|e| format!("{e}"))?;
    Ok(ring::digest::digest(&ring::digest::SHA256, &k).as_ref().to_vec())
  }
  /// is `x` an element of the order-q subgroup (x^q mod p == 1, 1 < x < p - 1)?
  pub fn in_subgroup(&self, x: &[u8]) -> bool {
    let mut ctx = match openssl::bn::BigNumContext::new() {
      Ok(c) => c,
      Err(_) => return false,
    };
    let (p, q) = (self.0.prime_p(), self.0.prime_q());
    let x = match openssl::bn::BigNum::from_slice(x) {
      Ok(x) => x,
      Err(_) => return false,
    };
    let (Some(q), Ok(mut r)) = (q, openssl::bn::BigNum::new()) else { return false };
    r.mod_exp(&x, q, p, &mut ctx).is_ok() && r == openssl::bn::BigNum::from_u32(1).unwrap() && x > openssl::bn::BigNum::from_u32(1).unwrap()
  }
}
